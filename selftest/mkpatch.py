#!/usr/bin/env python3
"""mkpatch.py <out.patch> <repo-relative-file> <old-text> <new-text> [count]: writes a unified diff (relative to the repo root,
-p1) that replaces old-text by new-text in the file; fails unless old-text occurs exactly `count` (default 1) times."""
import sys, difflib
out, rel, old, new = sys.argv[1:5]; count = int(sys.argv[5]) if len(sys.argv) > 5 else 1
old = old.encode().decode('unicode_escape'); new = new.encode().decode('unicode_escape')
src = open('/repo/' + rel, encoding='utf-8-sig', newline='').read()
raw = open('/repo/' + rel, 'rb').read(); bom = raw.startswith(b'\xef\xbb\xbf')
assert src.count(old) == count, 'old text occurs %d times' % src.count(old)
dst = src.replace(old, new)
a = (('﻿' if bom else '') + src).splitlines(keepends=True); b = (('﻿' if bom else '') + dst).splitlines(keepends=True)
d = ''.join(difflib.unified_diff(a, b, 'a/' + rel, 'b/' + rel))
open(out, 'w', encoding='utf-8', newline='').write(d)
print('wrote', out, len(d), 'bytes')
