#!/bin/bash
# Sensitivity self-test: apply one patch to a scratch copy of /repo (outside /repo and /verif), run the quick
# (or given) tier of a property's check against it through VERIF_REPO, and report whether the check goes red.
# usage: selftest/run.sh <Cxx> <patch-file | revert:<commit>> [tier]
set -u
P=$1; PATCH=$2; TIER=${3:-quick}
[[ "$PATCH" != revert:* ]] && PATCH=$(readlink -f "$PATCH")
NAME=$(basename "$PATCH" | tr ':/' '__')
D=/tmp/vsx/$P-$NAME-$$
mkdir -p $D && cp -r /repo/include /repo/src $D/ || exit 3
if [[ "$PATCH" == revert:* ]]; then
  (cd $D && git -C /repo show "${PATCH#revert:}" -- include src | patch -R -p1 -s) || { echo "SELFTEST $P $PATCH: patch did not apply"; rm -rf $D; exit 3; }
else
  (cd $D && patch -p1 -s < "$PATCH") || { echo "SELFTEST $P $PATCH: patch did not apply"; rm -rf $D; exit 3; }
fi
START=$(date +%s)
OUT=$(cd /verif && VERIF_REPO=$D VERIF_FOUND_DIR=$D/found VERIF_EVIDENCE_DIR=$D/evidence VERIF_BUILD_DIR=$D/build ./check $P --tier $TIER 2>&1); RC=$?
END=$(date +%s)
echo "SELFTEST $P $PATCH tier=$TIER rc=$RC wall=$((END-START))s $(echo "$OUT" | grep -c '^VIOLATION') violation line(s)"
echo "$OUT" | grep -A2 '^VIOLATION' | head -8 | cut -c1-300
[ $RC -eq 2 ] && echo "$OUT" | tail -15 | cut -c1-300
# SELFTEST_KEEP=<dir>: keep the replay files of the violations found (tools/harvest_replays.py turns them into the curated replay tier)
[ -n "${SELFTEST_KEEP:-}" ] && [ -d $D/found/$P ] && mkdir -p "$SELFTEST_KEEP" && cp $D/found/$P/*.json "$SELFTEST_KEEP"/ 2>/dev/null
rm -rf $D
# remove the build cache entry of the scratch tree
exit $RC
