#!/usr/bin/env python3
"""Collects the SELFTEST lines of selftest/run.sh logs (given as arguments, oldest first) into selftest/RESULTS.tsv; a later log overrides an
earlier result for the same (check, change)."""
import glob, os, re, subprocess, sys
logs = sys.argv[1:] or sorted(glob.glob('/tmp/vb/selftest*.log'), key=os.path.getmtime)
res = {}
for lf in logs:
    cur = None
    for line in open(lf, errors='replace'):
        m = re.match(r'SELFTEST (C\d\d) (\S+)(?: tier=(\w+) rc=(\d+) wall=\d+s (\d+) violation)?', line)
        if m:
            if m.group(4) is None: cur = None; continue
            cur = (m.group(1), m.group(2)); res[cur] = dict(rc=int(m.group(4)), kinds=[]); continue
        m = re.match(r'\s+kind=(.*)', line)
        if m and cur: res[cur]['kinds'].append(m.group(1).strip())
def subj(change):
    if change.startswith('revert:'):
        c = change.split(':', 1)[1]
        s = subprocess.run(['git', '-C', '/repo', 'log', '-1', '--format=%s', c], capture_output=True, text=True).stdout.strip()
        return 'revert %s (%s)' % (c, s[:110])
    return 'patch ' + os.path.basename(change)
out = os.path.join(os.path.dirname(os.path.abspath(__file__)), 'RESULTS.tsv')
old = {}
if os.path.exists(out):
    for line in open(out):
        p = line.rstrip('\n').split('\t')
        if len(p) >= 4: old[(p[0], p[1])] = p
for (p, ch), r in res.items():
    outc = 'detected' if r['rc'] == 1 else ('harness does not build (later commits depend on it)' if r['rc'] == 2 else 'not detected')
    old[(p, subj(ch))] = [p, subj(ch), outc, '; '.join(sorted(set(r['kinds'])))[:300]]
with open(out, 'w') as f:
    for k in sorted(old): f.write('\t'.join(old[k]) + '\n')
print(len(old), 'results')
