#!/usr/bin/env python3
"""Builds the curated replay tier (/verif/replay/<Cxx>/) from the repaired findings: for every `fixed` entry of known_findings.json the
fix is reverted on a scratch copy (selftest/run.sh, outside /repo and /verif), the property's quick check is run against it, and the
shrunk replay files of the violations it reports are kept.  On the repaired tree every one of them must pass; if the defect ever
returns, the replay tier reports it deterministically instead of relying on the search to find it again.
usage: tools/harvest_replays.py [KF-id ...]      (default: every fixed finding)"""
import json, os, subprocess, sys, glob, shutil
V = os.path.dirname(os.path.dirname(os.path.abspath(__file__)))
known = json.load(open(os.path.join(V, 'known_findings.json')))['findings']
want = set(sys.argv[1:])
tmp = '/tmp/vb/harvest'
for k in known:
    if k['status'] != 'fixed' or (want and k['id'] not in want): continue
    for pid in k['property'][:2]:
        keep = os.path.join(tmp, k['id'], pid); shutil.rmtree(keep, ignore_errors=True)
        env = dict(os.environ, SELFTEST_KEEP=keep)
        r = subprocess.run(['bash', os.path.join(V, 'selftest', 'run.sh'), pid, 'revert:' + k['commit'], 'quick'], capture_output=True, text=True, env=env)
        files = sorted(glob.glob(os.path.join(keep, '*.json')), key=os.path.getsize)
        print('%s %s %s rc=%d kept=%d' % (k['id'], pid, k['commit'], r.returncode, len(files)), flush=True)
        seen = set(); n = 0
        for f in files:
            b = json.load(open(f))
            if 'history_args' in b or str(b.get('prop', '')).startswith('kf'): continue   # (witness functions of recorded findings fail by design)                     # needs the whole shard: too slow for a seconds-long tier
            if b.get('kind', '').startswith(('hang', 'memory:', 'memory out', 'died:cpu-budget')): continue   # budget oracles are not replayed on every run
            key = (b.get('unit'), b.get('prop'))
            if key in seen or n >= 3: continue
            seen.add(key); n += 1
            b['expect'] = 'pass'; b['origin'] = '%s: found with %s reverted (%s)' % (k['id'], k['commit'], k['what'][:160])
            d = os.path.join(V, 'replay', pid); os.makedirs(d, exist_ok=True)
            json.dump(b, open(os.path.join(d, '%s-%d.json' % (k['id'], n)), 'w'), indent=1)
        if files: break
