#!/bin/bash
# Developer aid (not a registered check): builds the repository's complete upstream test suite with all
# archives enabled (the pinned baseline has them OFF) in a scratch directory outside /repo and /verif,
# to make sure a "fix:" commit does not break upstream's own expectations.  Remove /tmp/upb when done.
set -e
D=${1:-/tmp/upb}
mkdir -p $D/lib
if [ ! -f $D/lib/librapidjson.a ]; then (cd $D/lib && echo "" > e.c && gcc -c e.c -o e.o && ar rcs librapidjson.a e.o); fi
cmake -G Ninja -S /repo -B $D/b -DBUILD_TESTS=ON -DBUILD_CSV_ARCHIVE=ON -DBUILD_MSGPACK_ARCHIVE=ON -DBUILD_PUGIXML_ARCHIVE=ON -DBUILD_RAPIDJSON_ARCHIVE=ON \
  -DGTest_DIR=/root/miniconda/lib/cmake/GTest -DCMAKE_BUILD_TYPE=RelWithDebInfo -DCMAKE_CXX_FLAGS=-Wno-error -DCMAKE_EXE_LINKER_FLAGS=-L$D/lib > $D/configure.log
cmake --build $D/b -j16 -- -k 0 2>&1 | tail -3
ctest --test-dir $D/b -j16 --timeout 300 2>&1 | tail -8
