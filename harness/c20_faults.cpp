// C20 — every failure surfaces as a catchable exception: no terminate, no leak.
// Every case runs in a forked child (engine --isolate): std::terminate, abort, a sanitizer report, a CPU-budget breach or a leak at exit
// of the child are failures by themselves; inside the child the oracle checks what reaches the caller.
// Fault classes: input ending at byte k (memory, three kinds of streams and a file), the k-th operator new throwing bad_alloc (once or from
// then on), an input streambuf throwing / failing at byte k (with and without the stream's exception mask), an output streambuf
// failing or throwing at byte k, and errors the library raises itself midway through a save.
#include "common/arch.h"
#include "bitserializer/types/std/vector.h"
#include "bitserializer/types/std/map.h"
#include "bitserializer/types/std/optional.h"
#include "bitserializer/types/std/memory.h"
#include <new>
#include <cstdlib>

// ---- allocation fault injection (armed only around the call under test) ---------------------------------------------------------
namespace { long g_countdown = -1; long g_allocs = 0; bool g_armed = false; bool g_sticky = false; bool g_failing = false; long g_failed = 0; }
static void* vf_alloc(std::size_t n) {
	if (g_armed) { ++g_allocs; if (g_failing || (g_countdown > 0 && --g_countdown == 0)) { if (g_sticky) g_failing = true; ++g_failed; throw std::bad_alloc(); } }
	void* p = std::malloc(n ? n : 1); if (!p) throw std::bad_alloc(); return p;
}
void* operator new(std::size_t n) { return vf_alloc(n); }
void* operator new[](std::size_t n) { return vf_alloc(n); }
void operator delete(void* p) noexcept { std::free(p); }
void operator delete[](void* p) noexcept { std::free(p); }
void operator delete(void* p, std::size_t) noexcept { std::free(p); }
void operator delete[](void* p, std::size_t) noexcept { std::free(p); }

using namespace arch;

namespace {

struct Arm { Arm(long k, bool sticky) { g_allocs = 0; g_failed = 0; g_countdown = k; g_sticky = sticky; g_failing = false; g_armed = true; } ~Arm() { g_armed = false; g_failing = false; } };

// ---- models ----------------------------------------------------------------------------------------------------------------------
struct In {
	int q = 0; std::string t;
	template <class A> void Serialize(A& a) { a << KeyValue("q", q, Required()) << KeyValue("t", t, MaxSize(100)); }
	bool operator==(const In& o) const { return q == o.q && t == o.t; }
};
struct Cls {
	int64_t a = 1; std::string s; std::vector<int> v; In in; std::vector<In> arr; std::map<std::string, int> m; std::optional<std::string> o; std::u16string w; std::unique_ptr<In> p; double d = 0.5; std::vector<uint8_t> bin; std::vector<std::vector<char>> bins;
	template <class A> void Serialize(A& ar) { ar << KeyValue("a", a) << KeyValue("s", s, MinSize(0)) << KeyValue("v", v) << KeyValue("in", in) << KeyValue("bin", bin) << KeyValue("arr", arr) << KeyValue("m", m) << KeyValue("o", o) << KeyValue("w", w) << KeyValue("p", p) << KeyValue("bins", bins) << KeyValue("d", d); }
	bool operator==(const Cls& x) const { return a == x.a && s == x.s && v == x.v && in == x.in && arr == x.arr && m == x.m && o == x.o && w == x.w && (!p == !x.p) && (!p || *p == *x.p) && d == x.d && bin == x.bin && bins == x.bins; }
};
// same document layout without the required member "q" (to build documents whose load has to report missing fields)
struct InNoQ { std::string t; template <class A> void Serialize(A& a) { a << KeyValue("t", t); } };
struct ClsNoQ {
	int64_t a = 1; std::string s; std::vector<int> v; InNoQ in; std::vector<InNoQ> arr; std::map<std::string, int> m; std::optional<std::string> o; std::u16string w; std::unique_ptr<InNoQ> p; double d = 0.5;
	template <class A> void Serialize(A& ar) { ar << KeyValue("a", a) << KeyValue("s", s) << KeyValue("v", v) << KeyValue("in", in) << KeyValue("arr", arr) << KeyValue("m", m) << KeyValue("o", o) << KeyValue("w", w) << KeyValue("p", p) << KeyValue("d", d); }
};
struct Row {
	std::string a; int n = 5; std::string b; double d = 0;
	template <class A> void Serialize(A& ar) { ar << KeyValue("a", a) << KeyValue("n", n, Required()) << KeyValue("b", b) << KeyValue("d", d); }
	bool operator==(const Row& o) const { return a == o.a && n == o.n && b == o.b && d == o.d; }
};
std::string gen_str(vf::Src& s, size_t maxLen, bool nonEmpty) { static const char* pool[] = { "a", "Z", "0", " ", "\"", ",", "<", "&", "\xD0\x96", "\xE2\x82\xAC", "\xF0\x9F\x98\x80", "x" }; std::string r; size_t n = s.coin() ? s.len(maxLen) : s.draw(maxLen + 1); if (nonEmpty && n == 0) n = 1; r.reserve(n); for (size_t i = 0; i < n; i++) r += pool[s.draw(12)]; if (nonEmpty) { r.insert(r.begin(), 'x'); r.push_back('y'); } return r; }
In gen_in(vf::Src& s, bool ne) { In r; r.q = static_cast<int>(s.draw(100000)) - 50000; r.t = gen_str(s, 40, ne); return r; }
Cls gen_cls(vf::Src& s, int archId) {
	const bool ne = archId == XML; Cls c; c.a = s.integer<int64_t>(); c.s = gen_str(s, 60, ne); for (size_t n = s.len(6) + (ne ? 1 : 0); n > 0; n--) c.v.push_back(static_cast<int>(s.draw(1000)));
	c.in = gen_in(s, ne); for (size_t n = s.len(4) + (ne ? 1 : 0); n > 0; n--) c.arr.push_back(gen_in(s, ne)); for (size_t n = s.len(4) + (ne ? 1 : 0), k = 0; k < n; k++) c.m["k" + std::to_string(k) + std::string(s.draw(30), 'k')] = static_cast<int>(s.draw(100));
	if (ne || s.coin()) c.o = gen_str(s, 50, ne); { std::string w = gen_str(s, 30, ne); c.w = BitSerializer::Convert::To<std::u16string>(w); } if (ne || s.coin()) c.p = std::make_unique<In>(gen_in(s, ne)); c.d = static_cast<double>(s.draw(100000)) / 8;
	for (size_t n = s.draw(41) + (ne ? 1 : 0); n > 0; n--) c.bin.push_back(static_cast<uint8_t>(s.draw(256))); for (size_t n = s.len(3) + (ne ? 1 : 0); n > 0; n--) { std::vector<char> b; for (size_t k = 1 + s.draw(20); k > 0; k--) b.push_back(static_cast<char>(s.draw(256))); c.bins.push_back(b); }
	return c;
}
std::vector<Row> gen_rows(vf::Src& s) { std::vector<Row> r; for (size_t n = 1 + s.len(4); n > 0; n--) { Row x; x.a = gen_str(s, 50, false); x.n = static_cast<int>(s.draw(100000)); x.b = gen_str(s, 50, false); x.d = static_cast<double>(s.draw(1000)) / 4; r.push_back(x); } return r; }

Cls gen_copy(const Cls& v) { Cls c; c.a = v.a; c.s = v.s; c.v = v.v; c.in = v.in; c.arr = v.arr; c.m = v.m; c.o = v.o; c.w = v.w; if (v.p) c.p = std::make_unique<In>(*v.p); c.d = v.d; c.bin = v.bin; c.bins = v.bins; return c; }
std::vector<Row> gen_copy(const std::vector<Row>& v) { return v; }

// ---- failing stream buffers ---------------------------------------------------------------------------------------------------------
struct FailOut : std::streambuf {
	size_t left; bool thr; std::string sink; FailOut(size_t n, bool t) : left(n), thr(t) {}
	int_type overflow(int_type c) override { if (left == 0) { if (thr) throw std::runtime_error("disk full"); return traits_type::eof(); } --left; if (c != traits_type::eof()) sink.push_back(static_cast<char>(c)); return c == traits_type::eof() ? traits_type::not_eof(c) : c; }
	std::streamsize xsputn(const char* s, std::streamsize n) override { std::streamsize k = 0; for (; k < n; k++) if (overflow(static_cast<unsigned char>(s[k])) == traits_type::eof()) break; return k; }
};
struct FailIn : std::streambuf {   // delivers `chunk` bytes at a time, at offset `limit` the device fails: throws (mode 1) or reports a read error without reaching the end (mode 0: underflow fails, and keeps failing)
	std::string d; size_t pos = 0, limit, chunk; int mode; FailIn(std::string s, size_t lim, size_t ch, int m) : d(std::move(s)), limit(lim), chunk(ch ? ch : 1), mode(m) { setg(d.data(), d.data(), d.data()); }
	int_type underflow() override { if (gptr() < egptr()) return traits_type::to_int_type(*gptr()); pos = static_cast<size_t>(egptr() - d.data()); if (pos >= limit) { throw std::runtime_error("device read error"); } size_t n = std::min(chunk, std::min(limit, d.size()) - pos); if (n == 0) return traits_type::eof(); setg(d.data(), d.data() + pos, d.data() + pos + n); return traits_type::to_int_type(*gptr()); }
	pos_type seekoff(off_type off, std::ios_base::seekdir dir, std::ios_base::openmode) override { off_type base = dir == std::ios_base::beg ? 0 : dir == std::ios_base::cur ? static_cast<off_type>(gptr() - d.data()) : static_cast<off_type>(d.size()); off_type p = base + off; if (p < 0 || p > static_cast<off_type>(d.size())) return pos_type(off_type(-1)); if (static_cast<size_t>(p) > limit && mode == 1) return pos_type(off_type(-1)); setg(d.data(), d.data() + p, d.data() + p); return pos_type(p); }
	pos_type seekpos(pos_type p, std::ios_base::openmode m) override { return seekoff(off_type(p), std::ios_base::beg, m); }
};

// what reached the caller
struct Res { enum K { Ok, StdEx, NonStd } k = Ok; std::string what; bool badAlloc = false, serEx = false; };
template <class F> Res call(F&& f) {
	Res r;
	try { f(); g_armed = false; }
	catch (const vf::Failure&) { g_armed = false; throw; } catch (const vf::Discard&) { g_armed = false; throw; }
	catch (const std::bad_alloc&) { g_armed = false; r.k = Res::StdEx; r.badAlloc = true; r.what = "bad_alloc"; }   // disarm first: the handlers allocate
	catch (const SerializationException& e) { g_armed = false; r.k = Res::StdEx; r.serEx = true; r.what = e.what(); }
	catch (const std::exception& e) { g_armed = false; r.k = Res::StdEx; r.what = e.what(); }
	catch (...) { g_armed = false; r.k = Res::NonStd; }
	return r;
}
// positions [from, to) of a document of `len` fault points chosen by the case: one, a window, or all of them
const char* bucket(size_t n) { return n <= 1 ? "faults=1" : n <= 16 ? "faults=2..16" : n <= 64 ? "faults=17..64" : n <= 256 ? "faults=65..256" : "faults>256"; }
void gen_span(vf::Src& s, size_t len, size_t& from, size_t& to) { if (len == 0) { from = to = 0; return; } switch (s.draw(4)) { case 0: from = s.draw(len); to = from + 1; break; case 1: from = s.draw(len); to = std::min(len, from + 1 + s.draw(16)); break; default: from = 0; to = len; } }

template <class A, class T> std::string save_ref(T& v) { std::string b; Cfg mem; Outcome o = save<A>(v, b, mem); if (!o.ok()) return std::string(); return b; }

template <class A, class T> void load_any(T& target, const std::string& bytes, int medium, size_t chunk, const SerializationOptions& opt) {
	if (medium == 0) { LoadObject<A>(target, bytes, opt); return; }
	if (medium == 1) { std::istringstream is(bytes); LoadObject<A>(target, is, opt); return; }
	if (medium == 2) { ShortReadBuf b(bytes, chunk); std::istream is(&b); LoadObject<A>(target, is, opt); return; }
	if (medium == 4) { ScratchFile f; { std::ofstream out(f.path, std::ios::binary | std::ios::trunc); out.write(bytes.data(), static_cast<std::streamsize>(bytes.size())); } LoadObjectFromFile<A>(target, f.path, opt); return; }   // a file accepts seeking behind its end
	NonSeekableBuf b(bytes, chunk); std::istream is(&b); LoadObject<A>(target, is, opt);
}

// ---- 1. truncated input ---------------------------------------------------------------------------------------------------------
// a target that knows only some members of the document: the rest is skipped (unknown keys, unread rest of the object)
struct Partial { int64_t a = 0; std::string o; template <class A> void Serialize(A& ar) { ar << KeyValue("o", o) << KeyValue("a", a); } };
// a target that reads the first two members in stored order: everything behind them is unread when the scope is closed
struct Leading { int64_t a = 0; std::string s; template <class A> void Serialize(A& ar) { ar << KeyValue("a", a) << KeyValue("s", s); } };
template <class A, class T, class TTarget = T, class G> void run_trunc(vf::Ctx& c, int archId, G gen) {
	T v = gen(c.src); const std::string full = save_ref<A>(v); if (full.empty()) c.discard("reference save failed");
	const int medium = static_cast<int>(c.src.draw(5)); const size_t chunk = 1 + c.src.draw(40); SerializationOptions opt; gen_policies(c.src, opt);
	size_t from, to; gen_span(c.src, full.size(), from, to); c.nontrivial = to > from && to > 1; c.label(vf::cat("medium=", medium)); if (to - from == full.size()) c.label("all-positions");
	size_t rejected = 0, accepted = 0;
	for (size_t k = from; k < to; k++) {
		c.describe(vf::cat(arch_name(archId), " truncated at ", k, " of ", full.size(), " medium=", medium, "/", chunk, " mis=", static_cast<int>(opt.mismatchedTypesPolicy)));
		TTarget target{}; const std::string prefix = full.substr(0, k);
		Res r = call([&] { load_any<A>(target, prefix, medium, chunk, opt); });
		const std::string d = vf::cat(arch_name(archId), " prefix ", k, "/", full.size(), " medium=", medium, "/", chunk, " doc=", archId == MSGPACK ? vf::hex(full.substr(0, 120)) : full.substr(0, 200), " => ", r.k == Res::Ok ? "ok" : r.what);
		if (r.k == Res::NonStd) c.fail("a failure reaches the caller as something that is not a std::exception", d);
		if (r.k == Res::Ok) { accepted++; if (archId == MSGPACK) c.fail("a strict prefix of a MessagePack document is accepted", d); } else rejected++;
	}
	c.label(accepted ? "some-prefix-accepted" : "all-prefixes-rejected"); c.label(bucket(to - from));
	c.describe(vf::cat(arch_name(archId), " truncated [", from, ",", to, ") of ", full.size(), " medium=", medium, "/", chunk, " rejected=", rejected));
}

// ---- 2. allocation failures ------------------------------------------------------------------------------------------------------
template <class A, class T, class G> void run_alloc(vf::Ctx& c, int archId, G gen, bool loading) {
	const T v = gen(c.src); T vv = gen_copy(v); std::string full = save_ref<A>(vv); if (full.empty()) c.discard("reference save failed");
	const int medium = static_cast<int>(c.src.draw(3)); const size_t chunk = 1 + c.src.draw(40); const bool sticky = c.src.coin();
	SerializationOptions opt; const bool utf16 = archId != MSGPACK && medium != 0 && c.src.chance(1, 3); if (utf16 && !loading) { opt.streamOptions.encoding = Convert::Utf::UtfType::Utf16le; }
	const bool failValidation = loading && archId != CSV && c.src.chance(1, 4);   // a load that also has to report validation errors
	std::string doc = full; if (failValidation) { if constexpr (std::is_same_v<T, Cls>) { ClsNoQ bad; bad.a = v.a; bad.s = v.s; bad.v = v.v; bad.m = v.m; bad.o = v.o; bad.w = v.w; bad.d = v.d; bad.in.t = std::string(150, 't'); for (auto& x : v.arr) { InNoQ y; y.t = x.t.size() % 2 ? std::string(101, 'u') : x.t; bad.arr.push_back(y); } if (v.p) { bad.p = std::make_unique<InNoQ>(); bad.p->t = v.p->t; } doc = save_ref<A>(bad); } }
	std::string sink; sink.reserve(doc.size() * 4 + 64);
	auto body = [&](T& target) {
		if (loading) load_any<A>(target, doc, medium, chunk, opt);
		else { if (medium == 0) { std::string out; SaveObject<A>(target, out, opt); sink = std::move(out); } else { std::ostringstream os; SaveObject<A>(target, os, opt); sink = os.str(); } }
	};
	// fault-free run: number of allocations and the reference result
	long total; Res ref; T refTarget = loading ? T{} : gen_copy(v); { Arm arm(-1, false); ref = call([&] { body(refTarget); }); total = g_allocs; }
	const std::string refOut = sink;
	if (ref.k == Res::NonStd) c.fail("a failure reaches the caller as something that is not a std::exception", "fault-free run");
	size_t from, to; gen_span(c.src, static_cast<size_t>(total), from, to); c.nontrivial = total > 1 && to > from; if (to - from == static_cast<size_t>(total) && total > 0) c.label("all-positions"); c.label(loading ? "load" : "save"); if (failValidation) c.label("validation-failing-load"); if (sticky) c.label("sticky-oom");
	size_t threw = 0, absorbed = 0;
	for (size_t k = from; k < to; k++) {
		c.describe(vf::cat(arch_name(archId), loading ? " load" : " save", " allocation ", k + 1, " of ", total, sticky ? " and all later ones fail" : " fails", " medium=", medium, failValidation ? " validation-failing" : ""));
		T target = loading ? T{} : gen_copy(v); sink.clear(); Res r; long failed;
		{ Arm arm(static_cast<long>(k + 1), sticky); r = call([&] { body(target); }); failed = g_failed; }
		const std::string d = vf::cat(arch_name(archId), loading ? " load" : " save", " medium=", medium, " allocation ", k + 1, "/", total, sticky ? " sticky" : "", failValidation ? " validation-failing" : "", " => ", r.k == Res::Ok ? "ok" : r.what);
		if (r.k == Res::NonStd) c.fail("a failure reaches the caller as something that is not a std::exception", d);
		if (failed == 0) continue;   // the run needed fewer allocations than the fault-free one
		if (r.k == Res::StdEx) { threw++; continue; }
		// the call returned normally although an allocation failed: acceptable only if the failure was absorbed without changing the result
		absorbed++;
		if (ref.k != Res::Ok) c.fail("an allocation failure turns a failing call into a succeeding one", d);
		if (loading) { if (!(target == refTarget)) c.fail("an allocation failure is swallowed: the call returns normally with a different result", d); }
		else if (sink != refOut) c.fail("an allocation failure is swallowed: the call returns normally with a different result", vf::cat("output ", sink.size(), " bytes instead of ", refOut.size(), " | ", d));
	}
	c.label(absorbed ? "some-failure-absorbed" : "all-failures-thrown"); c.label(bucket(to - from));
	c.describe(vf::cat(arch_name(archId), loading ? " load" : " save", " allocations [", from, ",", to, ") of ", total, sticky ? " sticky" : "", " medium=", medium, failValidation ? " validation-failing" : "", " threw=", threw));
}

// ---- 3. failing input stream ---------------------------------------------------------------------------------------------------------
template <class A, class T, class G> void run_instream(vf::Ctx& c, int archId, G gen) {
	T v = gen(c.src); const std::string full = save_ref<A>(v); if (full.empty()) c.discard("reference save failed");
	const size_t chunk = 1 + c.src.draw(40); const bool mask = c.src.coin(); const int mode = static_cast<int>(c.src.draw(2)); SerializationOptions opt; gen_policies(c.src, opt);
	size_t from, to; gen_span(c.src, full.size(), from, to); c.nontrivial = to > from && to > 1; c.label(mask ? "exception-mask" : "no-mask"); if (to - from == full.size()) c.label("all-positions");
	size_t threw = 0;
	for (size_t k = from; k < to; k++) {
		c.describe(vf::cat(arch_name(archId), " input stream throws at byte ", k, " of ", full.size(), " chunk=", chunk, " mask=", mask, " mode=", mode));
		T target{}; FailIn fb(full, k, chunk, mode); std::istream is(&fb); if (mask) is.exceptions(std::ios::badbit);
		Res r = call([&] { LoadObject<A>(target, is, opt); });
		const std::string d = vf::cat(arch_name(archId), " device error at byte ", k, "/", full.size(), " chunk=", chunk, " mask=", mask, " mode=", mode, " => ", r.k == Res::Ok ? "ok" : r.what);
		if (r.k == Res::NonStd) c.fail("a failure reaches the caller as something that is not a std::exception", d);
		if (r.k == Res::Ok) c.fail("a read error of the input stream does not reach the caller: the load returns normally", d);
		threw++;
	}
	c.label(bucket(to - from));
	c.describe(vf::cat(arch_name(archId), " input stream throws at [", from, ",", to, ") of ", full.size(), " chunk=", chunk, " mask=", mask, " mode=", mode, " threw=", threw));
}

// ---- 4. failing output stream --------------------------------------------------------------------------------------------------------
template <class A, class T, class G> void run_outstream(vf::Ctx& c, int archId, G gen) {
	T v = gen(c.src); SerializationOptions opt; if (archId != MSGPACK && c.src.chance(1, 3)) { opt.streamOptions.encoding = static_cast<Convert::Utf::UtfType>(c.src.draw(5)); opt.streamOptions.writeBom = c.src.coin(); }
	std::string full; { std::ostringstream os; Res r0 = call([&] { SaveObject<A>(v, os, opt); }); if (r0.k != Res::Ok) c.discard("reference save failed"); full = os.str(); }
	const bool mask = c.src.coin(); const bool thr = c.src.coin();
	size_t from, to; gen_span(c.src, full.size(), from, to); c.nontrivial = to > from && to > 1; c.label(mask ? "exception-mask" : "no-mask"); c.label(thr ? "streambuf-throws" : "streambuf-returns-eof"); if (to - from == full.size()) c.label("all-positions");
	if (c.src.chance(1, 6)) {   // a stream that is already in a failed state when the save starts (file that could not be opened, earlier failed seek): nothing can be written
		std::ostringstream os; os.setstate(c.src.coin() ? std::ios::failbit : std::ios::badbit); c.label("stream-failed-before-the-save"); Res r = call([&] { SaveObject<A>(v, os, opt); });
		if (r.k == Res::NonStd) c.fail("a failure reaches the caller as something that is not a std::exception", "pre-failed stream"); if (r.k == Res::Ok) c.fail("a write error of the output stream does not reach the caller as an exception: the save returns normally", vf::cat(arch_name(archId), " stream in a failed state before the save"));
	}
	size_t threw = 0;
	for (size_t k = from; k < to; k++) {
		c.describe(vf::cat(arch_name(archId), " output stream fails after ", k, " of ", full.size(), " bytes mask=", mask, " throws=", thr));
		FailOut fb(k, thr); std::ostream os(&fb); if (mask) os.exceptions(std::ios::badbit | std::ios::failbit);
		Res r = call([&] { SaveObject<A>(v, os, opt); });
		const std::string d = vf::cat(arch_name(archId), " device full after ", k, "/", full.size(), " bytes mask=", mask, " throws=", thr, " => ", r.k == Res::Ok ? (os.good() ? "ok, stream good()" : "ok, stream in fail state") : r.what);
		if (r.k == Res::NonStd) c.fail("a failure reaches the caller as something that is not a std::exception", d);
		if (r.k == Res::Ok) { if (os.good()) c.fail("a write error of the output stream is lost: the save returns normally and the stream is good()", d); c.fail("a write error of the output stream does not reach the caller as an exception: the save returns normally", d); }
		threw++;
	}
	c.label(bucket(to - from));
	c.describe(vf::cat(arch_name(archId), " output stream fails at [", from, ",", to, ") of ", full.size(), " mask=", mask, " throws=", thr, " threw=", threw));
}

// ---- 5. errors raised by the library midway through a save ------------------------------------------------------------------------------
struct RaggedRow { int idx = 0; int dropAt = -1; std::string a = "aaaa"; std::string b = "bbbb"; std::string cc = "cccc";
	template <class A> void Serialize(A& ar) { ar << KeyValue("a", a); if (idx != dropAt) ar << KeyValue("b", b); ar << KeyValue("c", cc); if (idx == dropAt + 1 && dropAt >= 0 && extra) ar << KeyValue("d", a); } bool extra = false; };
struct BadTextRow { std::string ok1 = "fine"; std::string bad = "x"; template <class A> void Serialize(A& ar) { ar << KeyValue("ok1", ok1) << KeyValue("bad", bad); } };
struct BadText { std::string ok1 = "fine"; std::string bad; std::string ok2 = "also fine"; std::vector<std::string> more;
	template <class A> void Serialize(A& ar) { ar << KeyValue("ok1", ok1) << KeyValue("bad", bad) << KeyValue("ok2", ok2) << KeyValue("more", more); } };

} // namespace

#define GEN_CLS(id) [](vf::Src& s) { return gen_cls(s, id); }
#define GEN_ROWS [](vf::Src& s) { return gen_rows(s); }
#define R_TRUNC "object with 12 members (int64, strings beyond the small-string size, vector, nested object with validators, byte container, array of objects, map, optional, UTF-16 string, unique_ptr, array of byte containers, double) of generated sizes, saved and then loaded from every strict prefix of the document (one position, a window of <= 16, or all positions) from memory, istringstream, short-read and non-seekable streams under both mismatch policies; oracle: an exception derived from std::exception reaches the caller (MessagePack: always; other formats may accept a prefix that is a document), the child process neither terminates, crashes, exceeds its CPU budget nor leaks; non-trivial = more than one position"
VF_PROPERTY(truncated_msgpack, 4, R_TRUNC) { run_trunc<MsgPackArchive, Cls>(c, MSGPACK, GEN_CLS(MSGPACK)); }
VF_PROPERTY(truncated_msgpack_partial_target, 2, "same documents loaded into a class that knows only two of the twelve members (requested in another order than stored, or the two leading ones so that the rest is unread when the scope closes): everything else is skipped; every strict prefix must still be rejected") { if (c.src.coin()) run_trunc<MsgPackArchive, Cls, Partial>(c, MSGPACK, GEN_CLS(MSGPACK)); else run_trunc<MsgPackArchive, Cls, Leading>(c, MSGPACK, GEN_CLS(MSGPACK)); }
VF_PROPERTY(truncated_json, 2, "same through JSON") { run_trunc<JsonArchive, Cls>(c, JSON, GEN_CLS(JSON)); }
VF_PROPERTY(truncated_xml, 2, "same through XML") { run_trunc<XmlArchive, Cls>(c, XML, GEN_CLS(XML)); }
VF_PROPERTY(truncated_csv, 2, "same through CSV (1..5 rows of 4 columns with quoted cells)") { run_trunc<CsvArchive, std::vector<Row>>(c, CSV, GEN_ROWS); }

#define R_ALLOC "same objects; the k-th call of operator new inside SaveObject / LoadObject throws std::bad_alloc (only that one, or that one and every later one), k over one position, a window or all allocations of the fault-free run; memory, stringstream and short-read stream, UTF-16 output, loads that also fail validation; oracle: an exception reaches the caller, or the call returns normally with exactly the fault-free result (failure absorbed); never terminate / crash / leak; non-trivial = more than one allocation"
VF_PROPERTY(alloc_save_msgpack, 2, R_ALLOC) { run_alloc<MsgPackArchive, Cls>(c, MSGPACK, GEN_CLS(MSGPACK), false); }
VF_PROPERTY(alloc_load_msgpack, 2, "same, loading") { run_alloc<MsgPackArchive, Cls>(c, MSGPACK, GEN_CLS(MSGPACK), true); }
VF_PROPERTY(alloc_save_json, 2, "same, JSON save") { run_alloc<JsonArchive, Cls>(c, JSON, GEN_CLS(JSON), false); }
VF_PROPERTY(alloc_load_json, 2, "same, JSON load") { run_alloc<JsonArchive, Cls>(c, JSON, GEN_CLS(JSON), true); }
VF_PROPERTY(alloc_save_xml, 2, "same, XML save") { run_alloc<XmlArchive, Cls>(c, XML, GEN_CLS(XML), false); }
VF_PROPERTY(alloc_load_xml, 2, "same, XML load") { run_alloc<XmlArchive, Cls>(c, XML, GEN_CLS(XML), true); }
VF_PROPERTY(alloc_save_csv, 2, "same, CSV save") { run_alloc<CsvArchive, std::vector<Row>>(c, CSV, GEN_ROWS, false); }
VF_PROPERTY(alloc_load_csv, 2, "same, CSV load") { run_alloc<CsvArchive, std::vector<Row>>(c, CSV, GEN_ROWS, true); }

#define R_IN "same documents read through a streambuf that delivers 1..40 bytes at a time and throws at byte k (one position, a window or every k), with and without exceptions(badbit) on the stream; oracle: an exception reaches the caller - the load never returns normally, never hangs (CPU budget), terminates or leaks; non-trivial = more than one position"
VF_PROPERTY(instream_msgpack, 2, R_IN) { run_instream<MsgPackArchive, Cls>(c, MSGPACK, GEN_CLS(MSGPACK)); }
VF_PROPERTY(instream_json, 1, "same through JSON") { run_instream<JsonArchive, Cls>(c, JSON, GEN_CLS(JSON)); }
VF_PROPERTY(instream_xml, 1, "same through XML") { run_instream<XmlArchive, Cls>(c, XML, GEN_CLS(XML)); }
VF_PROPERTY(instream_csv, 2, "same through CSV") { run_instream<CsvArchive, std::vector<Row>>(c, CSV, GEN_ROWS); }

#define R_OUT "same objects written to a streambuf that accepts k bytes and then returns eof or throws (one position, a window or every k < size), with and without exceptions(badbit|failbit), all encodings; oracle: an exception reaches the caller; non-trivial = more than one position"
VF_PROPERTY(outstream_msgpack, 2, R_OUT) { run_outstream<MsgPackArchive, Cls>(c, MSGPACK, GEN_CLS(MSGPACK)); }
VF_PROPERTY(outstream_json, 1, "same through JSON") { run_outstream<JsonArchive, Cls>(c, JSON, GEN_CLS(JSON)); }
VF_PROPERTY(outstream_xml, 1, "same through XML") { run_outstream<XmlArchive, Cls>(c, XML, GEN_CLS(XML)); }
VF_PROPERTY(outstream_csv, 2, "same through CSV") { run_outstream<CsvArchive, std::vector<Row>>(c, CSV, GEN_ROWS); }

VF_PROPERTY(midsave_csv_row_width, 2, "CSV save of 2..6 rows in which row r has one column fewer (and optionally the next row one more) than the header: the width mismatch is detected when the row is finished (scope destructor); to memory and to streams; oracle: SerializationException reaches the caller, no terminate / leak; non-trivial = the ragged row is not the last one") {
	const size_t n = 2 + c.src.draw(5); const size_t bad = 1 + c.src.draw(n - 1); std::vector<RaggedRow> rows(n); for (size_t i = 0; i < n; i++) { rows[i].idx = static_cast<int>(i); rows[i].dropAt = static_cast<int>(bad); rows[i].extra = c.src.coin(); rows[i].a = gen_str(c.src, 40, false); }
	const bool stream = c.src.coin(); c.nontrivial = bad + 1 < n; c.describe(vf::cat("csv ragged row ", bad, " of ", n, " stream=", stream));
	Res r = call([&] { if (stream) { std::ostringstream os; SaveObject<CsvArchive>(rows, os); } else { std::string out; SaveObject<CsvArchive>(rows, out); } });
	const std::string d = vf::cat("csv rows=", n, " ragged=", bad, " stream=", stream, " => ", r.k == Res::Ok ? "ok" : r.what);
	if (r.k == Res::NonStd) c.fail("a failure reaches the caller as something that is not a std::exception", d);
	if (r.k == Res::Ok) c.fail("a row of another width than the header is written without an error", d);
}
template <class A> void run_badtext(vf::Ctx& c, int archId) {
	BadText v; static const char* bads[] = { "\xC3", "abc\xFF" "def", "\xE2\x82", "\xF0\x9F\x98", "\xED\xA0\x80", "ok\x80" }; v.bad = std::string(c.src.draw(30), 'p') + bads[c.src.draw(6)] + std::string(c.src.draw(30), 's'); for (size_t n = c.src.len(3); n > 0; n--) v.more.push_back(gen_str(c.src, 30, true));
	SerializationOptions opt; opt.utfEncodingErrorPolicy = Convert::Utf::UtfEncodingErrorPolicy::ThrowError; const bool stream = c.src.coin(); if (stream) { opt.streamOptions.encoding = static_cast<Convert::Utf::UtfType>(c.src.draw(5)); opt.streamOptions.writeBom = c.src.coin(); }
	c.nontrivial = true; c.describe(vf::cat(arch_name(archId), " ill-formed UTF-8 member, ThrowError policy, stream=", stream, " enc=", static_cast<int>(opt.streamOptions.encoding)));
	std::string out; Res r = call([&] { if constexpr (std::is_same_v<A, CsvArchive>) { std::vector<BadTextRow> rows(2); rows[1].bad = v.bad; if (stream) { std::ostringstream os; SaveObject<A>(rows, os, opt); out = os.str(); } else SaveObject<A>(rows, out, opt); } else { if (stream) { std::ostringstream os; SaveObject<A>(v, os, opt); out = os.str(); } else SaveObject<A>(v, out, opt); } });
	const std::string d = vf::cat(arch_name(archId), " bad=", vf::hex(v.bad), " stream=", stream, " enc=", static_cast<int>(opt.streamOptions.encoding), " => ", r.k == Res::Ok ? "ok" : r.what);
	if (r.k == Res::NonStd) c.fail("a failure reaches the caller as something that is not a std::exception", d);
	// whether ill-formed text in a std::string must be detected on save is C12's / C01's business; here: whatever happens is an exception or a normal return
}
namespace {
// an object whose field count differs between the counting pass and the writing pass (state changes between the two calls of Serialize)
struct Unstable { int* calls; int extraOnCall; std::string a = "aaaa"; std::vector<int> v{ 1, 2, 3 };
	template <class A> void Serialize(A& ar) { const int n = (*calls)++; ar << KeyValue("a", a); if (n == extraOnCall || extraOnCall > 90) ar << KeyValue("extra", a) << KeyValue("extra2", v); if (n != extraOnCall || extraOnCall > 90) ar << KeyValue("v", v); } };
}
VF_PROPERTY(midsave_msgpack_count_mismatch, 1, "MessagePack save of objects (alone, in a vector, nested in a map) whose Serialize writes more or fewer members than the counting pass announced: the writer's consistency error must reach the caller as an exception - no terminate, no leak, the output object stays destructible; memory and streams; non-trivial = always") {
	int calls = 0; const int extraOn = static_cast<int>(c.src.draw(4)); const int shape = static_cast<int>(c.src.draw(3)); const bool stream = c.src.coin();
	c.nontrivial = true; c.describe(vf::cat("msgpack unstable field count extraOnCall=", extraOn, " shape=", shape, " stream=", stream));
	Res r = call([&] {
		std::string out; std::ostringstream os;
		if (shape == 0) { Unstable u{ &calls, extraOn }; if (stream) SaveObject<MsgPackArchive>(u, os); else SaveObject<MsgPackArchive>(u, out); }
		else if (shape == 1) { std::vector<Unstable> v; for (int i = 0; i < 3; i++) v.push_back(Unstable{ &calls, extraOn }); if (stream) SaveObject<MsgPackArchive>(v, os); else SaveObject<MsgPackArchive>(v, out); }
		else { std::map<std::string, Unstable> m; m.emplace("k1", Unstable{ &calls, extraOn }); m.emplace("k2", Unstable{ &calls, extraOn }); if (stream) SaveObject<MsgPackArchive>(m, os); else SaveObject<MsgPackArchive>(m, out); }
	});
	if (r.k == Res::NonStd) c.fail("a failure reaches the caller as something that is not a std::exception", vf::cat("extraOnCall=", extraOn, " shape=", shape));
	c.label(r.k == Res::Ok ? "saved" : "rejected");
}
VF_PROPERTY(invalid_options, 1, "operations rejected for their options: CSV load / save (memory and stream) with a separator that is not allowed, XML / JSON pretty printing with extreme padding: the caller gets an exception (or a normal result), nothing leaks (LeakSanitizer at child exit); non-trivial = the option is rejected") {
	static const char seps[] = { ':', '#', '\0', '"', '\n', 'a', ',', ';' }; SerializationOptions o; o.valuesSeparator = seps[c.src.draw(8)]; const bool stream = c.src.coin(); const bool loading = c.src.coin();
	std::vector<Row> rows = gen_rows(c.src); std::string doc; { std::string tmp; SerializationOptions ok; SaveObject<CsvArchive>(rows, tmp, ok); doc = tmp; }
	c.describe(vf::cat("csv separator ", static_cast<int>(o.valuesSeparator), loading ? " load" : " save", " stream=", stream));
	Res r = call([&] { if (loading) { std::vector<Row> t; if (stream) { std::istringstream is(doc); LoadObject<CsvArchive>(t, is, o); } else LoadObject<CsvArchive>(t, doc, o); } else { if (stream) { std::ostringstream os; SaveObject<CsvArchive>(rows, os, o); } else { std::string out; SaveObject<CsvArchive>(rows, out, o); } } });
	c.nontrivial = r.k != Res::Ok; if (r.k == Res::NonStd) c.fail("a failure reaches the caller as something that is not a std::exception", vf::cat("separator ", static_cast<int>(o.valuesSeparator)));
	{ Cls v = gen_cls(c.src, XML); SerializationOptions f; f.formatOptions.enableFormat = true; f.formatOptions.paddingChar = c.src.coin() ? ' ' : '\t'; /* white space only: RapidJSON asserts on anything else (a precondition, not a runtime failure) */ f.formatOptions.paddingCharNum = static_cast<uint16_t>(c.src.coin() ? 1 + c.src.draw(3) : 60000 + c.src.draw(5000)); Res r2 = call([&] { std::string out; if (c.src.coin()) SaveObject<XmlArchive>(v, out, f); else SaveObject<JsonArchive>(v, out, f); }); if (r2.k == Res::NonStd) c.fail("a failure reaches the caller as something that is not a std::exception", "format options"); }
}
VF_PROPERTY(midsave_illformed_text_json, 1, "save of an object holding an ill-formed UTF-8 std::string under UtfEncodingErrorPolicy::ThrowError, to memory and to encoded streams: whatever the archive decides, it returns normally or throws a std::exception (no terminate / leak); non-trivial = always") { run_badtext<JsonArchive>(c, JSON); }
VF_PROPERTY(midsave_illformed_text_xml, 1, "same through XML") { run_badtext<XmlArchive>(c, XML); }
VF_PROPERTY(midsave_illformed_text_csv, 1, "same through CSV (second row)") { run_badtext<CsvArchive>(c, CSV); }
VF_PROPERTY(midsave_illformed_text_msgpack, 1, "same through MessagePack") { run_badtext<MsgPackArchive>(c, MSGPACK); }

VF_MAIN("c20_faults")
