// C09 — CSV written and read per RFC 4180 for any field content and separator.
// Oracle: ref_csv (independent strict RFC 4180 parser / free-choice writer) + ref_utf for encoded streams.
#include "common/arch.h"
#include "ref/ref_csv.h"
#include "ref/ref_utf.h"
#include "bitserializer/types/std/vector.h"
#include "bitserializer/types/std/map.h"
#include "bitserializer/types/std/chrono.h"

using namespace arch;
using refutf::Scalars;
using Table = std::vector<std::map<std::string, std::string>>;

namespace {
const char SEPS[] = { ',', ';', '\t', ' ', '|' };

std::string gen_cell(vf::Src& s, char sep, bool noNul) {
	switch (s.draw(10)) {
	case 0: return "";
	case 1: return std::to_string(s.integer<int64_t>());
	case 2: return s.coin() ? "true" : "false";
	case 3: return "2023-07-14T22:44:51.925Z";
	case 4: { char b[40]; snprintf(b, sizeof b, "%.17g", static_cast<double>(s.integer<int32_t>()) / 128.0); return b; }
	default: {
		Scalars t; size_t n = s.chance(1, 12) ? 200 + s.draw(400) : s.len(12);
		for (size_t i = 0; i < n; i++) {
			switch (s.draw(8)) {
			case 0: t.push_back(static_cast<char32_t>(static_cast<unsigned char>(sep))); break;
			case 1: t.push_back(U'"'); break;
			case 2: { static const char32_t m[] = { '\r', '\n', ' ', '\t', ',', ';', '|', '\'' }; t.push_back(m[s.draw(8)]); break; }
			case 3: { static const char32_t m[] = { 0xE9, 0x416, 0x20AC, 0x1F600, 0x10FFFF, 0xFFFD, 0x0, 0x1, 0x7F, 0xFEFF }; char32_t c = m[s.draw(10)]; if (c == 0 && noNul) c = U'0'; t.push_back(c); break; }
			default: t.push_back(static_cast<char32_t>(0x20 + s.draw(0x5f))); break;
			}
		}
		if (s.chance(1, 8)) { t.push_back('\r'); t.push_back('\n'); }
		return refutf::enc8(t);
	} }
}
std::string gen_header(vf::Src& s, size_t idx, char sep, bool noNul) {
	std::string h = s.chance(1, 5) ? gen_cell(s, sep, true) : std::string("col");
	for (auto& ch : h) if (ch == 0) ch = '0';
	if (noNul) h = "c" + h;     // a BOM-less stream must start with an ASCII character (soundness rule 1); note: a header cannot start with a quote then
	return h + std::to_string(idx);   // unique by construction
}
Cfg gen_csv_cfg(vf::Src& s) { Cfg c = gen_cfg(s, CSV); return c; }
bool cell_special(const std::string& v, char sep) { return refcsv::needs_quote(v, sep); }

// decode what the library wrote (encoding / BOM per configuration) to UTF-8 text
bool decode_output(const std::string& bytes, const Cfg& cfg, std::string& text, std::string& why) {
	if (!cfg.stream) { text = bytes; return true; }
	const int enc = static_cast<int>(cfg.opt.streamOptions.encoding); const std::string bom = refutf::bom_bytes(enc); std::string body = bytes;
	if (cfg.opt.streamOptions.writeBom) { if (bytes.compare(0, bom.size(), bom) != 0) { why = "BOM missing"; return false; } body = bytes.substr(bom.size()); }
	else if (enc != refutf::U8 ? false : bytes.compare(0, 3, "\xEF\xBB\xBF") == 0) { why = "unexpected BOM"; return false; }
	Scalars t;
	switch (enc) {
	case refutf::U8: if (!refutf::dec8(body, t)) { why = "ill-formed UTF-8"; return false; } break;
	case refutf::U16LE: case refutf::U16BE: { if (body.size() % 2) { why = "odd byte count"; return false; } std::u16string u; for (size_t i = 0; i < body.size(); i += 2) { unsigned a = static_cast<unsigned char>(body[i]), b = static_cast<unsigned char>(body[i + 1]); u.push_back(static_cast<char16_t>(enc == refutf::U16LE ? (a | (b << 8)) : ((a << 8) | b))); } if (!refutf::dec16(u, t)) { why = "ill-formed UTF-16"; return false; } break; }
	default: { if (body.size() % 4) { why = "byte count not a multiple of 4"; return false; } for (size_t i = 0; i < body.size(); i += 4) { uint32_t v = 0; for (int k = 0; k < 4; k++) { unsigned x = static_cast<unsigned char>(body[i + static_cast<size_t>(k)]); v |= enc == refutf::U32LE ? (x << (8 * k)) : (x << (8 * (3 - k))); } if (!refutf::is_scalar(v)) { why = "invalid UTF-32 unit"; return false; } t.push_back(v); } break; }
	}
	text = refutf::enc8(t); return true;
}
std::string encode_input(const std::string& utf8Text, const Cfg& cfg) {
	if (!cfg.stream) return utf8Text;
	Scalars t; refutf::dec8(utf8Text, t); const int enc = static_cast<int>(cfg.opt.streamOptions.encoding);
	return (cfg.opt.streamOptions.writeBom ? refutf::bom_bytes(enc) : std::string()) + refutf::enc_bytes(t, enc);
}

struct Typed { std::string s; int64_t n = 0; bool b = false; double d = 0; std::string t;
	template <class Ar> void Serialize(Ar& a) { a << KeyValue("d", d) << KeyValue("t", t) << KeyValue("s", s) << KeyValue("b", b) << KeyValue("n", n); } };   // request order differs from any column order
} // namespace

VF_PROPERTY(write_conforms, 5, "table of 1..8 columns x 1..12 rows of arbitrary Unicode strings (separators, quotes, CR, LF, CRLF, leading/trailing blanks, U+0000, long cells), numbers, booleans, ISO dates, empty cells x 5 separators x memory/stream x 5 encodings x BOM: the output (decoded per configuration) is parsed by the strict RFC 4180 reference parser into exactly header + original cells; non-trivial = a cell needs quoting or the configuration is not UTF-8 memory")
{
	Cfg cfg = gen_csv_cfg(c.src); const char sep = cfg.opt.valuesSeparator; const bool noNul = cfg.stream && !cfg.opt.streamOptions.writeBom;
	const size_t cols = 1 + c.src.draw(8), rows = 1 + c.src.len(11);
	std::vector<std::string> headers; for (size_t i = 0; i < cols; i++) headers.push_back(gen_header(c.src, i, sep, noNul));
	if (cols >= 2 && c.src.chance(1, 8)) { headers[c.src.draw(cols)] = ""; c.label("empty-column-name"); }   // a column may be named by the empty string (it sorts first)
	Table table(rows); bool special = false;
	for (auto& r : table) for (auto& h : headers) { r[h] = gen_cell(c.src, sep, noNul); special = special || cell_special(r[h], sep); }
	c.nontrivial = special || cfg.stream; c.describe(vf::cat("write cols=", cols, " rows=", rows, " ", cfg.str(), " cell00=", vf::hex(table[0].begin()->second.substr(0, 30))));
	if (special) c.label("needs-quoting");
	std::string bytes; Outcome so = save<CsvArchive>(table, bytes, cfg);
	if (!so.ok()) c.fail("saving a table failed", so.str());
	std::string text, why; if (!decode_output(bytes, cfg, text, why)) c.fail("output is not in the configured encoding", vf::cat(why, " ", cfg.str(), " ", vf::hex(bytes.substr(0, 80))));
	std::vector<refcsv::Row> parsed;
	try { parsed = refcsv::parse(text, sep); } catch (const refcsv::Malformed& e) { c.fail("output is not RFC 4180 conformant", vf::cat(e.what(), " sep=", static_cast<int>(sep), " text=", vf::hex(text.substr(0, 300)))); }
	// a single-column table whose cell is empty yields an empty line; the final line break is optional
	if (!parsed.empty() && parsed.back().size() == 1 && parsed.back()[0].empty() && parsed.size() == rows + 2) parsed.pop_back();
	const std::string d = vf::cat("sep=", static_cast<int>(sep), " ", cfg.str(), " text=", vf::hex(text.substr(0, 400)));
	if (parsed.size() != rows + 1) c.fail("an independent parser sees a different number of records", vf::cat(parsed.size(), " != ", rows + 1, " ", d));
	std::vector<std::string> sorted; for (auto& kv : table[0]) sorted.push_back(kv.first);
	if (parsed[0] != sorted) c.fail("header record is not the list of keys", d);
	for (size_t r = 0; r < rows; r++) { if (parsed[r + 1].size() != cols) c.fail("record has a different number of fields than the header", d); size_t k = 0; for (auto& kv : table[r]) { if (parsed[r + 1][k] != kv.second) c.fail("an independent parser recovers a different cell", vf::cat("row ", r, " col ", k, " got ", vf::hex(parsed[r + 1][k].substr(0, 60)), " want ", vf::hex(kv.second.substr(0, 60)), " ", d)); k++; } }
	// and the library reads its own output back (memory and the same stream configuration)
	Table back; Outcome lo = load<CsvArchive>(back, bytes, cfg);
	if (!lo.ok() || back != table) c.fail("the library cannot read back the table it wrote", vf::cat(lo.str(), " ", d));
}

VF_PROPERTY(read_conforming_renderings, 6, "the same kind of table rendered by the independent RFC 4180 writer with free choices (quote fields that do not need it, CRLF or LF, optional final line break, permuted column order) x separators x memory/stream x encodings x BOM: loaded by name into maps and into a typed struct whose request order differs from the column order; every column in which a quoted value can appear; non-trivial = a quoted cell in column >= 2, LF line ends, or a cell holding separator/quote/CR/LF")
{
	Cfg cfg = gen_csv_cfg(c.src); const char sep = cfg.opt.valuesSeparator; const bool noNul = cfg.stream && !cfg.opt.streamOptions.writeBom;
	const bool typed = c.src.coin(); const bool lf = c.src.coin(), finalBreak = c.src.coin();
	std::vector<std::string> headers; size_t rows = 1 + c.src.len(10);
	if (typed) headers = { "s", "n", "b", "d", "t" }; else { size_t cols = 1 + c.src.draw(8); for (size_t i = 0; i < cols; i++) headers.push_back(gen_header(c.src, i, sep, noNul)); if (cols >= 2 && c.src.chance(1, 8)) { headers[c.src.draw(cols)] = ""; c.label("empty-column-name"); } }
	// column order of the document
	std::vector<size_t> order(headers.size()); for (size_t i = 0; i < order.size(); i++) order[i] = i; for (size_t i = order.size(); i > 1; i--) std::swap(order[i - 1], order[c.src.draw(i)]);
	Table table(rows); std::vector<Typed> want(rows); bool special = false, quotedLate = false;
	std::string text; const std::string eol = lf ? "\n" : "\r\n";
	for (size_t k = 0; k < order.size(); k++) { if (k) text.push_back(sep); text += refcsv::field(headers[order[k]], sep, c.src.chance(1, 4)); }
	text += eol;
	for (size_t r = 0; r < rows; r++) {
		if (typed) { want[r].s = gen_cell(c.src, sep, noNul); want[r].t = gen_cell(c.src, sep, noNul); want[r].n = c.src.integer<int64_t>(); want[r].b = c.src.coin(); want[r].d = static_cast<double>(c.src.integer<int32_t>()) / 64.0;
			char b[40]; snprintf(b, sizeof b, "%.17g", want[r].d); table[r] = { { "s", want[r].s }, { "n", std::to_string(want[r].n) }, { "b", want[r].b ? "true" : "false" }, { "d", b }, { "t", want[r].t } }; }
		else for (auto& h : headers) table[r][h] = gen_cell(c.src, sep, noNul);
		for (size_t k = 0; k < order.size(); k++) { const std::string& v = table[r][headers[order[k]]]; const bool force = c.src.chance(1, 3); const bool q = force || refcsv::needs_quote(v, sep);
			if (q && k >= 1) quotedLate = true; if (refcsv::needs_quote(v, sep)) special = true; if (k) text.push_back(sep); text += refcsv::field(v, sep, force); }
		if (r + 1 < rows || finalBreak) text += eol;
	}
	// a lone empty line at the end would be one more (empty) record for a single-column table: keep the document unambiguous
	if (headers.size() == 1 && table[rows - 1][headers[0]].empty() && !finalBreak) text += eol;
	try { auto chk = refcsv::parse(text, sep, true); if (chk.size() != rows + 1) c.fail("harness: reference writer/parser disagree", vf::hex(text.substr(0, 200))); } catch (const refcsv::Malformed& e) { c.fail("harness: reference writer produced malformed CSV", e.what()); }
	const std::string bytes = encode_input(text, cfg);
	c.nontrivial = quotedLate || lf || special; if (quotedLate) c.label("quoted-cell-in-column>=2"); if (lf) c.label("LF-line-ends"); c.label(typed ? "typed-by-name" : "maps");
	c.describe(vf::cat("read ", typed ? "typed" : "maps", " cols=", headers.size(), " rows=", rows, " lf=", lf, " final=", finalBreak, " ", cfg.str(), " h=", vf::hash_bytes(bytes.data(), bytes.size())));
	const std::string d = vf::cat("sep=", static_cast<int>(sep), " lf=", lf, " final=", finalBreak, " ", cfg.str(), " text=", vf::hex(text.substr(0, 400)));
	if (typed) {
		std::vector<Typed> got; Outcome lo = load<CsvArchive>(got, bytes, cfg);
		if (!lo.ok()) c.fail("a conforming rendering of the table is rejected", vf::cat(lo.str(), " ", d));
		if (got.size() != rows) c.fail("number of rows differs", vf::cat(got.size(), " != ", rows, " ", d));
		for (size_t r = 0; r < rows; r++) if (got[r].s != want[r].s || got[r].t != want[r].t || got[r].n != want[r].n || got[r].b != want[r].b || got[r].d != want[r].d) c.fail("a conforming rendering loads to different values", vf::cat("row ", r, " s=", vf::hex(got[r].s.substr(0, 40)), " want ", vf::hex(want[r].s.substr(0, 40)), " ", d));
	}
	else {
		Table got; Outcome lo = load<CsvArchive>(got, bytes, cfg);
		if (!lo.ok()) c.fail("a conforming rendering of the table is rejected", vf::cat(lo.str(), " ", d));
		if (got != table) c.fail("a conforming rendering loads to different values", vf::cat("rows ", got.size(), " vs ", table.size(), " ", d));
	}
}

VF_PROPERTY(ragged_records_rejected, 2, "a conforming table in which one record has one field more or fewer than the header must be rejected with a ParsingError (memory and stream); non-trivial = the ragged record is not the last one")
{
	Cfg cfg; cfg.stream = c.src.coin(); cfg.opt.valuesSeparator = SEPS[c.src.draw(5)]; const char sep = cfg.opt.valuesSeparator;
	const size_t cols = 2 + c.src.draw(5), rows = 2 + c.src.draw(5), bad = c.src.draw(rows); const bool more = c.src.coin();
	std::string text; for (size_t k = 0; k < cols; k++) { if (k) text.push_back(sep); text += "h" + std::to_string(k); } text += "\r\n";
	for (size_t r = 0; r < rows; r++) { size_t n = r == bad ? (more ? cols + 1 : cols - 1) : cols; for (size_t k = 0; k < n; k++) { if (k) text.push_back(sep); const bool extraEmpty = r == bad && more && k + 1 == n && c.src.chance(1, 2); text += extraEmpty ? std::string() : refcsv::field(gen_cell(c.src, sep, true), sep, false); } text += c.src.chance(1, 4) ? "\n" : "\r\n"; }
	c.nontrivial = bad + 1 < rows; c.describe(vf::cat("ragged cols=", cols, " rows=", rows, " bad=", bad, " more=", more, " stream=", cfg.stream, " h=", vf::hash_bytes(text.data(), text.size())));
	Table got; Outcome lo = load<CsvArchive>(got, text, cfg);
	if (lo.ok()) c.fail("a record whose field count differs from the header was accepted", vf::cat("bad row ", bad, more ? " +1" : " -1", " text=", vf::hex(text.substr(0, 300))));
	if (lo.k != Outcome::SerEx || lo.code != SerializationErrorCode::ParsingError) c.fail("a ragged record is rejected with something else than a ParsingError", lo.str());
}

int main(int argc, char** argv) {
	if (const char* e = refcsv::selftest()) { fprintf(stderr, "ORACLE SELF-TEST FAILED: ref_csv %s\n", e); return 2; }
	if (const char* e = refutf::selftest()) { fprintf(stderr, "ORACLE SELF-TEST FAILED: ref_utf %s\n", e); return 2; }
	return vf::engine_main(argc, argv, "c09_csv");
}
