// Witnesses of the recorded findings that C01 / C08 / C09 / C18 exclude by construction.  Each property asserts only the recorded
// deviation (kind "KF-xx: ..."); any other behaviour on the same inputs is reported under a different kind, i.e. as a violation.
#include "common/models.h"

using namespace arch;
using namespace mdl;

namespace {
template <class T> struct Holder { int before = 7; T v{}; int after = 9; template <class Ar> void Serialize(Ar& a) { a << KeyValue("before", before) << KeyValue("v", v) << KeyValue("after", after); } };
template <class A, bool AsHolder, class T> void expect_roundtrip(vf::Ctx& c, const T& value, const Cfg& cfg, const char* kfKind) {
	std::string bytes; Outcome so;
	if constexpr (AsHolder) { Holder<T> h; h.v = value; so = save<A>(h, bytes, cfg); } else so = save<A>(value, bytes, cfg);
	if (!so.ok()) return;   // a loud save failure is an accepted outcome
	T loaded{}; Outcome lo; if constexpr (AsHolder) { Holder<T> l; lo = load<A>(l, bytes, cfg); loaded = l.v; } else lo = load<A>(loaded, bytes, cfg);
	if (!lo.ok() || !mdl::eq(loaded, value)) c.fail(kfKind, vf::cat(mdl::show(value), " doc=", bytes.substr(0, 200), " => ", lo.str(), lo.ok() ? " loaded " + mdl::show(loaded) : ""));
}
}

VF_PROPERTY(kf12_xml_empty_container, 1, "witness of KF-12") {
	Cfg cfg; c.nontrivial = true; c.describe(vf::cat("kf12 ", c.src.draw(4)));
	switch (c.src.recorded().back()) {
	case 0: expect_roundtrip<XmlArchive, true>(c, std::vector<int>{}, cfg, "KF-12: XML: an empty container / null saved as a child-less element cannot be loaded back"); break;
	case 1: expect_roundtrip<XmlArchive, true>(c, std::map<std::string, int>{}, cfg, "KF-12: XML: an empty container / null saved as a child-less element cannot be loaded back"); break;
	case 2: expect_roundtrip<XmlArchive, true>(c, std::optional<Pt>{}, cfg, "KF-12: XML: an empty container / null saved as a child-less element cannot be loaded back"); break;
	default: expect_roundtrip<XmlArchive, true>(c, std::vector<std::vector<int>>{ {}, { 1 } }, cfg, "KF-12: XML: an empty container / null saved as a child-less element cannot be loaded back"); break;
	}
}
VF_PROPERTY(kf13_xml_blank_text, 1, "witness of KF-13") {
	Cfg cfg; c.nontrivial = true; static const char* texts[] = { "", " ", "  \t ", "a\rb", "\n", "\r" }; const std::string t = texts[c.src.draw(6)]; c.describe("kf13 " + vf::hex(t));
	// a pre-populated target makes "not loaded" visible
	Holder<std::string> h; h.v = t; std::string bytes; if (!save<XmlArchive>(h, bytes, cfg).ok()) return;
	Holder<std::string> l; l.v = "stale"; Outcome lo = load<XmlArchive>(l, bytes, cfg);
	if (!lo.ok() || l.v != t) c.fail("KF-13: XML: empty / whitespace-only text is not loaded and CR is not preserved", vf::cat(vf::hex(t), " doc=", bytes, " => ", lo.str(), " loaded ", vf::hex(l.v)));
}
VF_PROPERTY(kf14_csv_empty_table, 1, "witness of KF-14") {
	Cfg cfg; cfg.stream = c.src.coin(); c.nontrivial = true; c.describe(vf::cat("kf14 stream=", cfg.stream));
	std::vector<Pt> rows; std::string bytes; if (!save<CsvArchive>(rows, bytes, cfg).ok()) return;
	std::vector<Pt> l(2); Outcome lo = load<CsvArchive>(l, bytes, cfg);
	if (!lo.ok() || !l.empty()) c.fail("KF-14: CSV: an empty array is saved as an empty document (no header) that cannot be loaded", vf::cat("doc=", vf::hex(bytes), " => ", lo.str(), " rows=", l.size()));
}
VF_PROPERTY(kf34_json_short_bomless, 1, "witness of KF-34") {
	Cfg cfg; cfg.stream = true; cfg.opt.streamOptions.writeBom = false; cfg.opt.streamOptions.encoding = static_cast<Convert::Utf::UtfType>(1 + c.src.draw(4)); c.nontrivial = true;
	const int v = static_cast<int>(c.src.draw(10)); c.describe(vf::cat("kf34 enc=", static_cast<int>(cfg.opt.streamOptions.encoding), " v=", v));
	expect_roundtrip<JsonArchive, false>(c, v, cfg, "KF-34: JSON: a BOM-less UTF-16/32 stream holding a one-digit root scalar is not detected ('The document is empty')");
}
VF_PROPERTY(kf44_xml_non_name_keys, 1, "witness of KF-44") {
	Cfg cfg; c.nontrivial = true; c.describe(vf::cat("kf44 ", c.src.draw(3)));
	const char* kind = "KF-44: XML: map keys that are not XML Names (numbers, dates, text with spaces) produce an ill-formed document silently";
	switch (c.src.recorded().back()) {
	case 0: expect_roundtrip<XmlArchive, true>(c, std::map<int, int>{ { -7, 1 }, { 5, 2 } }, cfg, kind); break;
	case 1: expect_roundtrip<XmlArchive, true>(c, std::map<double, int>{ { 1.5, 1 } }, cfg, kind); break;
	default: expect_roundtrip<XmlArchive, true>(c, std::map<std::string, int>{ { "two words", 1 } }, cfg, kind); break;
	}
}

VF_MAIN("c01_kf")
