// C15 — ISO-8601 parsing either yields the denoted value or throws; it never wraps.
// Oracle: grammar-level reference in __int128 (ref_calendar): the text is generated from fields, so the denoted value is
// known by construction; the library's result must be that value (fraction rounded to the target unit, either neighbour on
// exact ties), out_of_range when it does not fit / is not exact, invalid_argument for the documented rejection classes.
#include "engine.h"
#include "ref/ref_calendar.h"
#include "ref/ref_utf.h"
#include "bitserializer/convert.h"
#include <chrono>

using namespace BitSerializer;
using namespace std::chrono;
using refcal::i128;

namespace {

// expectation: which outcomes are acceptable; an accepted value must lie in [lo, hi]
struct Expect {
	bool v = false, inv = false, rng = false; i128 lo = 0, hi = 0;
	static Expect Invalid() { Expect x; x.inv = true; return x; }
	static Expect Range() { Expect x; x.rng = true; return x; }
	static Expect InvalidOrRange() { Expect x; x.inv = x.rng = true; return x; }
	bool onlyValue() const { return v && !inv && !rng; }
	std::string str() const { return std::string(v ? "V" : "") + (inv ? "I" : "") + (rng ? "R" : ""); }
};
enum Got { GValue, GInvalid, GRange, GOther };

template <class Str> std::basic_string<char16_t> to16(const Str& s) { std::basic_string<char16_t> r; for (unsigned char c : s) r.push_back(c); return r; }
template <class Str> std::basic_string<char32_t> to32(const Str& s) { std::basic_string<char32_t> r; for (unsigned char c : s) r.push_back(c); return r; }

template <class T, class S> Got parse_any(const S& text, T& out, std::string& what) {
	try { out = Convert::To<T>(text); return GValue; }
	catch (const std::out_of_range& e) { what = e.what(); return GRange; }
	catch (const std::invalid_argument& e) { what = e.what(); return GInvalid; }
	catch (const std::exception& e) { what = e.what(); return GOther; }
}

template <class D> std::string dname() {
	const char* p = D::period::den == 1000000000 ? "ns" : D::period::den == 1000000 ? "us" : D::period::den == 1000 ? "ms" : D::period::num == 1 ? "s" : D::period::num == 60 ? "min" : D::period::num == 3600 ? "h" : "days";
	return vf::cat(p, std::is_signed_v<typename D::rep> ? "/i" : "/u", sizeof(typename D::rep) * 8);
}

// judge a library outcome against the expectation
const char* judge(const Expect& x, Got g, i128 got) {
	if (g == GOther) return "exception of another class";
	if (g == GValue) {
		if (!x.v) return x.rng && !x.inv ? "value that does not fit or is not exact was accepted (WRAP?)" : "text outside the documented grammar/ranges accepted";
		if (got < x.lo || got > x.hi) return (got - x.hi <= 1 && x.lo - got <= 1) ? "result off by one tick (rounding)" : "WRONG VALUE (wrapped or truncated)";
		return nullptr;
	}
	if (g == GInvalid) { if (!x.inv) return x.v ? "invalid_argument for valid text" : "invalid_argument where out_of_range is required"; return nullptr; }
	if (!x.rng) return x.v ? "out_of_range for a representable value" : "out_of_range where invalid_argument is required";
	return nullptr;
}

// ---------------------------------------------------------------------------------------------------------------
// date-time
// ---------------------------------------------------------------------------------------------------------------
struct DtFields { i128 y = 1970; std::string ysign; int ydigits = 4; long mo = 1, d = 1, h = 0, mi = 0, s = 0; int w = 2; std::string frac; char fracSep = '.'; bool z = true; std::string tail; char dateSep = '-', tSep = 'T', timeSep = ':'; };
std::string render(const DtFields& f) {
	std::string ys = refcal::i128s(f.y); while (static_cast<int>(ys.size()) < f.ydigits) ys.insert(ys.begin(), '0');
	char b[160]; snprintf(b, sizeof b, "%c%0*ld%c%0*ld%c%0*ld%c%0*ld%c%0*ld", f.dateSep, f.w, f.mo, f.dateSep, f.w, f.d, f.tSep, f.w, f.h, f.timeSep, f.w, f.mi, f.timeSep, f.w, f.s);
	std::string o = f.ysign + ys + b; if (!f.frac.empty()) { o.push_back(f.fracSep); o += f.frac; } if (f.z) o += "Z"; return o + f.tail;
}
// what the text denotes for a target with period num/den and representation range [lo, hi]
Expect dt_reference(const DtFields& f, i128 num, i128 den, i128 lo, i128 hi) {
	const bool fieldTooBig = f.mo > 2000000000L || f.d > 2000000000L || f.h > 2000000000L || f.mi > 2000000000L || f.s > 2000000000L;
	if (f.ysign.size() > 1 || (f.ysign.size() == 1 && f.ysign != "+" && f.ysign != "-")) return Expect::Invalid();
	if (f.dateSep != '-' || f.tSep != 'T' || f.timeSep != ':') return Expect::InvalidOrRange();
	const bool yearTooBig = f.y > static_cast<i128>(INT64_MAX);
	if (!f.z) return (yearTooBig || fieldTooBig) ? Expect::InvalidOrRange() : Expect::Invalid();
	if (!f.tail.empty()) {   // text after the 'Z' is not one of the documented rejection classes: rejecting it or ignoring it are both accepted,
		DtFields g = f; g.tail.clear(); Expect b = dt_reference(g, num, den, lo, hi); b.inv = true; return b;   // but an accepted value must be the denoted one
	}
	if (fieldTooBig || yearTooBig) return Expect::InvalidOrRange();
	const i128 y = f.ysign == "-" ? -f.y : f.y;
	if (f.mo < 1 || f.mo > 12 || f.d < 1 || f.d > refcal::dim(y, static_cast<int>(f.mo)) || f.h > 23 || f.mi > 59 || f.s > 59) return Expect::Invalid();
	if (f.frac.size() > 9) return f.frac.size() > 10 || f.frac > "4294967295" ? Expect::InvalidOrRange() : Expect::Invalid();
	i128 ns = 0; if (!f.frac.empty()) { std::string p = f.frac; while (p.size() < 9) p.push_back('0'); for (char c : p) ns = ns * 10 + (c - '0'); }
	const i128 secs = refcal::days_from_civil(y, static_cast<int>(f.mo), static_cast<int>(f.d)) * 86400 + f.h * 3600 + f.mi * 60 + f.s;
	Expect x;
	if (den == 1) {   // target unit >= 1 second: whole seconds must divide exactly; the fraction is rounded to the unit on its own
		if (refcal::fmod_(secs, num) != 0) return Expect::Range();
		x.lo = x.hi = refcal::fdiv(secs, num);
		if (num == 1) { if (2 * ns > 1000000000) x.lo = x.hi = x.lo + 1; else if (2 * ns == 1000000000) x.hi = x.lo + 1; }
	}
	else {
		const i128 unitNs = 1000000000 / den; const i128 total = secs * 1000000000 + ns;
		const i128 q = refcal::fdiv(total, unitNs), r = total - q * unitNs;
		x.lo = x.hi = q; if (2 * r > unitNs) x.lo = x.hi = q + 1; else if (2 * r == unitNs) x.hi = q + 1;
	}
	if (x.hi < lo || x.lo > hi) return Expect::Range();
	x.v = true;
	if (x.lo < lo) { x.lo = lo; x.rng = true; } if (x.hi > hi) { x.hi = hi; x.rng = true; }   // a tie whose other neighbour does not fit
	return x;
}

DtFields gen_dt(vf::Src& s) {
	DtFields f;
	switch (s.draw(8)) {
	case 0: { static const long long ys[] = { 0, 1, 4, 100, 400, 1600, 1677, 1678, 1900, 1901, 1969, 1970, 1971, 2000, 2023, 2024, 2038, 2039, 2100, 2262, 2263, 9999 }; f.y = ys[s.draw(22)]; break; }
	case 1: { static const long long ys[] = { 10000, 12376, 99999, 292277026596LL, 292277026597LL, 292278994, 292278995, 5879610, 5879611, 5881580, 294247, 294248, 4083, 6053, 6054 }; f.y = ys[s.draw(15)]; f.ysign = "+"; break; }
	case 2: { static const long long ys[] = { 1, 4, 100, 1241, 9999, 10000, 292277022657LL, 292277022658LL, 292275055, 292275056, 5877641, 5877642, 290308, 290309, 2114, 2115 }; f.y = ys[s.draw(16)]; f.ysign = "-"; break; }
	case 3: f.y = static_cast<i128>(s.draw(3000)); break;
	case 4: if (s.chance(1, 3)) {   // within 0.2 % of the range end of the coarse 64-bit targets (days, hours, minutes): an overflow pre-check that is slightly too loose only shows here
			static const long long ends[] = { 25252734927764585LL, 1052197288656857LL, 17536621477614LL }; const long long e = ends[s.draw(3)]; const long long off = static_cast<long long>(s.draw(static_cast<uint64_t>(e / 500)));
			f.y = s.chance(1, 4) ? e - off : e + off; f.ysign = s.coin() ? "+" : "-"; break; }
		f.y = static_cast<i128>(s.draw(400000000000ULL)); f.ysign = s.coin() ? "+" : "-"; break;
	case 5: f.y = 1900 + static_cast<i128>(s.draw(400)); { static const char* sg[] = { "", "+-", "-+", "--", "++", " ", "+ " }; f.ysign = sg[s.draw(7)]; } break;
	case 6: if (s.chance(1, 4)) { const i128 lim = static_cast<i128>(1) << 63; static const long off[] = { 0, 1, 2, 398, 399, 400, 401, 1000 }; f.y = lim - off[s.draw(8)] + (s.chance(1, 8) ? 1 : 0); f.ysign = s.chance(3, 4) ? "-" : "+"; break; }   // the ends of the 64-bit year range (KF-62)
		{ f.y = static_cast<i128>(s.draw(0)); if (s.coin()) f.y = f.y * 1000 + 7; f.ysign = s.coin() ? "+" : "-"; break; }   // up to and beyond 2^64
	default: f.y = 1600 + static_cast<i128>(s.draw(800)); break;
	}
	f.ydigits = s.chance(1, 10) ? 1 + static_cast<int>(s.draw(6)) : 4;
	auto pick = [&](std::initializer_list<long> v) { auto it = v.begin(); std::advance(it, static_cast<long>(s.draw(v.size()))); return *it; };
	f.mo = s.chance(1, 6) ? pick({ 0, 13, 99, 4294967297L }) : 1 + static_cast<long>(s.draw(12));
	f.d = s.chance(1, 4) ? pick({ 0, 28, 29, 30, 31, 32, 99 }) : 1 + static_cast<long>(s.draw(28));
	if (s.chance(1, 6)) {   // leap-year rule: every residue class of the year mod 400 that matters (century years 100 k, multiples of 4, others) with Feb 28 / 29 / 30
		switch (s.draw(4)) { case 0: f.y = 100 * static_cast<i128>(s.draw(130)); break; case 1: f.y = 4 * static_cast<i128>(s.draw(2600)); break; case 2: f.y = static_cast<i128>(s.draw(10000)); break; default: f.y = 100 * static_cast<i128>(s.draw(1000000)); f.ysign = s.coin() ? "+" : "-"; if (f.y == 0) f.ysign = ""; }
		f.mo = 2; f.d = pick({ 28, 29, 29, 29, 30 }); if (f.ysign.empty() || f.y <= 9999) f.ydigits = 4;
	}
	f.h = s.chance(1, 8) ? pick({ 23, 24, 25, 99 }) : static_cast<long>(s.draw(24));
	f.mi = s.chance(1, 8) ? pick({ 59, 60, 99 }) : static_cast<long>(s.draw(60));
	f.s = s.chance(1, 8) ? pick({ 59, 60, 61, 4294967296L }) : static_cast<long>(s.draw(60));
	f.w = s.chance(1, 10) ? 1 : 2;
	switch (s.draw(7)) {
	case 1: { size_t n = 1 + s.draw(9); for (size_t i = 0; i < n; i++) f.frac.push_back(static_cast<char>('0' + s.draw(10))); break; }
	case 2: f.frac = s.coin() ? "999999999" : "5"; break;
	case 3: f.frac = s.coin() ? "4999999995" : "0000000001"; break;
	case 4: { static const char* fr[] = { "9995", "0005", "4995", "5", "50", "500", "4999", "5001", "9999995", "0000005", "999", "001" }; f.frac = fr[s.draw(12)]; break; }
	default: break;
	}
	f.fracSep = s.coin() ? '.' : ',';
	f.z = !s.chance(1, 15);
	if (s.chance(1, 20)) { static const char* t[] = { " ", "x", "+00:00", "Z", ".5" }; f.tail = t[s.draw(5)]; }
	if (!f.z && !f.tail.empty() && f.tail[0] == 'Z') { f.z = true; f.tail.erase(0, 1); }
	if (s.chance(1, 25)) { f.dateSep = "/.:"[s.draw(3)]; } if (s.chance(1, 25)) f.tSep = " t_"[s.draw(3)]; if (s.chance(1, 25)) f.timeSep = "-. "[s.draw(3)];
	return f;
}
bool dt_nontrivial(const DtFields& f, const Expect& x, i128 lo, i128 hi) {
	if (!x.onlyValue()) return true;
	return x.lo - lo < 2 || hi - x.hi < 2 || !f.frac.empty() || f.y >= 10000 || f.ysign == "-";
}

template <class TP> void check_dt(vf::Ctx& c, const DtFields& f, const std::string& text, bool& ntOut, bool countNt = false) {
	bool ntLocal = false; bool& nt = countNt ? ntOut : ntLocal;
	using D = typename TP::duration; using R = typename D::rep;
	const i128 lo = std::numeric_limits<R>::min(), hi = std::numeric_limits<R>::max();
	const Expect x = dt_reference(f, D::period::num, D::period::den, lo, hi);
	nt = nt || dt_nontrivial(f, x, lo, hi);
	TP out{}; std::string what; const Got g = parse_any<TP>(text, out, what); const i128 got = g == GValue ? static_cast<i128>(out.time_since_epoch().count()) : 0;
	// recorded finding KF-27: an instant within the first day of the target's range is rejected with out_of_range
	const i128 ticksPerDay = static_cast<i128>(86400) * D::period::den / D::period::num;
	if (x.v && g == GRange && x.lo - lo < (ticksPerDay > 0 ? ticksPerDay : 1)) { c.label("excluded:KF-27-first-day-of-range"); return; }
	if (const char* e = judge(x, g, got)) c.fail(e, vf::cat("tp<", dname<D>(), "> '", text, "' -> ", g == GValue ? refcal::i128s(got) : what, " expected ", x.str(), " [", refcal::i128s(x.lo), ",", refcal::i128s(x.hi), "]"));
	// identical in other string widths
	TP o2{}; std::string w2; Got g2 = parse_any<TP>(to16(text), o2, w2); if (g2 != g || (g == GValue && o2 != out)) c.fail("string widths disagree", vf::cat("tp<", dname<D>(), "> '", text, "' char16_t"));
}

// ---------------------------------------------------------------------------------------------------------------
// durations
// ---------------------------------------------------------------------------------------------------------------
struct DurPart { i128 v; char unit; std::string frac; };
struct DurFields { std::string sign; std::vector<DurPart> date, time; bool hasT = false; std::string tail; char fracSep = '.'; bool noP = false; };
std::string render(const DurFields& f) {
	std::string o = f.sign; if (!f.noP) o += "P";
	for (auto& p : f.date) { o += refcal::i128s(p.v); if (!p.frac.empty()) { o.push_back(f.fracSep); o += p.frac; } o.push_back(p.unit); }
	if (f.hasT) o += "T";
	for (auto& p : f.time) { o += refcal::i128s(p.v); if (!p.frac.empty()) { o.push_back(f.fracSep); o += p.frac; } if (p.unit) o.push_back(p.unit); }
	return o + f.tail;
}
Expect dur_reference(const DurFields& f, i128 num, i128 den, i128 lo, i128 hi, bool isSigned) {
	const std::string text = render(f);
	const bool neg = f.sign == "-";
	bool bad = f.noP || f.sign.size() > 1 || text.size() < 3 || (f.date.empty() && f.time.empty()) || (f.hasT && f.time.empty()) || (!f.hasT && !f.time.empty());
	bool eitherBad = !f.tail.empty() && !(f.tail[0] == ' ' || f.tail[0] == '\t' || f.tail[0] == '\n');   // ungrammatical in a way whose classification is open
	bool range = neg && !isSigned;
	i128 accLo = 0, accHi = 0;
	auto add = [&](i128 a, i128 b) { accLo += a; accHi += b; if (accHi < lo || accLo > hi) range = true; };
	auto part = [&](const DurPart& p, bool datePart) {
		i128 unitSec;
		if (p.v > static_cast<i128>(UINT64_MAX) || (neg && p.v > (static_cast<i128>(1) << 63))) range = true;   // reported before the unit is looked at
		// a part with a wrong or missing designator makes the text ungrammatical; the parser may nevertheless have accumulated the number (and its
		// fraction) before it looks for the designator, so an overflow caused by that part may be what gets reported: evaluate it as seconds / days too
		bool wrongUnit = false;
		if (datePart) { if (p.unit == 'W') unitSec = 604800; else if (p.unit == 'D') unitSec = 86400; else { bad = true; wrongUnit = true; unitSec = 86400; } }
		else { if (p.unit == 'H') unitSec = 3600; else if (p.unit == 'M') unitSec = 60; else if (p.unit == 'S') unitSec = 1; else { bad = true; wrongUnit = true; unitSec = 1; } }
		if (!p.frac.empty()) {
			if ((p.unit != 'S' && !wrongUnit) || p.frac.size() > 9) { bad = true; if (p.frac.size() > 9) eitherBad = true; return; }
			i128 ns = 0; std::string q = p.frac; while (q.size() < 9) q.push_back('0'); for (char ch : q) ns = ns * 10 + (ch - '0');
			if (neg) ns = -ns;
			// the fraction is rounded to the target unit on its own (nearest; either neighbour on a tie)
			const i128 unitNs = num * 1000000000 / den; const i128 fq = refcal::fdiv(ns, unitNs), fr = ns - fq * unitNs;
			if (2 * fr > unitNs) add(fq + 1, fq + 1); else if (2 * fr == unitNs) add(fq, fq + 1); else add(fq, fq);
		}
		if (range) return;
		const i128 secs = (neg ? -p.v : p.v) * unitSec;   // exact in i128
		const i128 scaled = secs * den;
		if (refcal::fmod_(scaled, num) != 0) { range = true; return; }   // whole part must convert exactly
		const i128 ticks = scaled / num;
		if (ticks < lo || ticks > hi) { range = true; return; }
		add(ticks, ticks);
	};
	for (auto& p : f.date) part(p, true);
	for (auto& p : f.time) part(p, false);
	if (bad || eitherBad) { Expect x = Expect::Invalid(); if (range || eitherBad) x.rng = true; return x; }
	if (range) return Expect::Range();
	Expect x; x.v = true; x.lo = accLo; x.hi = accHi;
	if (x.lo < lo) { x.lo = lo; x.rng = true; } if (x.hi > hi) { x.hi = hi; x.rng = true; }
	return x;
}
DurFields gen_dur(vf::Src& s) {
	DurFields f; static const char* sg[] = { "", "", "", "-", "-", "+", "+-", "--" }; f.sign = sg[s.draw(8)];
	auto val = [&]() -> i128 {
		switch (s.draw(7)) { case 0: return static_cast<i128>(s.draw(100)); case 1: return static_cast<i128>(s.draw(100000)); case 2: return static_cast<i128>(s.draw(0));
		case 3: { static const uint64_t k[] = { 9223372036854775807ULL, 9223372036854775808ULL, 9223372036854775809ULL, 18446744073709551615ULL, 2147483647ULL, 2147483648ULL, 4294967295ULL, 4294967296ULL, 127, 128, 255, 256, 106751, 106752, 2562047, 2562048, 153722867, 153722868, 9223372036ULL, 9223372037ULL, 15250284452ULL, 213503982334601ULL, 213503982334602ULL }; return static_cast<i128>(k[s.draw(23)]); }
		case 4: return static_cast<i128>(UINT64_MAX) + 1 + static_cast<i128>(s.draw(1000));
		case 5: return static_cast<i128>(s.draw(0)) * 3;
		default: return static_cast<i128>(s.draw(60)); } };
	auto frac = [&]() -> std::string { if (!s.chance(1, 3)) return ""; std::string r; size_t n = 1 + s.draw(s.chance(1, 8) ? 11 : 9); for (size_t i = 0; i < n; i++) r.push_back(static_cast<char>('0' + s.draw(10))); if (s.chance(1, 4)) r = s.coin() ? "5" : "999999999"; return r; };
	const bool canonical = !s.chance(1, 5);
	if (canonical) {
		if (s.chance(1, 4)) f.date.push_back({ val(), 'W', "" });
		if (s.coin()) f.date.push_back({ val(), 'D', "" });
		if (s.chance(3, 4)) { f.hasT = true; if (s.coin()) f.time.push_back({ val(), 'H', "" }); if (s.coin()) f.time.push_back({ val(), 'M', "" }); if (s.coin() || f.time.empty()) f.time.push_back({ val(), 'S', frac() }); }
		if (f.date.empty() && f.time.empty()) f.date.push_back({ val(), 'D', "" });
	}
	else {
		size_t nd = s.draw(3), nt = s.draw(4); static const char du[] = { 'W', 'D', 'Y', 'M', 'H', 'S', 'X' }; static const char tu[] = { 'H', 'M', 'S', 'D', 'W', 'Y', 'x', 0 };
		for (size_t i = 0; i < nd; i++) f.date.push_back({ val(), du[s.draw(7)], s.chance(1, 6) ? frac() : "" });
		f.hasT = nt > 0 || s.chance(1, 4);
		for (size_t i = 0; i < nt; i++) { char u = tu[s.draw(8)]; if (u == 0 && i + 1 < nt) u = 'S'; f.time.push_back({ val(), u, frac() }); }
		f.noP = s.chance(1, 12);
	}
	f.fracSep = s.coin() ? '.' : ',';
	if (s.chance(1, 12)) { static const char* t[] = { " ", " xyz", "x", "/2003-02-15T00:00:00Z", "\t1", "T" }; f.tail = t[s.draw(6)]; }
	return f;
}
template <class D> void check_dur(vf::Ctx& c, const DurFields& f, const std::string& text, bool& ntOut, bool countNt = false) {
	bool ntLocal = false; bool& nt = countNt ? ntOut : ntLocal;
	using R = typename D::rep; const i128 lo = std::numeric_limits<R>::min(), hi = std::numeric_limits<R>::max();
	const Expect x = dur_reference(f, D::period::num, D::period::den, lo, hi, std::is_signed_v<R>);
	nt = nt || !x.onlyValue() || x.lo - lo < 2 || hi - x.hi < 2 || x.lo != x.hi || f.sign == "-";
	D out{}; std::string what; const Got g = parse_any<D>(text, out, what); const i128 got = g == GValue ? static_cast<i128>(out.count()) : 0;
	if (const char* e = judge(x, g, got)) c.fail(e, vf::cat("duration<", dname<D>(), "> '", text, "' -> ", g == GValue ? refcal::i128s(got) : what, " expected ", x.str(), " [", refcal::i128s(x.lo), ",", refcal::i128s(x.hi), "]"));
	D o2{}; std::string w2; Got g2 = parse_any<D>(to32(text), o2, w2); if (g2 != g || (g == GValue && o2 != out)) c.fail("string widths disagree", vf::cat("duration<", dname<D>(), "> '", text, "' char32_t"));
}

template <class R, class P> using tp_of = time_point<system_clock, duration<R, P>>;
using P_ns = std::nano; using P_us = std::micro; using P_ms = std::milli; using P_s = std::ratio<1>; using P_min = std::ratio<60>; using P_h = std::ratio<3600>; using P_d = std::ratio<86400>;

} // namespace

VF_PROPERTY(datetime_grammar, 6, "date-time strings rendered from fields: year classes (boundary years of every target range, up to and beyond 2^64, 1..6 digits, every sign spelling), month/day/hour/minute/second at, below and above range (Feb 28..31 by leap rule), fractions of 1..11 digits incl. exact ties and 999999999, '.' or ',', missing Z, trailing text, wrong separators; targets time_point over ns,us,ms,s,min,h,days with int64/int32/int8 representations, time_t (CRawTime) and tm; non-trivial = rejection class, fraction, year outside 0000-9999, or within 2 ticks of a target limit")
{
	const DtFields f = gen_dt(c.src); const std::string text = render(f); bool nt = false;
	c.describe(text);
	check_dt<tp_of<int64_t, P_ns>>(c, f, text, nt); check_dt<tp_of<int64_t, P_us>>(c, f, text, nt); check_dt<tp_of<int64_t, P_ms>>(c, f, text, nt); check_dt<tp_of<int64_t, P_s>>(c, f, text, nt, true);
	check_dt<tp_of<int64_t, P_min>>(c, f, text, nt); check_dt<tp_of<int64_t, P_h>>(c, f, text, nt); check_dt<tp_of<int64_t, P_d>>(c, f, text, nt);
	check_dt<tp_of<int32_t, P_s>>(c, f, text, nt); check_dt<tp_of<int32_t, P_min>>(c, f, text, nt); check_dt<tp_of<int32_t, P_d>>(c, f, text, nt); check_dt<tp_of<int8_t, P_h>>(c, f, text, nt); check_dt<tp_of<int32_t, P_ms>>(c, f, text, nt);
	// time_t
	{ const Expect x = dt_reference(f, 1, 1, std::numeric_limits<time_t>::min(), std::numeric_limits<time_t>::max()); CRawTime rt; std::string what; Got g = parse_any<CRawTime>(text, rt, what);
	  const bool kf27 = x.v && g == GRange && x.lo - static_cast<i128>(std::numeric_limits<time_t>::min()) < 86400;
	  if (kf27) c.label("excluded:KF-27-first-day-of-range");
	  else if (const char* e = judge(x, g, g == GValue ? static_cast<i128>(rt.Time) : 0)) c.fail(e, vf::cat("CRawTime '", text, "' -> ", g == GValue ? refcal::i128s(rt.Time) : what)); }
	// tm: fields as written
	{ tm t{}; std::string what; Got g = parse_any<tm>(text, t, what); const Expect x = dt_reference(f, 86400, 1, -(static_cast<i128>(1) << 100), static_cast<i128>(1) << 100);
	  const i128 y = f.ysign == "-" ? -f.y : f.y; const bool yFits = y >= INT32_MIN && y <= INT32_MAX; const bool wellFormed = x.v || (x.rng && !x.inv);
	  if (!wellFormed && !x.rng && g == GValue) c.fail("text outside the documented grammar/ranges accepted", vf::cat("tm '", text, "'"));
	  if (wellFormed && yFits && g == GValue && (t.tm_year != static_cast<int>(y) || t.tm_mon != f.mo || t.tm_mday != f.d || t.tm_hour != f.h || t.tm_min != f.mi || t.tm_sec != f.s)) c.fail("WRONG VALUE (wrapped or truncated)", vf::cat("tm '", text, "'"));
	  if (wellFormed && !x.inv && yFits && g != GValue) c.fail("invalid_argument for valid text", vf::cat("tm '", text, "' ", what));
	  if (wellFormed && !yFits && g == GValue) c.fail("value that does not fit or is not exact was accepted (WRAP?)", vf::cat("tm '", text, "' year ", t.tm_year)); }
	c.nontrivial = nt;
}

VF_PROPERTY(duration_grammar, 6, "duration strings rendered from parts: [+-]PnWnDTnHnMnS in canonical and shuffled/repeated order, magnitudes at every target limit and up to and beyond 2^64, fractions of 1..11 digits on any part, ',' or '.', Y/M in the date part, missing P/T, trailing blanks/text; targets duration over ns..days with int64/int32/uint64/int8 representations; non-trivial = rejection class, fraction tie, negative, or within 2 ticks of a limit")
{
	const DurFields f = gen_dur(c.src); const std::string text = render(f); bool nt = false;
	c.describe(text);
	check_dur<duration<int64_t, P_ns>>(c, f, text, nt); check_dur<duration<int64_t, P_us>>(c, f, text, nt); check_dur<duration<int64_t, P_ms>>(c, f, text, nt); check_dur<duration<int64_t, P_s>>(c, f, text, nt, true);
	check_dur<duration<int64_t, P_min>>(c, f, text, nt); check_dur<duration<int64_t, P_h>>(c, f, text, nt); check_dur<duration<int64_t, P_d>>(c, f, text, nt);
	check_dur<duration<int32_t, P_s>>(c, f, text, nt); check_dur<duration<int32_t, P_ms>>(c, f, text, nt); check_dur<duration<int32_t, P_h>>(c, f, text, nt);
	check_dur<duration<uint64_t, P_s>>(c, f, text, nt); check_dur<duration<uint64_t, P_ms>>(c, f, text, nt); check_dur<duration<uint64_t, P_d>>(c, f, text, nt); check_dur<duration<int8_t, P_min>>(c, f, text, nt);
	c.nontrivial = nt;
}

VF_PROPERTY(garbage_strings, 2, "mutated valid texts (byte substitution, deletion, duplication, truncation) and arbitrary short byte strings into time_point/duration/CRawTime/tm: must return or throw invalid_argument/out_of_range only; the same text in char16_t gives the same outcome; non-trivial = every case")
{
	std::string text = c.src.coin() ? render(gen_dt(c.src)) : render(gen_dur(c.src));
	size_t muts = 1 + c.src.draw(3);
	for (size_t i = 0; i < muts && !text.empty(); i++) {
		size_t p = c.src.draw(text.size());
		switch (c.src.draw(5)) { case 0: text[p] = static_cast<char>(c.src.draw(128)); break; case 1: text.erase(p, 1); break; case 2: text.insert(p, 1, text[p]); break; case 3: text.resize(p); break; default: { static const char* ins[] = { "-", "+", "T", "Z", ".", ",", "P", "99999999999999999999", " ", "e5" }; text.insert(p, ins[c.src.draw(10)]); break; } }
	}
	c.describe(text); c.nontrivial = true;
	auto run = [&](auto tag) { using T = decltype(tag); T v{}; std::string what; Got g = parse_any<T>(text, v, what); if (g == GOther) c.fail("exception of another class", vf::cat("'", text, "' ", what)); T v2{}; std::string w2; Got g2 = parse_any<T>(to16(text), v2, w2); if (g2 != g) c.fail("string widths disagree", vf::cat("'", text, "'")); };
	run(tp_of<int64_t, P_ns>{}); run(tp_of<int64_t, P_s>{}); run(tp_of<int32_t, P_min>{}); run(tp_of<int64_t, P_d>{}); run(duration<int64_t, P_ns>{}); run(duration<int32_t, P_s>{}); run(duration<uint64_t, P_ms>{}); run(duration<int64_t, P_d>{}); run(CRawTime{});
}

VF_SWEEP(fractions_exhaustive, false, "every fraction value with 1..6 digits (1,111,110 values; thorough: also 7 digits and a stride through 8 and 9 digits) in '2001-02-03T04:05:06.<f>Z' and 'PT7.<f>S' into ns/us/ms/s targets: result equals the fraction rounded to the target unit (either neighbour on ties)")
{
	uint64_t idx = 0;
	for (int digits = 1; digits <= 9; digits++) {
		uint64_t n = 1; for (int i = 0; i < digits; i++) n *= 10;
		uint64_t stride = digits <= 6 ? 1 : digits == 7 ? (c.thorough ? 1 : 97) : (c.thorough ? 1009 : 100003);
		for (uint64_t v = 0; v < n; v += stride, idx++) {
			if (c.skip(idx, [&] { return vf::cat(digits, ":", v); })) continue;
			char fr[16]; snprintf(fr, sizeof fr, "%0*llu", digits, static_cast<unsigned long long>(v));
			DtFields f; f.y = 2001; f.mo = 2; f.d = 3; f.h = 4; f.mi = 5; f.s = 6; f.frac = fr; const std::string text = render(f);
			DurFields du; du.hasT = true; du.time.push_back({ 7, 'S', fr }); const std::string dtext = render(du);
			auto one = [&](auto tag) { using D = decltype(tag); using TP = time_point<system_clock, D>;
				Expect x = dt_reference(f, D::period::num, D::period::den, INT64_MIN, INT64_MAX); TP out{}; std::string what; Got g = parse_any<TP>(text, out, what);
				if (const char* e = judge(x, g, g == GValue ? static_cast<i128>(out.time_since_epoch().count()) : 0)) c.fail(e, vf::cat(digits, ":", v), vf::cat(dname<D>(), " ", text));
				Expect y = dur_reference(du, D::period::num, D::period::den, INT64_MIN, INT64_MAX, true); D dout{}; Got g2 = parse_any<D>(dtext, dout, what);
				if (const char* e = judge(y, g2, g2 == GValue ? static_cast<i128>(dout.count()) : 0)) c.fail(e, vf::cat(digits, ":", v), vf::cat(dname<D>(), " ", dtext));
				c.evaluations += 2; };
			one(duration<int64_t, P_ns>{}); one(duration<int64_t, P_us>{}); one(duration<int64_t, P_ms>{}); one(duration<int64_t, P_s>{});
			c.nontrivial++;
		}
	}
	c.sample("3:500 -> 2001-02-03T04:05:06.500Z / PT7.500S");
}

int main(int argc, char** argv) {
	if (const char* e = refcal::selftest()) { fprintf(stderr, "ORACLE SELF-TEST FAILED: ref_calendar %s\n", e); return 2; }
	return vf::engine_main(argc, argv, "c15_iso_parse");
}
