// C02 (ladder) — regions a length-capped byte fuzzer never reaches: nesting depth 10 .. 10^6, declared element counts up to 2^32-1
// without payload, single tokens of 10^6 characters.  Every case runs in a forked child (engine --isolate) with an 8 MiB stack, a CPU
// budget and ASan's allocation limit; the oracle is "returns or throws a std::exception": SIGSEGV (stack overflow), abort, sanitizer
// report, allocation above the limit or CPU budget are failures.
#include "common/dyn.h"
#include "bitserializer/types/std/vector.h"
#include "bitserializer/types/std/map.h"
#include "bitserializer/types/std/unordered_map.h"
#include "bitserializer/types/std/set.h"
#include "bitserializer/types/std/list.h"
#include "bitserializer/types/std/forward_list.h"
#include "bitserializer/types/std/deque.h"
#include "bitserializer/types/std/valarray.h"
#include "bitserializer/types/std/optional.h"
#include "bitserializer/types/std/chrono.h"

using namespace arch;
using refmp::Val;

namespace {
struct In { int q = 0; template <class A> void Serialize(A& a) { a << KeyValue("q", q); } };
struct Wide { int q = 0; std::vector<std::vector<std::vector<int>>> deep; std::map<std::string, std::map<std::string, int>> mm; std::string s; template <class A> void Serialize(A& a) { a << KeyValue("q", q) << KeyValue("deep", deep) << KeyValue("mm", mm) << KeyValue("s", s); } };
struct Res { bool ok = false; std::string what; };
template <class F> Res call(F&& f) { Res r; try { f(); r.ok = true; } catch (const vf::Failure&) { throw; } catch (const vf::Discard&) { throw; } catch (const std::exception& e) { r.what = e.what(); } catch (...) { r.what = "\x01non-std"; } return r; }
template <class A, class T> Res load_t(const std::string& doc, int medium, const SerializationOptions& o) {
	return call([&] { T t{}; if (medium == 0) LoadObject<A>(t, doc, o); else if (medium == 1) { std::istringstream is(doc); LoadObject<A>(t, is, o); } else { ShortReadBuf b(doc, 4096); std::istream is(&b); LoadObject<A>(t, is, o); } });
}
template <class A> Res load_dyn(Val shape, const std::string& doc, int medium, const SerializationOptions& o) {
	return call([&] { dyn::Root r{ &shape }; if (medium == 0) LoadObject<A>(r, doc, o); else { std::istringstream is(doc); LoadObject<A>(r, is, o); } });
}
const size_t kDepths[] = { 10, 1000, 100000, 1000000 };
std::string rep(const std::string& s, size_t n) { std::string r; r.reserve(s.size() * n); for (size_t i = 0; i < n; i++) r += s; return r; }
void judge(vf::Ctx& c, const Res& r, const std::string& d) { if (!r.ok && !r.what.empty() && r.what[0] == '\x01') c.fail("something that is not derived from std::exception escapes", d); }

template <class A> Res targets(int target, const std::string& doc, int medium, const SerializationOptions& o) {
	using namespace refmp;
	switch (target) {
	case 0: return load_t<A, In>(doc, medium, o);                                   // the nested value sits under an unknown key / mismatching member: skipped
	case 1: return load_t<A, Wide>(doc, medium, o);                                 // typed nesting of depth 3
	case 2: return load_t<A, std::vector<std::vector<int>>>(doc, medium, o);
	case 3: return load_t<A, std::map<std::string, std::vector<std::string>>>(doc, medium, o);
	case 4: return load_dyn<A>(mkArr({ mkArr({ mkInt(-1) }), mkStr("s") }), doc, medium, o);
	default: return load_dyn<A>(mkMap({ { mkStr("q"), mkInt(-1) }, { mkStr("z"), mkMap({ { mkStr("k"), mkStr("s") } }) } }), doc, medium, o);
	}
}
SerializationOptions policies(vf::Src& s) { SerializationOptions o; gen_policies(s, o); return o; }
}

VF_PROPERTY(ladder_msgpack_depth, 3, "MessagePack documents with arrays / maps nested 10, 10^3, 10^5, 10^6 deep (closed or cut off), as the root, under an unknown key of an object, or under a key whose target mismatches; 6 targets (class, class with typed depth 3, vector<vector<int>>, map, two dynamic shapes) x memory / istringstream / short-read stream x policies; non-trivial = depth >= 10^5") {
	const size_t depth = kDepths[c.src.draw(4)]; const int kind = static_cast<int>(c.src.draw(4)); const int place = static_cast<int>(c.src.draw(3)); const int target = static_cast<int>(c.src.draw(6)); const int medium = static_cast<int>(c.src.draw(3)); const bool closed = c.src.coin(); const SerializationOptions o = policies(c.src);
	std::string nested;
	switch (kind) { case 0: nested = rep("\x91", depth); break; case 1: nested = rep(std::string("\x81\xa1k", 3), depth); break; case 2: nested = rep(std::string("\xdc\x00\x01", 3), depth); break; default: nested = rep(std::string("\x92\x01", 2), depth); }
	if (closed && kind != 3) nested += "\x01";
	std::string doc = place == 0 ? nested : place == 1 ? std::string("\x82\xa1z", 3) + nested + std::string("\xa1q\x05", 3) : std::string("\x82\xa1q", 3) + nested + std::string("\xa1z\x05", 3);
	c.nontrivial = depth >= 100000; c.label(vf::cat("depth=", depth)); c.describe(vf::cat("msgpack depth=", depth, " kind=", kind, " place=", place, " target=", target, " medium=", medium, " closed=", closed, " mis=", static_cast<int>(o.mismatchedTypesPolicy)));
	Res r = targets<MsgPackArchive>(target, doc, medium, o); judge(c, r, vf::cat("msgpack depth=", depth, " kind=", kind, " place=", place, " target=", target, " => ", r.ok ? "ok" : r.what));
}

VF_PROPERTY(ladder_msgpack_counts, 3, "MessagePack headers that declare 2^8, 2^16-1, 2^16, 2^31, 2^32-1 elements / bytes (array16/32, map16/32, str8/16/32, bin8/16/32, ext8/16/32) followed by no or little payload, at the root or under a key; targets vector<int64>, vector<string>, map, unordered_map, set, list, forward_list, deque, valarray, vector<bool>, string, vector<uint8_t>, class (skipped), dynamic; memory and streams; non-trivial = declared count >= 2^16") {
	static const uint64_t counts[] = { 256, 65535, 65536, 0x80000000ull, 0xFFFFFFFFull }; const uint64_t n = counts[c.src.draw(5)]; const int hdr = static_cast<int>(c.src.draw(5));
	// mostly a target that matches the header family (so that the declared count reaches the container code), sometimes any target
	static const int forArr[] = { 0, 1, 4, 5, 6, 7, 8, 9, 13, 15 }, forMap[] = { 2, 3, 12, 14, 2, 3 }, forStr[] = { 10, 1, 2 }, forBin[] = { 11, 13, 11 };
	const int target = c.src.chance(1, 4) ? static_cast<int>(c.src.draw(16)) : hdr == 0 ? forArr[c.src.draw(10)] : hdr == 1 ? forMap[c.src.draw(6)] : hdr == 2 ? forStr[c.src.draw(3)] : hdr == 3 ? forBin[c.src.draw(3)] : static_cast<int>(c.src.draw(16)); const int medium = static_cast<int>(c.src.draw(3)); const bool underKey = c.src.coin(); const size_t payload = c.src.draw(3) == 0 ? 0 : c.src.draw(64); const SerializationOptions o = policies(c.src);
	auto be = [](uint64_t v, int bytes) { std::string r; for (int i = bytes - 1; i >= 0; i--) r.push_back(static_cast<char>((v >> (8 * i)) & 0xFF)); return r; };
	std::string h; const bool w16 = n <= 65535;
	switch (hdr) { case 0: h = w16 ? "\xdc" + be(n, 2) : "\xdd" + be(n, 4); break; case 1: h = w16 ? "\xde" + be(n, 2) : "\xdf" + be(n, 4); break; case 2: h = n < 256 ? "\xd9" + be(n, 1) : w16 ? "\xda" + be(n, 2) : "\xdb" + be(n, 4); break; case 3: h = n < 256 ? "\xc4" + be(n, 1) : w16 ? "\xc5" + be(n, 2) : "\xc6" + be(n, 4); break; default: h = (n < 256 ? "\xc7" + be(n, 1) : w16 ? "\xc8" + be(n, 2) : "\xc9" + be(n, 4)) + std::string(1, static_cast<char>(c.src.coin() ? 0xFF : 5)); }
	std::string doc = (underKey ? std::string("\x82\xa1z", 3) : std::string()) + h + std::string(payload, '\x01') + (underKey ? std::string("\xa1q\x05", 3) : std::string());
	c.nontrivial = n >= 65536; c.label(vf::cat("count=", n)); c.describe(vf::cat("msgpack count=", n, " hdr=", hdr, " target=", target, " medium=", medium, " underKey=", underKey, " payload=", payload));
	Res r;
	switch (target) {
	case 0: r = load_t<MsgPackArchive, std::vector<int64_t>>(doc, medium, o); break; case 1: r = load_t<MsgPackArchive, std::vector<std::string>>(doc, medium, o); break; case 2: r = load_t<MsgPackArchive, std::map<std::string, int>>(doc, medium, o); break; case 3: r = load_t<MsgPackArchive, std::unordered_map<int, int>>(doc, medium, o); break;
	case 4: r = load_t<MsgPackArchive, std::set<int>>(doc, medium, o); break; case 5: r = load_t<MsgPackArchive, std::list<int>>(doc, medium, o); break; case 6: r = load_t<MsgPackArchive, std::forward_list<int>>(doc, medium, o); break; case 7: r = load_t<MsgPackArchive, std::deque<double>>(doc, medium, o); break;
	case 8: r = load_t<MsgPackArchive, std::valarray<int>>(doc, medium, o); break; case 9: r = load_t<MsgPackArchive, std::vector<bool>>(doc, medium, o); break; case 10: r = load_t<MsgPackArchive, std::string>(doc, medium, o); break; case 11: r = load_t<MsgPackArchive, std::vector<uint8_t>>(doc, medium, o); break;
	case 12: r = load_t<MsgPackArchive, In>(doc, medium, o); break; case 13: r = load_t<MsgPackArchive, std::vector<std::vector<uint8_t>>>(doc, medium, o); break; case 14: r = load_t<MsgPackArchive, std::map<std::string, std::vector<int>>>(doc, medium, o); break;
	default: r = load_dyn<MsgPackArchive>(refmp::mkArr({ refmp::mkInt(-1), refmp::mkStr("s") }), doc, medium, o);
	}
	judge(c, r, vf::cat("msgpack count=", n, " hdr=", hdr, " target=", target, " => ", r.ok ? "ok" : r.what));
}

VF_PROPERTY(ladder_json, 3, "JSON text with '[' / '{\"k\":' / '[{\"k\":[' nested 10 .. 10^6 deep (closed or cut off), numbers with 10 .. 10^6 digits in the integer, fraction or exponent part, strings and keys of 10^6 characters, 10^6 members or elements; as the root, under an unknown key or under a mismatching member; 6 targets x memory / streams; non-trivial = size >= 10^5") {
	const size_t n = kDepths[c.src.draw(4)]; const int kind = static_cast<int>(c.src.draw(9)); const int place = static_cast<int>(c.src.draw(3)); const int target = static_cast<int>(c.src.draw(6)); const int medium = static_cast<int>(c.src.draw(3)); const bool closed = c.src.coin(); const SerializationOptions o = policies(c.src);
	std::string v;
	switch (kind) {
	case 0: v = rep("[", n) + (closed ? "1" + rep("]", n) : ""); break; case 1: v = rep("{\"k\":", n) + (closed ? "1" + rep("}", n) : ""); break; case 2: v = rep("[{\"k\":", n) + (closed ? "1" + rep("}]", n) : ""); break;
	case 3: v = "1" + std::string(n, '0'); break; case 4: v = "0." + std::string(n, '3'); break; case 5: v = "1e" + std::string(n, '9'); break; case 6: v = "\"" + std::string(n, 'x') + "\""; break;
	case 7: { v = "["; for (size_t i = 0; i < n; i++) { v += i ? ",1" : "1"; } v += "]"; break; }
	default: { v = "{"; for (size_t i = 0; i < n && i < 20000; i++) { v += (i ? ",\"k" : "\"k") + std::to_string(i) + "\":1"; } /* by-name lookup is linear per member (RapidJSON FindMember): quadratic but terminating, capped to stay inside the CPU budget */ v += "}"; }
	}
	const std::string doc = place == 0 ? v : place == 1 ? "{\"z\":" + v + ",\"q\":5}" : "{\"q\":" + v + ",\"z\":5}";
	c.nontrivial = n >= 100000; c.label(vf::cat("size=", n)); c.describe(vf::cat("json size=", n, " kind=", kind, " place=", place, " target=", target, " medium=", medium, " closed=", closed));
	Res r = targets<JsonArchive>(target, doc, medium, o); judge(c, r, vf::cat("json size=", n, " kind=", kind, " place=", place, " target=", target, " => ", r.ok ? "ok" : r.what.substr(0, 200)));
}

VF_PROPERTY(ladder_xml, 3, "XML text with elements nested 10 .. 10^6 deep (closed or cut off), 10^6 siblings, 10^6 attributes, text / attribute values / names of 10^6 characters, 10^6 character references; 6 targets x memory / streams; non-trivial = size >= 10^5") {
	const size_t n = kDepths[c.src.draw(4)]; const int kind = static_cast<int>(c.src.draw(7)); const int target = static_cast<int>(c.src.draw(6)); const int medium = static_cast<int>(c.src.draw(3)); const bool closed = c.src.coin(); const SerializationOptions o = policies(c.src);
	std::string v;
	switch (kind) {
	case 0: v = rep("<a>", n) + (closed ? "1" + rep("</a>", n) : ""); break;
	case 1: { v = "<z>"; for (size_t i = 0; i < n && i < 100000; i++) v += "<v>1</v>"; v += "</z>"; break; }
	case 2: { v = "<z"; for (size_t i = 0; i < n && i < 20000; i++) v += " a" + std::to_string(i) + "=\"1\""; v += ">1</z>"; break; }
	case 3: v = "<z>" + std::string(n, 'x') + "</z>"; break; case 4: v = "<z a=\"" + std::string(n, 'x') + "\">1</z>"; break; case 5: v = "<" + std::string(n, 'n') + ">1</" + std::string(n, 'n') + ">"; break;
	default: v = "<z>" + rep("&#65;", n < 300000 ? n : 300000) + "</z>";
	}
	const std::string doc = "<?xml version=\"1.0\"?><root>" + v + "<q>5</q></root>";
	c.nontrivial = n >= 100000; c.label(vf::cat("size=", n)); c.describe(vf::cat("xml size=", n, " kind=", kind, " target=", target, " medium=", medium, " closed=", closed));
	Res r = targets<XmlArchive>(target, doc, medium, o); judge(c, r, vf::cat("xml size=", n, " kind=", kind, " target=", target, " => ", r.ok ? "ok" : r.what.substr(0, 200)));
}

namespace { struct CRow { std::string a; int n = 0; template <class A> void Serialize(A& ar) { ar << KeyValue("a", a) << KeyValue("n", n); } }; }
VF_PROPERTY(ladder_csv, 2, "CSV text with 10 .. 10^6 columns, rows, quote characters in one cell, characters in one cell, or empty lines; typed rows and maps; memory / streams in UTF-8 and UTF-16; non-trivial = size >= 10^5") {
	const size_t n = kDepths[c.src.draw(4)]; const int kind = static_cast<int>(c.src.draw(6)); const int medium = static_cast<int>(c.src.draw(3)); const bool typed = c.src.coin(); const bool utf16 = medium != 0 && c.src.coin(); const SerializationOptions o = policies(c.src);
	std::string v;
	switch (kind) {
	case 0: { std::string h, r; for (size_t i = 0; i < n && i < 20000; i++) { h += (i ? ",c" : "c") + std::to_string(i); r += i ? ",1" : "1"; } v = h + "\r\n" + r + "\r\n"; break; }
	case 1: { v = "a,n\r\n"; for (size_t i = 0; i < n && i < 300000; i++) v += "x,1\r\n"; break; }
	case 2: v = "a,n\r\n\"" + rep("\"\"", n) + "\",1\r\n"; break;
	case 3: v = "a,n\r\n" + std::string(n, 'x') + ",1\r\n"; break;
	case 4: v = "a,n\r\n" + rep("\r\n", n); break;
	default: v = "a,n\r\n\"" + std::string(n, 'x');   // unterminated quoted cell
	}
	std::string doc = v; if (utf16) { doc = "\xFF\xFE"; for (char ch : v) { doc.push_back(ch); doc.push_back('\0'); } }
	c.nontrivial = n >= 100000; c.label(vf::cat("size=", n)); c.describe(vf::cat("csv size=", n, " kind=", kind, " medium=", medium, " typed=", typed, " utf16=", utf16));
	Res r = typed ? load_t<CsvArchive, std::vector<CRow>>(doc, medium, o) : load_t<CsvArchive, std::vector<std::map<std::string, std::string>>>(doc, medium, o);
	judge(c, r, vf::cat("csv size=", n, " kind=", kind, " => ", r.ok ? "ok" : r.what.substr(0, 200)));
}

VF_PROPERTY(ladder_convert, 2, "Convert::To of numbers, bool, time points and durations from texts with 10 .. 10^6 digits / blanks / signs (long integer, long fraction, long exponent, long fractional seconds, leading blanks, leading zeros) in char and char16_t; non-trivial = size >= 10^5") {
	using namespace std::chrono; const size_t n = kDepths[c.src.draw(4)]; const int kind = static_cast<int>(c.src.draw(8)); const int target = static_cast<int>(c.src.draw(8)); const bool wide = c.src.coin();
	std::string t;
	switch (kind) { case 0: t = std::string(n, '9'); break; case 1: t = "0." + std::string(n, '3'); break; case 2: t = "1e" + std::string(n, '9'); break; case 3: t = std::string(n, ' ') + "5"; break; case 4: t = std::string(n, '0') + "7"; break; case 5: t = "2024-01-01T00:00:00." + std::string(n, '1') + "Z"; break; case 6: t = "PT" + std::string(n, '9') + "S"; break; default: t = std::string(n, '-') + "5"; }
	c.nontrivial = n >= 100000; c.label(vf::cat("size=", n)); c.describe(vf::cat("convert size=", n, " kind=", kind, " target=", target, " wide=", wide));
	auto run = [&](auto&& s) { return call([&] { switch (target) { case 0: (void)Convert::To<int32_t>(s); break; case 1: (void)Convert::To<uint64_t>(s); break; case 2: (void)Convert::To<double>(s); break; case 3: (void)Convert::To<float>(s); break; case 4: (void)Convert::To<bool>(s); break; case 5: (void)Convert::To<time_point<system_clock, nanoseconds>>(s); break; case 6: (void)Convert::To<seconds>(s); break; default: (void)Convert::To<time_point<system_clock, seconds>>(s); } }); };
	Res r = wide ? run(std::u16string(t.begin(), t.end())) : run(t);
	judge(c, r, vf::cat("convert size=", n, " kind=", kind, " target=", target, " => ", r.ok ? "ok" : r.what.substr(0, 200)));
}

VF_MAIN("c02_ladder")
