// C08 (JSON half) — what the JSON archive writes is standard JSON for an independent parser, which recovers the same data model; and any
// standard rendering of the same data (whitespace, escapes, member order, numeric spelling, encoding, BOM) loads to the same value.
// Oracles: nlohmann::json (strict RFC 8259 parser, independent of RapidJSON) + ref_utf for the byte level; an own free-choice emitter
// (self-checked against nlohmann on every case) for the converse direction.
#include "common/dyn.h"
#include "common/models.h"
#include "ref/ref_utf.h"
#include <nlohmann/json.hpp>
#include <cmath>
#include <cstdio>

using namespace arch;
using refmp::Val; using RT = refmp::T; using refutf::Scalars;
using oj = nlohmann::ordered_json;
using mdl::GenCtx; using mdl::gen_text; using mdl::gen_key;

namespace {

// ---- generators --------------------------------------------------------------------------------------------------------------
double gen_f64(vf::Src& s) {
	double x;
	switch (s.draw(7)) {
	case 0: { uint64_t b = s.draw(0); memcpy(&x, &b, 8); break; }
	case 1: x = static_cast<double>(static_cast<long long>(s.draw(2001)) - 1000) / 8; break;
	case 2: { const double sp[] = { 0.0, -0.0, 2.2250738585072014e-308, 5e-324, 1.7976931348623157e308, -1.7976931348623157e308, 2.220446049250313e-16, 0.1, 1.0 / 3, 1e15, -2.5e-7, 1e21, 1e22, 1e23, 9007199254740993.0, 123456789012345680.0, 1e-7, 4.35, 0.3 }; x = sp[s.draw(19)]; break; }
	case 3: x = static_cast<double>(s.integer<int64_t>()); break;
	case 4: x = std::ldexp(static_cast<double>(1 + s.draw(1 << 20)), static_cast<int>(s.range(-1070, 1000))); break;
	default: x = static_cast<double>(static_cast<long long>(s.draw(200001)) - 100000) / 1000; break;
	}
	if (!std::isfinite(x)) x = 0.25;   // JSON has no NaN / Infinity: the save fails loudly (C01), nothing to conform
	return x;
}
float gen_f32(vf::Src& s) {
	float x;
	switch (s.draw(4)) { case 0: { uint32_t b = static_cast<uint32_t>(s.draw(0)); memcpy(&x, &b, 4); break; } case 1: { const float sp[] = { 0.f, -0.f, 1.17549435e-38f, 1e-45f, 3.40282347e38f, 0.1f, 16777217.f, 1.f / 3 }; x = sp[s.draw(8)]; break; } case 2: x = static_cast<float>(s.integer<int32_t>()); break; default: x = static_cast<float>(static_cast<long long>(s.draw(20001)) - 10000) / 100; }
	if (!std::isfinite(x)) x = 0.25f;
	return x;
}
Val gen_leaf(vf::Src& s, const GenCtx& g) {
	switch (s.draw(9)) {
	case 0: return refmp::mkNil();
	case 1: return refmp::mkBool(s.coin());
	case 2: { int64_t v = s.integer<int64_t>(); return refmp::mkInt(v); }
	case 3: return refmp::mkUInt(s.integer<uint64_t>());
	case 4: return refmp::mkF64(gen_f64(s));
	case 5: return refmp::mkF32(gen_f32(s));
	default: return refmp::mkStr(refutf::enc8(gen_text(s, g, 10)));
	}
}
Val gen_tree(vf::Src& s, const GenCtx& g, int depth, size_t& keyIdx) {
	if (depth <= 0 || s.chance(2, 5)) return gen_leaf(s, g);
	if (s.coin()) { std::vector<Val> a; for (size_t n = s.len(5); n > 0; n--) a.push_back(gen_tree(s, g, depth - 1, keyIdx)); return refmp::mkArr(a); }
	std::vector<std::pair<Val, Val>> m; for (size_t n = s.len(5); n > 0; n--) { std::string k = gen_key(s, g, keyIdx++); m.push_back({ refmp::mkStr(k), gen_tree(s, g, depth - 1, keyIdx) }); } return refmp::mkMap(m);
}
int depth_of(const Val& v) { int d = 0; for (auto& c : v.arr) d = std::max(d, depth_of(c)); for (auto& kv : v.map) d = std::max(d, depth_of(kv.second)); return (v.t == RT::Arr || v.t == RT::Map) ? d + 1 : 0; }
bool needs_escape(const Val& v) { if (v.t == RT::Str) for (unsigned char ch : v.s) if (ch < 0x20 || ch == '"' || ch == '\\' || ch >= 0x80) return true; for (auto& c : v.arr) if (needs_escape(c)) return true; for (auto& kv : v.map) if (needs_escape(kv.first) || needs_escape(kv.second)) return true; return false; }

// ---- byte level ----------------------------------------------------------------------------------------------------------------
// strict decoding of a stream written with (encoding, BOM): returns false when the bytes are not that
bool decode_stream(const std::string& bytes, int enc, bool bom, std::string& utf8, std::string& why) {
	std::string body = bytes; const std::string b = refutf::bom_bytes(enc);
	if (bom) { if (body.compare(0, b.size(), b) != 0) { why = "BOM missing or wrong"; return false; } body.erase(0, b.size()); }
	else if (enc == refutf::U8 && body.compare(0, 3, "\xEF\xBB\xBF") == 0) { why = "BOM written although writeBom=false"; return false; }
	Scalars sc;
	if (enc == refutf::U8) { if (!refutf::dec8(body, sc)) { why = "not well-formed UTF-8"; return false; } }
	else if (enc == refutf::U16LE || enc == refutf::U16BE) { if (body.size() % 2) { why = "odd byte count"; return false; } std::u16string u; for (size_t i = 0; i < body.size(); i += 2) { unsigned a = static_cast<unsigned char>(body[i]), c = static_cast<unsigned char>(body[i + 1]); u.push_back(static_cast<char16_t>(enc == refutf::U16LE ? (a | (c << 8)) : ((a << 8) | c))); } if (!refutf::dec16(u, sc)) { why = "not well-formed UTF-16"; return false; } }
	else { if (body.size() % 4) { why = "byte count not a multiple of 4"; return false; } for (size_t i = 0; i < body.size(); i += 4) { uint32_t a = static_cast<unsigned char>(body[i]), b2 = static_cast<unsigned char>(body[i + 1]), c = static_cast<unsigned char>(body[i + 2]), d = static_cast<unsigned char>(body[i + 3]); uint32_t u = enc == refutf::U32LE ? (a | (b2 << 8) | (c << 16) | (d << 24)) : ((a << 24) | (b2 << 16) | (c << 8) | d); if (!refutf::is_scalar(u)) { why = "not a Unicode scalar value"; return false; } sc.push_back(u); } }
	utf8 = refutf::enc8(sc); return true;
}

// ---- data-model comparison -------------------------------------------------------------------------------------------------------
bool same_model(const oj& j, const Val& n, std::string& why, const std::string& path, bool ordered = true) {
	auto fail = [&](const std::string& w) { why = path + ": " + w + " (document has " + j.dump().substr(0, 80) + ", value is " + refmp::show(n).substr(0, 80) + ")"; return false; };
	switch (n.t) {
	case RT::Nil: return j.is_null() || fail("null expected");
	case RT::Bool: return (j.is_boolean() && j.get<bool>() == n.b) || fail("boolean");
	case RT::Int: if (!j.is_number_integer()) return fail("integer kind"); if (j.is_number_unsigned() ? (n.i < 0 || j.get<uint64_t>() != static_cast<uint64_t>(n.i)) : j.get<int64_t>() != n.i) return fail("integer value"); return true;
	case RT::UInt: if (!j.is_number_integer()) return fail("integer kind"); if (j.is_number_unsigned() ? j.get<uint64_t>() != n.u : (j.get<int64_t>() < 0 || static_cast<uint64_t>(j.get<int64_t>()) != n.u)) return fail("unsigned value"); return true;
	case RT::F64: { if (!j.is_number()) return fail("number kind"); const double d = j.get<double>(); if (memcmp(&d, &n.d, 8) != 0 && !(d == 0 && n.d == 0)) return fail("floating value"); return true; }
	case RT::F32: { if (!j.is_number()) return fail("number kind"); const float f = static_cast<float>(j.get<double>()); if (memcmp(&f, &n.f, 4) != 0 && !(f == 0 && n.f == 0)) return fail("float value"); return true; }
	case RT::Str: return (j.is_string() && j.get<std::string>() == n.s) || fail("string");
	case RT::Arr: if (!j.is_array() || j.size() != n.arr.size()) return fail("array size"); for (size_t k = 0; k < n.arr.size(); k++) if (!same_model(j[k], n.arr[k], why, vf::cat(path, "/", k), ordered)) return false; return true;
	case RT::Map: { if (!j.is_object() || j.size() != n.map.size()) return fail("object size");
		if (!ordered) { for (auto& kv : n.map) { auto it = j.find(kv.first.s); if (it == j.end()) return fail("member " + kv.first.s + " missing"); if (!same_model(it.value(), kv.second, why, path + "/" + kv.first.s, false)) return false; } return true; }
		size_t k = 0; for (auto it = j.begin(); it != j.end(); ++it, ++k) { if (it.key() != n.map[k].first.s) return fail(vf::cat("member ", k, " is named differently / in another order")); if (!same_model(it.value(), n.map[k].second, why, path + "/" + it.key())) return false; } return true; }
	default: return fail("kind not representable");
	}
}
std::string strip_ws(const std::string& s) { std::string r; bool inStr = false; for (size_t i = 0; i < s.size(); i++) { char ch = s[i]; if (inStr) { r.push_back(ch); if (ch == '\\' && i + 1 < s.size()) r.push_back(s[++i]); else if (ch == '"') inStr = false; } else if (ch == '"') { inStr = true; r.push_back(ch); } else if (ch != ' ' && ch != '\t' && ch != '\n' && ch != '\r') r.push_back(ch); } return r; }
// the white space of a pretty document: only line breaks followed by depth * count padding characters, and one blank after ':'
bool pretty_layout_ok(const std::string& s, char pad, unsigned num, std::string& why) {
	bool inStr = false; int depth = 0;
	for (size_t i = 0; i < s.size(); i++) {
		const char ch = s[i];
		if (inStr) { if (ch == '\\') i++; else if (ch == '"') inStr = false; continue; }
		if (ch == '"') { inStr = true; continue; }
		if (ch == '{' || ch == '[') depth++; else if (ch == '}' || ch == ']') depth--;
		else if (ch == '\n') { size_t j = i + 1, run = 0; while (j < s.size() && s[j] == pad) { j++; run++; } int d = depth; if (j < s.size() && (s[j] == '}' || s[j] == ']')) d--; if (j < s.size() && run != static_cast<size_t>(d) * num) { why = vf::cat("line at offset ", i, " is indented by ", run, " padding characters, expected ", static_cast<size_t>(d) * num); return false; } i = j - 1; }
		else if (ch == ' ' || ch == '\t' || ch == '\r') { if (!(ch == ' ' && i > 0 && s[i - 1] == ':')) { why = vf::cat("unexpected white space at offset ", i); return false; } }
	}
	return true;
}

// ---- free-choice emitter (everything RFC 8259 allows) ---------------------------------------------------------------------------------
void emit_ws(vf::Src& s, std::string& o) { static const char* w[] = { "", "", " ", "\n", "\t", "\r\n", "  \n\t ", "\r" }; o += w[s.draw(8)]; }
void emit_str(vf::Src& s, const std::string& u8, std::string& o, int style) {
	Scalars sc; refutf::dec8(u8, sc); o.push_back('"'); char b[16];
	for (char32_t cp : sc) {
		const bool must = cp < 0x20 || cp == '"' || cp == '\\'; const bool esc = must || (style == 2) || (style == 1 && s.chance(1, 4));
		if (!esc) { refutf::enc8_one(cp, o); continue; }
		const bool shortForm = s.coin();
		if (shortForm && cp == '"') o += "\\\""; else if (shortForm && cp == '\\') o += "\\\\"; else if (shortForm && cp == '/') o += "\\/"; else if (shortForm && cp == '\b') o += "\\b"; else if (shortForm && cp == '\f') o += "\\f"; else if (shortForm && cp == '\n') o += "\\n"; else if (shortForm && cp == '\r') o += "\\r"; else if (shortForm && cp == '\t') o += "\\t";
		else if (cp < 0x10000) { snprintf(b, sizeof b, s.coin() ? "\\u%04x" : "\\u%04X", static_cast<unsigned>(cp)); o += b; }
		else { const unsigned v = static_cast<unsigned>(cp) - 0x10000; snprintf(b, sizeof b, s.coin() ? "\\u%04x\\u%04x" : "\\u%04X\\u%04X", 0xD800 + (v >> 10), 0xDC00 + (v & 0x3FF)); o += b; }
	}
	o.push_back('"');
}
std::string spell_double(vf::Src& s, double d, int digits) {
	char b[400]; const bool integral = std::floor(d) == d && std::fabs(d) < 1e22;
	switch (s.draw(integral ? 7 : 5)) {
	case 0: snprintf(b, sizeof b, "%.*g", digits, d); break;
	case 1: snprintf(b, sizeof b, "%.*e", digits - 1, d); break;
	case 2: snprintf(b, sizeof b, "%.*E", digits + 3, d); break;
	case 3: { snprintf(b, sizeof b, "%.*e", digits - 1, d); std::string t = b; size_t e = t.find('e'); std::string mant = t.substr(0, e), ex = t.substr(e + 1); int ev = atoi(ex.c_str()); snprintf(b, sizeof b, "%s%s%s%05d", mant.c_str(), s.coin() ? "e" : "E", ev < 0 ? "-" : (s.coin() ? "+" : ""), ev < 0 ? -ev : ev); break; }   // exponent with leading zeros / explicit plus
	case 4: snprintf(b, sizeof b, "%.*g", digits + 5, d); break;
	case 5: snprintf(b, sizeof b, "%.0f", d); break;                                   // integral value as an integer literal
	default: snprintf(b, sizeof b, "%.1f", d); break;                                  // 5.0
	}
	std::string t = b;
	// ECMAScript style: a large integral value as an integer literal made of its 17 significant digits and zeros - it is not the exact value, it rounds to it
	if (integral && std::fabs(d) >= (digits == 9 ? 16777216.0 : 9007199254740992.0) && std::fabs(d) < 1.8e19 && s.chance(1, 3)) {
		snprintf(b, sizeof b, "%.*e", digits - 1, std::fabs(d)); std::string m = b; const size_t e = m.find('e'); const int ex = atoi(m.c_str() + e + 1); std::string ds; for (size_t i = 0; i < e; i++) if (m[i] != '.') ds.push_back(m[i]);
		if (ex >= digits - 1) { ds.append(static_cast<size_t>(ex - (digits - 1)), '0'); const double back = strtod(ds.c_str(), nullptr); if (digits == 9 ? static_cast<float>(back) == static_cast<float>(std::fabs(d)) : back == std::fabs(d)) t = (d < 0 ? "-" : "") + ds; }
	}
	if (t == "-0" ) t = "-0.0"; return t;
}
void emit(vf::Src& s, const Val& n, std::string& o, int strStyle, bool permute) {
	emit_ws(s, o);
	switch (n.t) {
	case RT::Nil: o += "null"; break; case RT::Bool: o += n.b ? "true" : "false"; break; case RT::Int: o += std::to_string(n.i); break; case RT::UInt: o += std::to_string(n.u); break;
	case RT::F64: o += spell_double(s, n.d, 17); break; case RT::F32: { std::string t = spell_double(s, static_cast<double>(n.f), 9); if (std::fabs(strtod(t.c_str(), nullptr)) > 3.4028234663852886e38) t = spell_double(s, static_cast<double>(n.f), 17); o += t; break; }   // a 9-digit spelling of FLT_MAX denotes a number above the float range (C04: either outcome), keep to exact spellings there
	case RT::Str: emit_str(s, n.s, o, strStyle); break;
	case RT::Arr: o.push_back('['); for (size_t k = 0; k < n.arr.size(); k++) { if (k) o.push_back(','); emit(s, n.arr[k], o, strStyle, permute); } emit_ws(s, o); o.push_back(']'); break;
	default: { o.push_back('{'); std::vector<size_t> idx(n.map.size()); for (size_t k = 0; k < idx.size(); k++) idx[k] = k; if (permute) for (size_t k = idx.size(); k > 1; --k) std::swap(idx[k - 1], idx[s.draw(k)]);
		bool first = true; for (size_t k : idx) { if (!first) o.push_back(','); first = false; emit_ws(s, o); emit_str(s, n.map[k].first.s, o, strStyle); emit_ws(s, o); o.push_back(':'); emit(s, n.map[k].second, o, strStyle, permute); } emit_ws(s, o); o.push_back('}'); }
	}
	emit_ws(s, o);
}
// value after a standard re-spelling: an F32 spelled with 9 digits is the same float; everything else is itself
bool same_loaded(const Val& got, const Val& want) {
	if (want.t == RT::F64 && got.t == RT::F64) return memcmp(&got.d, &want.d, 8) == 0 || (got.d == 0 && want.d == 0 && std::signbit(got.d) == std::signbit(want.d));
	if (want.t == RT::F32 && got.t == RT::F32) return memcmp(&got.f, &want.f, 4) == 0;
	if (want.t == RT::Arr) { if (got.t != RT::Arr || got.arr.size() != want.arr.size()) return false; for (size_t i = 0; i < want.arr.size(); i++) if (!same_loaded(got.arr[i], want.arr[i])) return false; return true; }
	if (want.t == RT::Map) { if (got.t != RT::Map || got.map.size() != want.map.size()) return false; for (size_t i = 0; i < want.map.size(); i++) { if (got.map[i].first.s != want.map[i].first.s || got.map[i].second.fmt == 0xc1 || !same_loaded(got.map[i].second, want.map[i].second)) return false; } return true; }
	return refmp::same(got, want);
}

} // namespace

VF_PROPERTY(json_forward, 5, "dynamic trees (depth <= 3; null, bool, int64/uint64 full range, finite double/float full range incl. denormals, extremes and -0, strings over the full Unicode range incl. U+0000, controls, quotes, backslashes, non-characters; empty and nested arrays/objects, any value at the root) x {compact, pretty x padding char x 0..8} x {memory, stream x 5 encodings x BOM}; oracle: bytes decode strictly per the configured encoding/BOM (ref_utf), nlohmann::ordered_json accepts the text and yields the same names, order, nesting and scalar values; pretty differs from compact only by the configured white space; non-trivial = a string needs escaping or holds non-ASCII, or depth >= 3, or a non-default configuration") {
	Cfg cfg = gen_cfg(c.src, JSON); GenCtx g = GenCtx::forArch(JSON); g.noNulChar = false;
	size_t keyIdx = 0; const Val v = gen_tree(c.src, g, 3, keyIdx);
	const bool nonDefault = cfg.stream || cfg.opt.formatOptions.enableFormat; c.nontrivial = needs_escape(v) || depth_of(v) >= 3 || nonDefault;
	c.describe(vf::cat("json fwd ", refmp::show(v).substr(0, 200), " [", cfg.str(), "]")); if (cfg.stream) c.label(vf::cat("enc=", refutf::enc_name(static_cast<int>(cfg.opt.streamOptions.encoding)), cfg.opt.streamOptions.writeBom ? "+bom" : "-bom")); if (cfg.opt.formatOptions.enableFormat) c.label("pretty");
	// history: a save that fails (JSON cannot represent NaN / Infinity) must not leave anything behind that shows up in the next document
	if (c.src.chance(1, 4)) { c.label("after-a-failed-save"); Val bad = refmp::mkMap({ { refmp::mkStr("name"), refmp::mkStr("sensor") }, { refmp::mkStr("reading"), refmp::mkF64(c.src.coin() ? std::nan("") : HUGE_VAL) }, { refmp::mkStr("count"), refmp::mkInt(7) } }); if (c.src.chance(1, 3)) bad = c.src.coin() ? refmp::mkF64(c.src.coin() ? std::nan("") : -HUGE_VAL) : refmp::mkF32(std::nanf(""));   /* also as the root value */ std::string sink; Cfg bc = cfg; bc.stream = c.src.coin(); Outcome bo = dyn::save<JsonArchive>(bad, sink, bc); if (bo.ok()) { oj jj; try { jj = oj::parse(sink); } catch (const std::exception& e) { c.fail("an independent JSON parser rejects the document", vf::cat("NaN / Infinity saved without an error as: ", sink.substr(0, 200))); } } }
	std::string bytes; Outcome so = dyn::save<JsonArchive>(v, bytes, cfg);
	const std::string d0 = vf::cat(refmp::show(v).substr(0, 300), " [", cfg.str(), "]");
	if (!so.ok()) c.fail("saving a representable tree failed", vf::cat(so.str(), " | ", d0));
	std::string text, why;
	if (cfg.stream) { if (!decode_stream(bytes, static_cast<int>(cfg.opt.streamOptions.encoding), cfg.opt.streamOptions.writeBom, text, why)) c.fail("the stream is not encoded as configured", vf::cat(why, " bytes=", vf::hex(bytes.substr(0, 120)), " | ", d0)); }
	else { text = bytes; if (!refutf::valid8(text)) c.fail("the in-memory document is not well-formed UTF-8", vf::cat(vf::hex(bytes.substr(0, 120)), " | ", d0)); if (text.compare(0, 3, "\xEF\xBB\xBF") == 0) c.fail("the in-memory document starts with a BOM", d0); }
	const std::string d = vf::cat("text=", text.substr(0, 400), " | ", d0);
	oj j; try { j = oj::parse(text); } catch (const std::exception& e) { c.fail("an independent JSON parser rejects the document", vf::cat(e.what(), " | ", d)); }
	if (!same_model(j, v, why, "")) c.fail("an independent JSON parser recovers a different data model", vf::cat(why, " | ", d));
	// pretty vs compact
	Cfg other = cfg; other.stream = false; other.opt.formatOptions.enableFormat = !cfg.opt.formatOptions.enableFormat; std::string otherText; Outcome so2 = dyn::save<JsonArchive>(v, otherText, other);
	if (!so2.ok()) c.fail("saving a representable tree failed", vf::cat(so2.str(), " (format toggled) | ", d0));
	if (strip_ws(text) != strip_ws(otherText)) c.fail("pretty and compact output differ by more than white space", vf::cat("other=", otherText.substr(0, 300), " | ", d));
	const std::string& pretty = cfg.opt.formatOptions.enableFormat ? text : otherText; const std::string& compact = cfg.opt.formatOptions.enableFormat ? otherText : text;
	if (strip_ws(compact) != compact) c.fail("compact output contains white space outside strings", d);
	if (!pretty_layout_ok(pretty, cfg.opt.formatOptions.paddingChar, cfg.opt.formatOptions.paddingCharNum, why)) c.fail("pretty output is not indented with the configured padding", vf::cat(why, " pretty=", pretty.substr(0, 300), " | ", d0));
}

VF_PROPERTY(json_converse, 5, "the same trees rendered by an independent emitter with free white space (SP, HT, LF, CR), any mix of raw / short / \\uXXXX escapes (surrogate pairs for astral characters, upper or lower hex), permuted members, floating values re-spelled (%g/%e/%E with 17..22 digits, exponent with leading zeros or '+', integral values as integer literals or x.0), in memory or as a stream in 5 encodings with or without BOM; every emitted document is first accepted by nlohmann with the same data model (self-check); oracle: loading into a target of the tree's shape yields the same tree; non-trivial = an escape, a permutation or a non-UTF-8 encoding was used") {
	GenCtx g = GenCtx::forArch(JSON); Cfg cfg; cfg.stream = c.src.coin(); cfg.streamKind = cfg.stream ? static_cast<int>(c.src.draw(4)) : 0; cfg.chunk = 1 + c.src.draw(40);
	const int enc = cfg.stream ? static_cast<int>(c.src.draw(5)) : 0; const bool bom = cfg.stream && c.src.coin(); g.noNulChar = cfg.stream && !bom;   // soundness rule 1
	size_t keyIdx = 0; Val v = gen_tree(c.src, g, 3, keyIdx);
	if (cfg.stream && !bom && enc != 0 && v.t != RT::Arr && v.t != RT::Map) v = refmp::mkArr({ v });   // a BOM-less UTF-16/32 stream needs two ASCII characters to be detectable
	const int strStyle = static_cast<int>(c.src.draw(3)); const bool permute = c.src.coin();
	std::string text; emit(c.src, v, text, strStyle, permute);
	oj j; std::string why; try { j = oj::parse(text); } catch (const std::exception& e) { c.fail("self-check: the reference emitter produced a document nlohmann rejects", vf::cat(e.what(), " | ", text.substr(0, 300))); }
	if (!same_model(j, v, why, "", !permute)) c.fail("self-check: the reference emitter produced a document with another data model", vf::cat(why, " | ", text.substr(0, 300)));
	c.nontrivial = strStyle != 0 || permute || enc != 0; c.label(vf::cat("enc=", refutf::enc_name(enc), bom ? "+bom" : (cfg.stream ? "-bom" : "/mem"))); if (permute) c.label("permuted");
	c.describe(vf::cat("json conv ", text.substr(0, 160), " [", cfg.str(), " enc=", enc, " bom=", bom, "]"));
	std::string bytes;
	if (cfg.stream) { Scalars sc; refutf::dec8(text, sc); bytes = (bom ? refutf::bom_bytes(enc) : std::string()) + refutf::enc_bytes(sc, enc); } else bytes = text;
	Val target = dyn::shape(v); dyn::LoadLog lg; Outcome lo = dyn::load<JsonArchive>(target, bytes, cfg, &lg);
	const std::string d = vf::cat("text=", text.substr(0, 500), " | value=", refmp::show(v).substr(0, 300), " [", cfg.str(), " enc=", refutf::enc_name(enc), " bom=", bom, "] => ", lo.str(), " loaded=", refmp::show(target).substr(0, 300));
	if (!lo.ok()) c.fail("a standard rendering of the data is rejected", d);
	if (!same_loaded(target, v)) c.fail("a standard rendering of the data loads to a different value", d);
	if (lg.arraysLong || lg.arraysShort || lg.notLoaded) c.fail("a standard rendering of the data loads incompletely", vf::cat("notLoaded=", lg.notLoaded, " | ", d));
}

namespace {
struct Nums {
	int8_t i8 = 0; uint8_t u8 = 0; int16_t i16 = 0; uint16_t u16 = 0; int32_t i32 = 0; uint32_t u32 = 0; int64_t i64 = 0; uint64_t u64 = 0; float f = 0; double d = 0; bool b = false; char ch = 'a';
	std::vector<uint32_t> vu; std::vector<int16_t> vi;
	template <class A> void Serialize(A& a) { a << KeyValue("i8", i8) << KeyValue("u8", u8) << KeyValue("i16", i16) << KeyValue("u16", u16) << KeyValue("i32", i32) << KeyValue("u32", u32) << KeyValue("i64", i64) << KeyValue("u64", u64) << KeyValue("f", f) << KeyValue("d", d) << KeyValue("b", b) << KeyValue("vu", vu) << KeyValue("vi", vi); }
};
template <class T> T edge(vf::Src& s) { switch (s.draw(4)) { case 0: return std::numeric_limits<T>::min(); case 1: return std::numeric_limits<T>::max(); case 2: return static_cast<T>(std::numeric_limits<T>::max() / 2 + 1); default: return s.integer<T>(); } }
}
VF_PROPERTY(json_typed_numbers, 2, "typed object and typed roots with every fixed-width integer type at its limits (int8..uint64, vectors of uint32/int16, root uint32/int16/uint64 scalars), float and double: nlohmann reads exactly the stored numbers; non-trivial = always") {
	Nums n; n.i8 = edge<int8_t>(c.src); n.u8 = edge<uint8_t>(c.src); n.i16 = edge<int16_t>(c.src); n.u16 = edge<uint16_t>(c.src); n.i32 = edge<int32_t>(c.src); n.u32 = edge<uint32_t>(c.src); n.i64 = edge<int64_t>(c.src); n.u64 = edge<uint64_t>(c.src); n.f = gen_f32(c.src); n.d = gen_f64(c.src); n.b = c.src.coin();
	for (size_t k = c.src.len(4); k > 0; k--) n.vu.push_back(edge<uint32_t>(c.src)); for (size_t k = c.src.len(4); k > 0; k--) n.vi.push_back(edge<int16_t>(c.src));
	Cfg cfg = gen_cfg(c.src, JSON, false); c.nontrivial = true; c.describe(vf::cat("json typed u32=", n.u32, " i8=", static_cast<int>(n.i8), " u64=", n.u64));
	std::string text; Outcome so = save<JsonArchive>(n, text, cfg); if (!so.ok()) c.fail("saving a representable tree failed", so.str());
	oj j; try { j = oj::parse(text); } catch (const std::exception& e) { c.fail("an independent JSON parser rejects the document", vf::cat(e.what(), " | ", text.substr(0, 300))); }
	auto ck = [&](bool ok, const char* f) { if (!ok) c.fail("an independent JSON parser recovers a different data model", vf::cat("member ", f, " | ", text.substr(0, 400))); };
	ck(j["i8"].is_number_integer() && j["i8"].get<int64_t>() == n.i8, "i8"); ck(j["u8"].is_number_integer() && j["u8"].get<int64_t>() == n.u8, "u8"); ck(j["i16"].get<int64_t>() == n.i16, "i16"); ck(j["u16"].get<int64_t>() == n.u16, "u16"); ck(j["i32"].get<int64_t>() == n.i32, "i32");
	ck(j["u32"].is_number_integer() && j["u32"].get<int64_t>() == static_cast<int64_t>(n.u32), "u32"); ck(j["i64"].is_number_integer() && j["i64"].get<int64_t>() == n.i64, "i64"); ck(j["u64"].is_number_integer() && j["u64"].get<uint64_t>() == n.u64, "u64");
	{ float f = static_cast<float>(j["f"].get<double>()); ck(j["f"].is_number() && (memcmp(&f, &n.f, 4) == 0 || (f == 0 && n.f == 0)), "f"); } { double d = j["d"].get<double>(); ck(j["d"].is_number() && (memcmp(&d, &n.d, 8) == 0 || (d == 0 && n.d == 0)), "d"); } ck(j["b"].is_boolean() && j["b"].get<bool>() == n.b, "b");
	ck(j["vu"].is_array() && j["vu"].size() == n.vu.size(), "vu"); for (size_t k = 0; k < n.vu.size(); k++) ck(j["vu"][k].get<int64_t>() == static_cast<int64_t>(n.vu[k]), "vu[k]"); ck(j["vi"].size() == n.vi.size(), "vi"); for (size_t k = 0; k < n.vi.size(); k++) ck(j["vi"][k].get<int64_t>() == n.vi[k], "vi[k]");
	// typed roots
	{ uint32_t r = edge<uint32_t>(c.src); std::string t; save<JsonArchive>(r, t, cfg); oj jr; try { jr = oj::parse(t); } catch (const std::exception& e) { c.fail("an independent JSON parser rejects the document", vf::cat(e.what(), " | root uint32 ", t)); } ck(jr.is_number_integer() && jr.get<int64_t>() == static_cast<int64_t>(r), "root uint32"); }
	{ int16_t r = edge<int16_t>(c.src); std::string t; save<JsonArchive>(r, t, cfg); oj jr; try { jr = oj::parse(t); } catch (const std::exception& e) { c.fail("an independent JSON parser rejects the document", vf::cat(e.what(), " | root int16 ", t)); } ck(jr.is_number_integer() && jr.get<int64_t>() == r, "root int16"); }
	{ uint64_t r = edge<uint64_t>(c.src); std::string t; save<JsonArchive>(r, t, cfg); oj jr; try { jr = oj::parse(t); } catch (const std::exception& e) { c.fail("an independent JSON parser rejects the document", vf::cat(e.what(), " | root uint64 ", t)); } ck(jr.is_number_integer() && jr.get<uint64_t>() == r, "root uint64"); }
}

VF_MAIN("c08_json")
