// C16 — number/text conversion is lossless; numeric parsing is total and range-checked.
// Oracles: ref_num (from_chars-grammar recogniser + __int128 / glibc strtof,strtod), identical behaviour for
// char, char16_t, char32_t and wchar_t strings.
#include "engine.h"
#include "ref/ref_num.h"
#include "ref/ref_utf.h"
#include "bitserializer/convert.h"

using namespace BitSerializer;

namespace {

template <class C> std::basic_string<C> widen(const std::string& s) {   // bytes are Latin-1/ASCII code points here
	std::basic_string<C> r; for (unsigned char c : s) r.push_back(static_cast<C>(c)); return r;
}
template <class C> std::string narrow(const std::basic_string<C>& s) { std::string r; for (auto c : s) r.push_back(static_cast<char>(c)); return r; }

enum Kind { KValue, KInvalid, KRange, KOther };
template <class T> struct Res { Kind k; T v{}; std::string what; };
template <class T, class Str> Res<T> parse(const Str& s) {
	Res<T> r{};
	try { r.v = Convert::To<T>(s); r.k = KValue; }
	catch (const std::out_of_range& e) { r.k = KRange; r.what = e.what(); }
	catch (const std::invalid_argument& e) { r.k = KInvalid; r.what = e.what(); }
	catch (const std::exception& e) { r.k = KOther; r.what = e.what(); }
	return r;
}
template <class T> bool same_bits(T a, T b) { if constexpr (std::is_floating_point_v<T>) { if (std::isnan(a) && std::isnan(b)) return true; } return std::memcmp(&a, &b, sizeof(T)) == 0; }
template <class T> std::string tname() { if constexpr (std::is_same_v<T, bool>) return "bool"; else if constexpr (std::is_floating_point_v<T>) return sizeof(T) == 4 ? "float" : "double"; else return vf::cat(std::is_signed_v<T> ? "int" : "uint", sizeof(T) * 8); }
std::string show(const std::string& s) { std::string r; char b[8]; for (unsigned char c : s) { if (c >= 32 && c < 127) r.push_back(static_cast<char>(c)); else { snprintf(b, sizeof b, "\\x%02x", c); r += b; } } return "'" + r + "'"; }

// ASCII-only strings are identical in all widths; the four string types must agree on the outcome.
template <class T> const char* widths_agree(const std::string& s, const Res<T>& base, std::string& detail) {
	auto cmp = [&](const Res<T>& o, const char* w) -> const char* { if (o.k != base.k || (o.k == KValue && !same_bits(o.v, base.v))) { detail = vf::cat(tname<T>(), " ", show(s), " char:", base.k, " ", w, ":", o.k); return "string widths disagree"; } return nullptr; };
	if (auto e = cmp(parse<T>(widen<char16_t>(s)), "char16_t")) return e;
	if (auto e = cmp(parse<T>(widen<char32_t>(s)), "char32_t")) return e;
	if (auto e = cmp(parse<T>(widen<wchar_t>(s)), "wchar_t")) return e;
	return nullptr;
}

template <class T> const char* check_int_parse(const std::string& s, std::string& detail) {
	__int128 want = 0; refnum::Outcome e = refnum::expect_int<T>(s, want);
	Res<T> r = parse<T>(s);
	detail = vf::cat(tname<T>(), " ", show(s), " -> kind=", r.k, " value=", refnum::dec(static_cast<__int128>(r.v)), " expected=", e, " want=", refnum::dec(want), " ", r.what);
	if (r.k == KOther) return "exception of another class";
	switch (e) {
	case refnum::Value: if (r.k != KValue) return "valid in-range literal rejected"; if (static_cast<__int128>(r.v) != want) return "WRONG VALUE parsed"; break;
	case refnum::Invalid: if (r.k != KInvalid) return r.k == KValue ? "text without a valid literal accepted" : "out_of_range where invalid_argument is required"; break;
	case refnum::OutOfRange: if (r.k != KRange) return r.k == KValue ? "out-of-range literal accepted (wrapped/truncated)" : "invalid_argument where out_of_range is required"; break;
	case refnum::InvalidOrOutOfRange: if (r.k == KValue) return "unrepresentable literal accepted"; break;
	default: break;
	}
	return widths_agree<T>(s, r, detail);
}
template <class T> const char* check_float_parse(const std::string& s, std::string& detail) {
	T want = 0; refnum::Outcome e = refnum::expect_float<T>(s, want);
	Res<T> r = parse<T>(s);
	char b[160]; snprintf(b, sizeof b, " -> kind=%d value=%.17g expected=%d want=%.17g ", r.k, static_cast<double>(r.v), e, static_cast<double>(want));
	detail = vf::cat(tname<T>(), " ", show(s), b, r.what);
	if (r.k == KOther) return "exception of another class";
	switch (e) {
	case refnum::Value: if (r.k != KValue) return "valid literal rejected"; if (!same_bits(r.v, want)) return "WRONG VALUE parsed (not the correctly rounded value)"; break;
	case refnum::Invalid: if (r.k != KInvalid) return r.k == KValue ? "text without a valid literal accepted" : "out_of_range where invalid_argument is required"; break;
	case refnum::OutOfRange: if (r.k != KRange) return r.k == KValue ? "overflowing literal accepted" : "invalid_argument where out_of_range is required"; break;
	case refnum::ValueOrOutOfRange: if (r.k == KInvalid) return "valid literal rejected as invalid"; if (r.k == KValue && !same_bits(r.v, want)) return "WRONG VALUE parsed for underflowing literal"; break;
	default: break;
	}
	return widths_agree<T>(s, r, detail);
}

template <class T> const char* check_int_print(T v, std::string& detail) {
	const std::string want = refnum::dec(static_cast<__int128>(v));
	std::string s = Convert::ToString(v);
	detail = vf::cat(tname<T>(), " ", want, " printed as ", show(s));
	if (s != want) return "integer printed wrongly";
	if (narrow(Convert::To<std::u16string>(v)) != want || narrow(Convert::To<std::u32string>(v)) != want || narrow(Convert::To<std::wstring>(v)) != want) return "integer text differs between string widths";
	Res<T> r = parse<T>(s); if (r.k != KValue || r.v != v) return "integer text does not parse back";
	Res<T> r2 = parse<T>(widen<char16_t>(s)); Res<T> r3 = parse<T>(widen<char32_t>(s)); Res<T> r4 = parse<T>(widen<wchar_t>(s));
	if (r2.k != KValue || r2.v != v || r3.k != KValue || r3.v != v || r4.k != KValue || r4.v != v) return "integer text does not parse back from a wide string";
	std::string app = "ab"; Convert::Detail::To(v, app); if (app != "ab" + want) return "append to a non-empty string failed";
	return nullptr;
}
template <class T> const char* check_float_print(T x, std::string& detail) {
	std::string s = Convert::ToString(x);
	char b[64]; snprintf(b, sizeof b, "%.17g", static_cast<double>(x));
	detail = vf::cat(tname<T>(), " ", b, " printed as ", show(s));
	if (!std::isfinite(x)) {   // outside the property's domain; only totality and class are checked
		Res<T> r = parse<T>(s); if (r.k != KValue || std::isnan(r.v) != std::isnan(x) || (std::isinf(x) && r.v != x)) return "non-finite value does not survive text";
		return nullptr;
	}
	// parses back (independent parser, and the library's) to the identical bits
	T g = sizeof(T) == 4 ? static_cast<T>(strtof(s.c_str(), nullptr)) : static_cast<T>(strtod(s.c_str(), nullptr));
	if (!same_bits(g, x)) return "float text does not parse back (glibc strto*) to the same bits";
	Res<T> r = parse<T>(s); if (r.k != KValue || !same_bits(r.v, x)) return "float text does not parse back (library) to the same bits";
	// grammar of the output: what the documented parser accepts completely
	refnum::Lit L = refnum::float_literal(s); if (!L.found || L.begin != 0 || L.end != s.size()) return "float text is not a plain decimal literal";
	// shortest: no decimal with fewer significant digits round-trips.  Exception (std::to_chars): an integer-valued number printed in
	// fixed notation shows all its integer digits when that is not longer in characters than the scientific form.
	const bool plainInteger = s.find_first_of(".eE") == std::string::npos;
	size_t sciLen = 0; const int minDigits = refnum::min_digits(x, &sciLen);
	if (!plainInteger && refnum::sig_digits(s) != minDigits && x != 0) return "text does not have the minimal number of significant digits";
	if (s.size() > sciLen && x != 0) return "text is longer than the shortest scientific rendering";
	if (narrow(Convert::To<std::u16string>(x)) != s || narrow(Convert::To<std::u32string>(x)) != s || narrow(Convert::To<std::wstring>(x)) != s) return "float text differs between string widths";
	Res<T> r2 = parse<T>(widen<char32_t>(s)); if (r2.k != KValue || !same_bits(r2.v, x)) return "float text does not parse back from a wide string";
	return nullptr;
}

template <class T> void sweep_int_type(vf::SweepCtx& c) {
	for (long v = std::numeric_limits<T>::min(); v <= static_cast<long>(std::numeric_limits<T>::max()); v++) {
		if (c.skip(static_cast<uint64_t>(v - std::numeric_limits<T>::min()), [&] { return vf::cat(tname<T>(), ":", v); })) continue;
		std::string d; const char* e = check_int_print(static_cast<T>(v), d); c.evaluations++; c.nontrivial++;
		if (e) c.fail(e, vf::cat(tname<T>(), ":", v), d);
	}
}

const char* HEADS[] = { "", "", "", "", " ", "\t", "  \t ", "\n", " -", "+", "-", "--", "- ", "0x", ".", "-0", "\xC2\xA0" };
const char* TAILS[] = { "", "", "", "", "abc", " ", "e", "e+", ".5", ".", ".x", "-", ",5", "E5", "\xD0\x96", "e5", ".0", "f", "L", "_1" };
const char* INT_LIMITS[] = { "127", "128", "-128", "-129", "255", "256", "32767", "32768", "-32768", "-32769", "65535", "65536", "2147483647", "2147483648", "-2147483648", "-2147483649", "4294967295", "4294967296",
	"9223372036854775807", "9223372036854775808", "-9223372036854775808", "-9223372036854775809", "18446744073709551615", "18446744073709551616", "-0", "-1", "0", "1", "340282366920938463463374607431768211456", "-340282366920938463463374607431768211456" };
const char* FLOAT_SPECIALS[] = { "inf", "INF", "Infinity", "infinit", "nan", "NaN", "nan(abc)", "nan(", "-inf", "-nan", "1e400", "1e-400", "4.9e-324", "2.4e-324", "2.5e-324", "1.7976931348623157e308", "1.7976931348623159e308",
	"3.4028235e38", "3.4028236e38", "3.4028234663852886e38", "3.4028235677973366e38", "1e39", "1e-46", "1.4e-45", "7e-46", "0x1p3", "1.e5", ".5e1", ".e1", "1e", "1e+", "5.", "00012.5", "1_0", "1,5", "1e0000000000000000000001", "0.1e-999999999999", "9007199254740993", "9007199254740992.5", "0.30000000000000004", "2.2250738585072011e-308", "1.00000017881393432617187499", "1.00000017881393432617187501" };

std::string gen_digits(vf::Src& s, size_t n) { std::string r; for (size_t i = 0; i < n; i++) r.push_back(static_cast<char>('0' + s.draw(10))); return r; }
std::string gen_int_string(vf::Src& s) {
	std::string r = HEADS[s.draw(sizeof HEADS / sizeof *HEADS)];
	switch (s.draw(8)) {
	case 0: r = std::string(HEADS[s.draw(8)]) + INT_LIMITS[s.draw(sizeof INT_LIMITS / sizeof *INT_LIMITS)]; break;
	case 1: r += std::string(s.draw(30), '0') + gen_digits(s, s.draw(8)); break;
	case 2: r += gen_digits(s, 17 + s.draw(8)); break;
	case 3: break;   // no digits at all
	default: r += gen_digits(s, 1 + s.draw(6)); break;
	}
	const char* t = TAILS[s.draw(sizeof TAILS / sizeof *TAILS)]; r += t;
	if (s.chance(1, 16)) r += std::string("\0z", 2);
	return r;
}
std::string gen_float_string(vf::Src& s) {
	std::string r = HEADS[s.draw(sizeof HEADS / sizeof *HEADS)];
	switch (s.draw(10)) {
	case 0: case 1: case 2: case 3: {
		r += gen_digits(s, s.draw(21)); if (s.coin()) { r.push_back('.'); r += gen_digits(s, s.draw(22)); }
		if (s.coin()) { r.push_back(s.coin() ? 'e' : 'E'); if (s.coin()) r.push_back(s.coin() ? '+' : '-'); r += gen_digits(s, s.draw(4)); }
		break; }
	case 4: case 5: r += FLOAT_SPECIALS[s.draw(sizeof FLOAT_SPECIALS / sizeof *FLOAT_SPECIALS)]; break;
	case 6: { uint64_t b = s.draw(0); double d; memcpy(&d, &b, 8); if (!std::isfinite(d)) d = 1.5; char buf[80]; snprintf(buf, sizeof buf, s.coin() ? "%.17g" : "%.25g", d); r += buf; break; }
	case 7: { uint32_t b = static_cast<uint32_t>(s.draw(0)); float f; memcpy(&f, &b, 4); if (!std::isfinite(f)) f = 2.5f; char buf[80]; snprintf(buf, sizeof buf, s.coin() ? "%.9g" : "%.12g", static_cast<double>(f)); r += buf; break; }
	case 8: { // halfway cases between adjacent floats / doubles written exactly
		uint32_t b = static_cast<uint32_t>(s.draw(0x7F000000)); float f; memcpy(&f, &b, 4); float g = std::nextafterf(f, INFINITY); char buf[120]; snprintf(buf, sizeof buf, "%.60g", (static_cast<double>(f) + static_cast<double>(g)) / 2); r += buf; break; }
	default: r += INT_LIMITS[s.draw(sizeof INT_LIMITS / sizeof *INT_LIMITS)]; break;
	}
	r += TAILS[s.draw(sizeof TAILS / sizeof *TAILS)];
	if (s.chance(1, 16)) r += std::string("\0z", 2);
	return r;
}

template <class T> T gen_float_bits(vf::Src& s) {
	using U = std::conditional_t<sizeof(T) == 4, uint32_t, uint64_t>; U b; T x;
	switch (s.draw(6)) {
	case 0: { b = static_cast<U>(s.draw(0)); break; }
	case 1: { int k = static_cast<int>(s.range(-60, 60)); x = static_cast<T>(std::ldexp(1.0, k)); if (s.coin()) x = std::nextafter(x, s.coin() ? T(0) : std::numeric_limits<T>::max()); return s.coin() ? -x : x; }
	case 2: { int k = static_cast<int>(s.range(-30, 30)); x = static_cast<T>(std::pow(10.0, k)); if (s.coin()) x = std::nextafter(x, s.coin() ? T(0) : std::numeric_limits<T>::max()); return x; }
	case 3: { const T sp[] = { T(0), -T(0), std::numeric_limits<T>::min(), std::numeric_limits<T>::denorm_min(), std::numeric_limits<T>::max(), std::numeric_limits<T>::lowest(), std::numeric_limits<T>::epsilon(), T(0.1), T(1) / 3, T(1e15), T(9007199254740993.0), T(123456789012345680.0) }; return sp[s.draw(12)]; }
	case 4: { b = static_cast<U>(s.draw(sizeof(T) == 4 ? 0x00800000u : 0x0010000000000000ull)); break; }   // subnormals
	default: { long long i = static_cast<long long>(s.draw(2000000)) - 1000000; return static_cast<T>(i) / static_cast<T>(s.coin() ? 1 : 1000); }
	}
	memcpy(&x, &b, sizeof(T)); return x;
}

} // namespace

VF_SWEEP(int_print_parse_8_16, false, "exhaustive: every value of int8/uint8/int16/uint16/char printed (4 string widths), compared with an independent decimal printer and parsed back in 4 widths")
{
	sweep_int_type<int8_t>(c); sweep_int_type<uint8_t>(c); sweep_int_type<int16_t>(c); sweep_int_type<uint16_t>(c);
	c.sample("int16:-32768"); c.sample("uint8:255");
}

VF_SWEEP(float_bits_sample, false, "2^24 float bit patterns (one per block of 256, offset varying with the block; quick) or all 2^32 (thorough): text parses back bit-identically with glibc strtof and with the library, is a plain literal and no shorter decimal round-trips")
{
	const uint64_t total = c.thorough ? (1ull << 32) : (1ull << 24);
	for (uint64_t i = 0; i < total; i++) {
		if (!c.only.empty()) { /* replay filter handled below */ }
		if (c.only.empty() && (i % c.shards) != c.shard) continue;
		uint32_t bits = c.thorough ? static_cast<uint32_t>(i) : static_cast<uint32_t>((i << 8) | ((i * 0x9E3779B1u >> 13) & 0xFF));
		if (!c.only.empty() && vf::cat("f32:", std::hex, bits) != c.only) continue;
		float f; memcpy(&f, &bits, 4);
		std::string d; const char* e = check_float_print(f, d); c.evaluations++;
		if (std::isfinite(f) && refnum::sig_digits(Convert::ToString(f)) >= 8) c.nontrivial++;
		if (e) c.fail(e, vf::cat("f32:", std::hex, bits), d);
	}
	c.sample("f32:3f800000"); c.sample("f32:00000001"); c.sample("f32:7f7fffff");
}

VF_PROPERTY(int_print_parse_wide, 2, "boundary (limits +-2, 2^k+-2) and random values of int32/uint32/int64/uint64/long long: printed text equals an independent decimal printer and parses back in 4 string widths; non-trivial = |value| >= 2^15")
{
	std::string d; const char* e = nullptr; __int128 shown = 0;
	switch (c.src.draw(4)) {
	case 0: { auto v = c.src.integer<int32_t>(); shown = v; e = check_int_print(v, d); break; }
	case 1: { auto v = c.src.integer<uint32_t>(); shown = v; e = check_int_print(v, d); break; }
	case 2: { auto v = c.src.integer<int64_t>(); shown = v; e = check_int_print(v, d); break; }
	default: { auto v = c.src.integer<uint64_t>(); shown = v; e = check_int_print(v, d); break; }
	}
	c.nontrivial = shown >= 32768 || shown <= -32768;
	c.describe(refnum::dec(shown));
	if (e) c.fail(e, d);
}

VF_PROPERTY(double_print_parse, 3, "random bit patterns, powers of two and ten and their neighbours, subnormals, limits, short decimals: double text parses back bit-identically (glibc + library), is a plain literal, has no shorter round-tripping decimal; same for float; non-trivial = needs >= 16 (double) / 8 (float) significant digits or is subnormal")
{
	std::string d; const char* e;
	if (c.src.chance(3, 4)) { double x = gen_float_bits<double>(c.src); e = check_float_print(x, d); char b[40]; snprintf(b, sizeof b, "d:%a", x); c.describe(b); c.nontrivial = std::isfinite(x) && (refnum::sig_digits(Convert::ToString(x)) >= 16 || std::fpclassify(x) == FP_SUBNORMAL); }
	else { float x = gen_float_bits<float>(c.src); e = check_float_print(x, d); char b[40]; snprintf(b, sizeof b, "f:%a", static_cast<double>(x)); c.describe(b); c.nontrivial = std::isfinite(x) && (refnum::sig_digits(Convert::ToString(x)) >= 8 || std::fpclassify(x) == FP_SUBNORMAL); }
	if (e) c.fail(e, d);
}

VF_PROPERTY(parse_integer_strings, 4, "strings from an integer-literal grammar (blanks, signs, overlong digit runs, leading zeros, type limits +-1, trailing text, '.digit', exponent text, non-ASCII, embedded NUL) into all 8 integer types + long long; outcome must equal the reference (value / invalid_argument / out_of_range) and agree across char, char16_t, char32_t, wchar_t; non-trivial = has trailing text, >= 10 digits or is within 1 of a type limit")
{
	std::string s = gen_int_string(c.src); std::string d; const char* e;
	c.describe(show(s)); c.nontrivial = s.size() >= 10 || s.find_first_not_of("0123456789") != std::string::npos;
	if ((e = check_int_parse<int8_t>(s, d)) || (e = check_int_parse<uint8_t>(s, d)) || (e = check_int_parse<int16_t>(s, d)) || (e = check_int_parse<uint16_t>(s, d)) ||
		(e = check_int_parse<int32_t>(s, d)) || (e = check_int_parse<uint32_t>(s, d)) || (e = check_int_parse<int64_t>(s, d)) || (e = check_int_parse<uint64_t>(s, d)) || (e = check_int_parse<long long>(s, d)) || (e = check_int_parse<char>(s, d)))
		c.fail(e, d);
}

VF_PROPERTY(parse_float_strings, 4, "strings from a floating-literal grammar (digits/fraction/exponent in any combination, inf/nan spellings, hex, over/underflow, exact halfway cases between adjacent floats, 17/25-digit renderings of random doubles, trailing text, non-ASCII, embedded NUL) into float and double; value must be the correctly rounded one (glibc) or the documented exception; 4 string widths agree; non-trivial = has exponent, >= 16 digits, special spelling or trailing text")
{
	std::string s = gen_float_string(c.src); std::string d; const char* e;
	c.describe(show(s)); c.nontrivial = s.size() >= 16 || s.find_first_not_of("0123456789.") != std::string::npos;
	if ((e = check_float_parse<float>(s, d)) || (e = check_float_parse<double>(s, d))) c.fail(e, d);
}

// wide strings beyond Latin-1: a text in char16_t / char32_t / wchar_t must be treated exactly like its UTF-8 form in char
// (a unit such as U+0131 is not the digit '1' although its low byte is 0x31)
template <class T, class W> const char* wide_vs_utf8(const std::basic_string<W>& w, std::string& detail) {
	refutf::Scalars sc; if constexpr (sizeof(W) == 2) { if (!refutf::dec16(std::u16string(w.begin(), w.end()), sc)) return nullptr; } else sc.assign(w.begin(), w.end());
	const std::string u8 = refutf::enc8(sc); const Res<T> a = parse<T>(u8), b = parse<T>(w);
	if (a.k != b.k || (a.k == KValue && !same_bits(a.v, b.v))) { detail = vf::cat(tname<T>(), " utf8=", show(u8), " char:", a.k, a.k == KValue ? vf::cat("(", a.v, ")") : std::string(), " ", sizeof(W) * 8, "-bit:", b.k, b.k == KValue ? vf::cat("(", b.v, ")") : std::string()); return "a wide string is parsed differently from its UTF-8 form"; }
	return nullptr;
}
VF_PROPERTY(parse_wide_non_ascii, 2, "literals from the integer / float grammars in which some characters are replaced by non-ASCII code units with the same low byte (U+0131 for '1', U+012D for '-', U+4E39 for '9', U+1F431 ...), as char16_t, char32_t and wchar_t strings, into int32, uint8, int64, float and double: the outcome (value or exception class) must equal that of the UTF-8 form parsed through the char API; non-trivial = at least one unit is >= U+0100")
{
	std::string s = c.src.coin() ? gen_int_string(c.src) : gen_float_string(c.src); for (auto& ch : s) if (static_cast<unsigned char>(ch) >= 0x80 || ch == 0) ch = '7';
	std::u32string w; bool any = false; for (unsigned char ch : s) { char32_t u = ch; if (c.src.chance(1, 4)) { const uint64_t k = c.src.draw(3); u = k == 0 ? ch + 0x100u * (1 + static_cast<uint32_t>(c.src.draw(200))) : k == 1 ? ch + 0x10000u * (1 + static_cast<uint32_t>(c.src.draw(16))) : ch + 0x100u; if (u >= 0xD800 && u <= 0xDFFF) u = ch + 0x100u; any = true; } w.push_back(u); }
	c.nontrivial = any; c.describe(vf::cat(show(s), " wide=", refutf::show(w.substr(0, 12)))); std::string d; const char* e = nullptr;
	const std::u16string w16 = refutf::enc16(w); const std::wstring ww(w.begin(), w.end());
	if ((e = wide_vs_utf8<int32_t>(w, d)) || (e = wide_vs_utf8<int32_t>(w16, d)) || (e = wide_vs_utf8<int32_t>(ww, d)) || (e = wide_vs_utf8<uint8_t>(w, d)) || (e = wide_vs_utf8<uint8_t>(w16, d)) || (e = wide_vs_utf8<int64_t>(w16, d)) || (e = wide_vs_utf8<double>(w, d)) || (e = wide_vs_utf8<double>(w16, d)) || (e = wide_vs_utf8<float>(ww, d)) || (e = wide_vs_utf8<bool>(w16, d)))
		c.fail(e, d);
}

// ill-formed wide text behind (or inside) a literal: "every input string" includes strings that are not valid UTF-16 / UTF-32; such a unit is no part of
// any literal, so the outcome must be that of the same text with '?' in its place
template <class T, class W> const char* illformed_vs_ascii(const std::string& ascii, const std::basic_string<W>& w, std::string& detail) {
	const Res<T> a = parse<T>(ascii), b = parse<T>(w);
	if (a.k != b.k || (a.k == KValue && !same_bits(a.v, b.v))) { detail = vf::cat(tname<T>(), " ", sizeof(W) * 8, "-bit text with ill-formed units at the '?' of ", show(ascii), ": char text:", a.k, a.k == KValue ? vf::cat("(", a.v, ")") : std::string(), " wide text:", b.k, b.k == KValue ? vf::cat("(", b.v, ")") : std::string()); return "an ill-formed code unit behind the literal changes the outcome of the conversion"; }
	return nullptr;
}
VF_PROPERTY(parse_wide_ill_formed, 2, "literals from the integer / float grammars as char16_t / char32_t / wchar_t strings with ill-formed code units (lone high or low surrogates, a high surrogate as the very last unit, values above U+10FFFF) placed behind the literal, behind trailing text or inside it, into int32, uint8, int64, float, double and bool: the outcome (value or exception class) must equal that of the char text with '?' at these places; non-trivial = the last unit is ill-formed")
{
	std::string s = c.src.coin() ? gen_int_string(c.src) : gen_float_string(c.src); for (auto& ch : s) if (static_cast<unsigned char>(ch) >= 0x80 || ch == 0 || ch == '?') ch = '7';
	std::string ascii; std::u16string w16; std::u32string w32; bool lastBad = false;
	auto bad = [&] { ascii.push_back('?'); const uint64_t k = c.src.draw(4); const char16_t hi = static_cast<char16_t>(0xD800 + c.src.draw(0x400)), lo = static_cast<char16_t>(0xDC00 + c.src.draw(0x400));
		w16.push_back(k % 2 ? hi : lo); w32.push_back(k == 0 ? static_cast<char32_t>(lo) : k == 1 ? static_cast<char32_t>(hi) : k == 2 ? static_cast<char32_t>(0x110000 + c.src.draw(0x1000)) : static_cast<char32_t>(0xFFFFFFFFu - c.src.draw(16))); lastBad = true; };
	const size_t inside = c.src.chance(1, 3) && !s.empty() ? c.src.draw(s.size()) : s.size();
	for (size_t i = 0; i < s.size(); i++) { if (i == inside) bad(); ascii.push_back(s[i]); w16.push_back(static_cast<unsigned char>(s[i])); w32.push_back(static_cast<unsigned char>(s[i])); lastBad = false; }
	if (c.src.chance(3, 4)) { if (c.src.coin()) { ascii.push_back(' '); w16.push_back(u' '); w32.push_back(U' '); } bad(); if (c.src.chance(1, 4)) bad(); }
	if (c.src.chance(1, 5)) { ascii.push_back('x'); w16.push_back(u'x'); w32.push_back(U'x'); lastBad = false; }
	// a high surrogate followed by a low one would be a pair: keep every 16-bit offender unpaired
	for (size_t i = 0; i + 1 < w16.size(); i++) if (w16[i] >= 0xD800 && w16[i] <= 0xDBFF && w16[i + 1] >= 0xDC00 && w16[i + 1] <= 0xDFFF) w16[i + 1] = static_cast<char16_t>(0xD800 + (w16[i + 1] & 0x3FF));
	const std::wstring ww(w32.begin(), w32.end());
	c.nontrivial = lastBad; c.describe(vf::cat(show(ascii), " last16=", std::hex, w16.empty() ? 0u : static_cast<unsigned>(w16.back()))); if (lastBad && !w16.empty() && w16.back() <= 0xDBFF) c.label("ends with a high surrogate");
	std::string d; const char* e = nullptr;
	if ((e = illformed_vs_ascii<int32_t>(ascii, w16, d)) || (e = illformed_vs_ascii<int32_t>(ascii, w32, d)) || (e = illformed_vs_ascii<int32_t>(ascii, ww, d)) || (e = illformed_vs_ascii<uint8_t>(ascii, w16, d)) || (e = illformed_vs_ascii<uint8_t>(ascii, w32, d)) || (e = illformed_vs_ascii<int64_t>(ascii, w16, d))
		|| (e = illformed_vs_ascii<double>(ascii, w16, d)) || (e = illformed_vs_ascii<double>(ascii, w32, d)) || (e = illformed_vs_ascii<float>(ascii, w16, d)) || (e = illformed_vs_ascii<float>(ascii, ww, d)) || (e = illformed_vs_ascii<bool>(ascii, w16, d)) || (e = illformed_vs_ascii<bool>(ascii, w32, d)))
		c.fail(e, d);
}

// a string_view is not NUL-terminated: what follows it in memory must not influence the result
template <class T, class W> const char* subview_vs_copy(const std::basic_string<W>& s, const std::basic_string<W>& tail, std::string& detail) {
	const std::basic_string<W> buf = s + tail; const std::basic_string_view<W> sv(buf.data(), s.size()); const Res<T> a = parse<T>(s), b = parse<T>(sv);
	if (a.k != b.k || (a.k == KValue && !same_bits(a.v, b.v))) { detail = vf::cat(tname<T>(), " ", sizeof(W) * 8, "-bit text of ", s.size(), " units followed in memory by ", tail.size(), " more: own copy:", a.k, a.k == KValue ? vf::cat("(", a.v, ")") : std::string(), " sub-view:", b.k, b.k == KValue ? vf::cat("(", b.v, ")") : std::string()); return "the characters behind the end of a string_view influence the conversion"; }
	return nullptr;
}
VF_PROPERTY(parse_subviews, 2, "literals from the integer / float / bool grammars handed over as a string_view into a larger buffer whose following characters are digits, signs, exponents, letters: the outcome must equal that of an own copy of the viewed text; char and char16_t / char32_t; targets bool, int8, uint32, int64, float, double; non-trivial = the following character is a digit, '.', 'e' or a sign")
{
	std::string s; switch (c.src.draw(3)) { case 0: s = gen_int_string(c.src); break; case 1: s = gen_float_string(c.src); break; default: { static const char* b[] = { "0", "1", "true", "false", " 1", "10", "01", "TRUE", "1.", "1e", "-", "" }; s = b[c.src.draw(12)]; } }
	for (auto& ch : s) if (static_cast<unsigned char>(ch) >= 0x80 || ch == 0) ch = '7';
	static const char* tails[] = { "5", "0", ".5", "e5", "e+", "-1", "+", "x", " ", "true", "9999999999999999999", "E", ".", "1e999" }; const std::string tail = tails[c.src.draw(14)];
	c.nontrivial = !tail.empty() && (std::isdigit(static_cast<unsigned char>(tail[0])) || tail[0] == '.' || tail[0] == 'e' || tail[0] == 'E' || tail[0] == '-' || tail[0] == '+'); c.describe(vf::cat(show(s), " + ", show(tail)));
	std::string d; const char* e = nullptr; const std::u16string s16(s.begin(), s.end()), t16(tail.begin(), tail.end()); const std::u32string s32(s.begin(), s.end()), t32(tail.begin(), tail.end());
	if ((e = subview_vs_copy<bool>(s, tail, d)) || (e = subview_vs_copy<int8_t>(s, tail, d)) || (e = subview_vs_copy<uint32_t>(s, tail, d)) || (e = subview_vs_copy<int64_t>(s, tail, d)) || (e = subview_vs_copy<float>(s, tail, d)) || (e = subview_vs_copy<double>(s, tail, d))
		|| (e = subview_vs_copy<bool>(s16, t16, d)) || (e = subview_vs_copy<int64_t>(s16, t16, d)) || (e = subview_vs_copy<double>(s32, t32, d)) || (e = subview_vs_copy<bool>(s32, t32, d)) || (e = subview_vs_copy<uint32_t>(s32, t32, d)))
		c.fail(e, d);
}

VF_PROPERTY(parse_bool_strings, 1, "bool literals 0/1/true/false in any letter case with blanks, other digits, trailing text; agree across 4 widths; non-trivial = not exactly one of the four canonical spellings")
{
	static const char* W[] = { "true", "false", "0", "1", "2", "10", "01", "-1", "t", "tru", "yes", "" , "TRUE", "False", "fAlSe", "truex", "1x", "0.5", "9", "1e5", "0e-3", "1.", "1e", "0.x" };
	std::string s = HEADS[c.src.draw(8)]; std::string w = W[c.src.draw(sizeof W / sizeof *W)];
	for (auto& ch : w) if (c.src.coin()) ch = static_cast<char>(std::toupper(static_cast<unsigned char>(ch)));
	s += w; s += TAILS[c.src.draw(6)];
	c.describe(show(s)); c.nontrivial = !(s == "true" || s == "false" || s == "0" || s == "1");
	// reference
	size_t i = refnum::skip_blanks(s); std::string t = s.substr(i); std::string low; for (char ch : t) low.push_back(static_cast<char>(std::tolower(static_cast<unsigned char>(ch))));
	int expect;   // 1 true, 0 false, -1 invalid, -2 out of range
	if (!t.empty() && refnum::dig(t[0])) { size_t n = 0; while (n < t.size() && refnum::dig(t[n])) n++; expect = (n == 1 && t[0] == '1') ? 1 : (n == 1 && t[0] == '0') ? 0 : -2;
		auto at = [&](size_t k) { return k < t.size() ? t[k] : '\0'; };   // a digit continued as a floating number is not a bool literal
		if ((at(1) == '.' && refnum::dig(at(2))) || ((at(1) == 'e' || at(1) == 'E') && (refnum::dig(at(2)) || ((at(2) == '+' || at(2) == '-') && refnum::dig(at(3)))))) expect = -1; }
	else if (low.rfind("true", 0) == 0) expect = 1; else if (low.rfind("false", 0) == 0) expect = 0; else expect = -1;
	Res<bool> r = parse<bool>(s);
	std::string d = vf::cat(show(s), " -> kind=", r.k, " value=", r.v, " expected=", expect);
	if (expect >= 0 && (r.k != KValue || r.v != (expect == 1))) c.fail("bool literal not parsed", d);
	if (expect == -1 && r.k != KInvalid) c.fail("non-literal not rejected with invalid_argument", d);
	if (expect == -2 && r.k != KRange) c.fail("digit literal other than 0/1 not rejected with out_of_range", d);
	if (auto e = widths_agree<bool>(s, r, d)) c.fail(e, d);
	if (Convert::ToString(true) != "true" || Convert::ToString(false) != "false" || Convert::To<std::u16string>(true) != u"true") c.fail("bool printed wrongly", "");
}

int main(int argc, char** argv) {
	if (const char* e = refnum::selftest()) { fprintf(stderr, "ORACLE SELF-TEST FAILED: ref_num %s\n", e); return 2; }
	return vf::engine_main(argc, argv, "c16_numbers_text");
}
