// C18 (map load modes) — model of the documented MapLoadMode semantics over generated key sets:
// Clean = exactly the document; OnlyExistKeys never adds a key; UpdateKeys never removes one; values of common keys come from the document.
#include "common/models.h"
#include "common/dyn.h"
#include <set>
#include <optional>

using namespace arch;
using namespace mdl;

namespace {
// a map that carries its load mode: serialized through the library's SerializeObject(archive, map, mode) overload
template <class M> struct ModeMap : M { MapLoadMode mode = MapLoadMode::Clean; };
}
namespace BitSerializer { template <class Ar, class M> void SerializeObject(Ar& ar, ::ModeMap<M>& v) { SerializeObject(ar, static_cast<M&>(v), v.mode); } }
namespace {
template <class M> struct ModeHolder {
	int before = 7; ModeMap<M> m; int after = 9;
	template <class Ar> void Serialize(Ar& ar) { ar << KeyValue("before", before) << KeyValue("m", m) << KeyValue("after", after); }
};
template <class M> M expected(const M& doc, const M& prior, MapLoadMode mode) {
	if (mode == MapLoadMode::Clean) return doc;
	M r = prior;
	if (mode == MapLoadMode::OnlyExistKeys) { for (auto& kv : r) { auto it = doc.find(kv.first); if (it != doc.end()) kv.second = it->second; } return r; }
	for (auto& kv : doc) r[kv.first] = kv.second;
	return r;
}
template <class M> bool map_eq(const M& a, const M& b) { if (a.size() != b.size()) return false; for (auto& kv : a) { auto it = b.find(kv.first); if (it == b.end() || !mdl::eq(it->second, kv.second)) return false; } return true; }

template <class A, class M> void run(vf::Ctx& c, int archId, const char* tname) {
	GenCtx g = GenCtx::forArch(archId); g.maxLen = 5;
	Cfg cfg; cfg.stream = c.src.coin(); cfg.streamKind = cfg.stream ? gen_stream_kind(c.src, archId == MSGPACK) : 0; cfg.chunk = 1 + c.src.draw(20);
	M doc = gen<M>(c.src, g); GenCtx gp = g; gp.noEmptyContainers = false; M prior = gen<M>(c.src, gp);
	// make the key sets overlap: copy some keys of the document into the prior target (with other values) and vice versa
	for (auto& kv : doc) if (c.src.chance(1, 2)) prior[kv.first] = gen<typename M::mapped_type>(c.src, g);
	const MapLoadMode mode = static_cast<MapLoadMode>(c.src.draw(3));
	size_t common = 0, onlyPrior = 0; for (auto& kv : prior) (doc.count(kv.first) ? common : onlyPrior)++;
	c.nontrivial = mode != MapLoadMode::Clean && common > 0 && onlyPrior > 0 && doc.size() > common;
	c.describe(vf::cat(arch_name(archId), " ", tname, " mode=", static_cast<int>(mode), " doc=", mdl::show(doc), " prior=", mdl::show(prior), " ", cfg.str()));
	c.label(vf::cat("mode=", static_cast<int>(mode)));
	ModeHolder<M> src; static_cast<M&>(src.m) = doc; std::string bytes; Outcome so = save<A>(src, bytes, cfg);
	if (!so.ok()) c.fail("saving a map failed", so.str());
	ModeHolder<M> dst; dst.before = dst.after = 0; static_cast<M&>(dst.m) = prior; dst.m.mode = mode; Outcome lo = load<A>(dst, bytes, cfg);
	const std::string d = vf::cat(tname, " mode=", static_cast<int>(mode), " doc=", mdl::show(doc), " prior=", mdl::show(prior), " => ", lo.str(), " result=", mdl::show(static_cast<const M&>(dst.m)), " [", cfg.str(), "] bytes=", archId == MSGPACK ? vf::hex(bytes.substr(0, 100)) : bytes.substr(0, 200));
	if (!lo.ok()) c.fail("loading a map saved by the library failed", d);
	if (dst.before != 7 || dst.after != 9) c.fail("members around the map were disturbed", d);
	const M want = expected(doc, prior, mode);
	if (mode == MapLoadMode::OnlyExistKeys) for (auto& kv : dst.m) if (!prior.count(kv.first)) c.fail("OnlyExistKeys added a key", d);
	if (mode == MapLoadMode::UpdateKeys) for (auto& kv : prior) if (!dst.m.count(kv.first)) c.fail("UpdateKeys removed a key", d);
	if (!map_eq(static_cast<const M&>(dst.m), want)) c.fail(mode == MapLoadMode::Clean ? "Clean mode: result differs from the document (stale or lost entries)" : "map load mode result differs from the documented semantics", d + " want=" + mdl::show(want));
}
using MapSI = std::map<std::string, int>; using MapIS = std::map<int, std::string>; using UMapSI = std::unordered_map<std::string, int>; using MapSVec = std::map<std::string, std::vector<int>>; using MapSOpt = std::map<std::string, std::optional<std::string>>;
template <class A> void pick(vf::Ctx& c, int archId) {
	switch (c.src.draw(archId == XML ? 3 : 5)) {
	case 0: run<A, MapSI>(c, archId, "map<string,int>"); break; case 1: run<A, UMapSI>(c, archId, "unordered_map<string,int>"); break; case 2: run<A, MapSVec>(c, archId, "map<string,vector<int>>"); break;
	case 3: run<A, MapIS>(c, archId, "map<int,string>"); break; default: run<A, MapSOpt>(c, archId, "map<string,optional<string>>"); break;
	}
}
}

VF_PROPERTY(map_modes_msgpack, 2, "document map A, prior target B with overlapping key sets, MapLoadMode in {Clean, OnlyExistKeys, UpdateKeys}; map/unordered_map with string and int keys, nested vector / optional values; memory and streams; non-trivial = non-default mode with common keys, keys only in B and keys only in A") { pick<MsgPackArchive>(c, MSGPACK); }
VF_PROPERTY(map_modes_json, 2, "same through JSON") { pick<JsonArchive>(c, JSON); }
VF_PROPERTY(map_modes_xml, 2, "same through XML (string keys that are XML Names)") { pick<XmlArchive>(c, XML); }

// ---- sequences whose length the archive cannot announce (CSV) or announces only up to a cap (more than 4096 elements) ---------------
namespace {
struct SeqRow { int n = 0; std::string s; template <class Ar> void Serialize(Ar& ar) { ar << KeyValue("n", n) << KeyValue("s", s); } bool operator==(const SeqRow& o) const { return n == o.n && s == o.s; } };
template <class C> std::string show_rows(const C& c) { std::string r; for (auto& x : c) r += vf::cat(x.n, ":", x.s, " "); return r; }
template <class C> void run_csv_seq(vf::Ctx& c, const char* name) {
	const size_t n = 1 + c.src.draw(8), p = c.src.draw(9); std::vector<SeqRow> data; for (size_t i = 0; i < n; i++) data.push_back({ static_cast<int>(i), c.src.chance(1, 4) ? std::string() : "d" + std::to_string(c.src.draw(100)) });   // an empty cell is an empty string (loaded), not an absent value
	C prior; { std::vector<SeqRow> pr; for (size_t i = 0; i < p; i++) pr.push_back({ 1000 + static_cast<int>(i), "p" + std::to_string(i) }); prior = C(pr.begin(), pr.end()); }
	Cfg cfg; cfg.stream = c.src.coin(); std::string bytes; Cfg mem; Outcome so = save<CsvArchive>(data, bytes, mem); if (!so.ok()) c.fail("saving rows failed", so.str());
	c.nontrivial = p >= 2 && n != p; c.label(p == 0 ? "prior-empty" : p < n ? "prior-shorter" : p == n ? "prior-same" : "prior-longer"); c.describe(vf::cat("csv ", name, " data=", n, " prior=", p, " stream=", cfg.stream));
	Outcome lo = load<CsvArchive>(prior, bytes, cfg); const std::vector<SeqRow> got(prior.begin(), prior.end());
	const std::string d = vf::cat("csv ", name, " data=", n, " prior=", p, " stream=", cfg.stream, " => ", lo.str(), " loaded=", show_rows(got), " want=", show_rows(data));
	if (!lo.ok()) c.fail("loading into a populated target failed", d);
	if (!(got == data)) c.fail("loading into a populated target gives a different value than the saved one", d);
}
template <class A, class C> void run_long_seq(vf::Ctx& c, int archId, const char* name) {
	static const size_t sizes[] = { 4095, 4096, 4097, 4100, 5000, 8193 }; const size_t n = sizes[c.src.draw(6)]; static const size_t priors[] = { 0, 1, 2, 5, 4095, 4096, 4097, 6000 }; const size_t p = priors[c.src.draw(8)]; std::vector<int> data(n); for (size_t i = 0; i < n; i++) data[i] = static_cast<int>(i * 7 + c.src.draw(3));
	C prior; { std::vector<int> pr; for (size_t i = 0; i < p; i++) pr.push_back(-1 - static_cast<int>(i)); if constexpr (std::is_same_v<C, std::valarray<int>>) prior = std::valarray<int>(pr.data(), pr.size()); else prior = C(pr.begin(), pr.end()); }
	Cfg cfg; cfg.stream = c.src.coin(); std::string bytes; Cfg mem; Outcome so = save<A>(data, bytes, mem); if (!so.ok()) c.fail("saving failed", so.str());
	c.nontrivial = true; c.label(vf::cat("n=", n)); c.describe(vf::cat(arch_name(archId), " ", name, " data=", n, " prior=", p, " stream=", cfg.stream));
	Outcome lo = load<A>(prior, bytes, cfg); const std::vector<int> got(std::begin(prior), std::end(prior));
	size_t firstDiff = 0; while (firstDiff < got.size() && firstDiff < n && got[firstDiff] == data[firstDiff]) firstDiff++;
	const std::string d = vf::cat(arch_name(archId), " ", name, " data=", n, " prior=", p, " stream=", cfg.stream, " => ", lo.str(), " loaded size=", got.size(), " first difference at ", firstDiff);
	if (!lo.ok()) c.fail("loading into a populated target failed", d);
	if (got != data) c.fail("loading into a populated target gives a different value than the saved one", d);
}
}
// values that cannot be loaded (null into a non-nullable mapped type, a mismatching value under the Skip policy): the documented invariants of
// the load modes must still hold - UpdateKeys never removes a key, OnlyExistKeys never adds one - and loadable entries behave as usual
namespace {
template <class A> void run_unloadable(vf::Ctx& c, int archId) {
	using M = std::map<std::string, int>; const bool viaNull = c.src.coin();
	std::map<std::string, std::optional<int>> docN; std::map<std::string, std::string> docS; M prior; std::set<std::string> bad;
	for (size_t n = 1 + c.src.draw(5), i = 0; i < n; i++) { const std::string k = "k" + std::to_string(c.src.draw(8)); const bool unloadable = c.src.chance(1, 2); const int v = static_cast<int>(c.src.draw(1000)); if (unloadable) bad.insert(k); else bad.erase(k); docN[k] = unloadable ? std::nullopt : std::optional<int>(v); docS[k] = unloadable ? "text" : std::to_string(v); }
	for (size_t n = c.src.draw(6), i = 0; i < n; i++) prior["k" + std::to_string(c.src.draw(8))] = -1 - static_cast<int>(c.src.draw(100));
	const MapLoadMode mode = static_cast<MapLoadMode>(c.src.draw(3)); Cfg cfg; cfg.stream = c.src.coin(); cfg.opt.mismatchedTypesPolicy = MismatchedTypesPolicy::Skip;
	// the document is built as a dynamic tree: {before:7, m:{key: int | null | string}, after:9}
	std::vector<std::pair<refmp::Val, refmp::Val>> mm; for (auto& kv : docS) mm.push_back({ refmp::mkStr(kv.first), bad.count(kv.first) ? (viaNull ? refmp::mkNil() : refmp::mkStr("text")) : refmp::mkInt(std::stoi(kv.second)) });
	std::string bytes; Cfg mem; Outcome so = dyn::save<A>(refmp::mkMap({ { refmp::mkStr("before"), refmp::mkInt(7) }, { refmp::mkStr("m"), refmp::mkMap(mm) }, { refmp::mkStr("after"), refmp::mkInt(9) } }), bytes, mem);
	if (!so.ok()) c.fail("saving a map failed", so.str());
	bool priorHitsBad = false; for (auto& kv : prior) if (bad.count(kv.first)) priorHitsBad = true; c.nontrivial = priorHitsBad && mode != MapLoadMode::Clean; c.label(vf::cat("mode=", static_cast<int>(mode))); c.describe(vf::cat(arch_name(archId), " unloadable ", viaNull ? "null" : "mismatch", " mode=", static_cast<int>(mode), " doc keys=", docN.size(), " bad=", bad.size(), " prior=", mdl::show(prior), " stream=", cfg.stream));
	ModeHolder<M> dst; dst.before = dst.after = 0; static_cast<M&>(dst.m) = prior; dst.m.mode = mode; Outcome lo = load<A>(dst, bytes, cfg);
	std::string docShow; for (auto& kv : docS) docShow += kv.first + "=" + (bad.count(kv.first) ? "<unloadable>" : kv.second) + " ";
	const std::string d = vf::cat(arch_name(archId), viaNull ? " null" : " mismatch+Skip", " mode=", static_cast<int>(mode), " doc{", docShow, "} prior=", mdl::show(prior), " => ", lo.str(), " result=", mdl::show(static_cast<M&>(dst.m)), " stream=", cfg.stream);
	if (!lo.ok()) c.fail("loading a map whose unloadable values are skippable failed", d);
	if (dst.before != 7 || dst.after != 9) c.fail("members around the map were not loaded", d);
	const M& got = dst.m;
	if (mode == MapLoadMode::UpdateKeys) for (auto& kv : prior) { auto it = got.find(kv.first); if (it == got.end()) c.fail("MapLoadMode::UpdateKeys removed a key", vf::cat("key ", kv.first, " | ", d)); else if (!docS.count(kv.first) && it->second != kv.second) c.fail("MapLoadMode::UpdateKeys changed a value the document does not mention", d); }
	if (mode == MapLoadMode::OnlyExistKeys) { for (auto& kv : got) if (!prior.count(kv.first)) c.fail("MapLoadMode::OnlyExistKeys added a key", vf::cat("key ", kv.first, " | ", d)); if (got.size() != prior.size()) c.fail("MapLoadMode::OnlyExistKeys changed the key set", d); }
	for (auto& kv : docS) if (!bad.count(kv.first)) { const bool expectPresent = mode != MapLoadMode::OnlyExistKeys || prior.count(kv.first); auto it = got.find(kv.first); if (expectPresent && (it == got.end() || it->second != std::stoi(kv.second))) c.fail("a loadable entry next to an unloadable one is lost or wrong", vf::cat("key ", kv.first, " | ", d)); }
	if (mode == MapLoadMode::Clean) for (auto& kv : got) if (!docS.count(kv.first)) c.fail("MapLoadMode::Clean kept a key that is not in the document", vf::cat("key ", kv.first, " | ", d));
}
}
VF_PROPERTY(map_modes_unloadable_values, 2, "maps whose document holds values that cannot be loaded (null into int; a string under the Skip policy) next to loadable ones, prior targets with overlapping keys, all three load modes, MessagePack and JSON, memory and streams: UpdateKeys never removes or alters an unmentioned key, OnlyExistKeys never adds one, Clean keeps no foreign key, loadable entries arrive; non-trivial = an unloadable value hits an existing key under a non-default mode") { if (c.src.coin()) run_unloadable<MsgPackArchive>(c, MSGPACK); else run_unloadable<JsonArchive>(c, JSON); }
VF_PROPERTY(reload_csv_sequences, 3, "CSV (the archive that cannot announce a row count): 1..8 rows loaded into a vector / deque / list / forward_list already holding 0..8 other rows: the result is exactly the saved rows in order; memory and stream; non-trivial = prior length >= 2 and different from the data length") {
	switch (c.src.draw(4)) { case 0: run_csv_seq<std::vector<SeqRow>>(c, "vector"); break; case 1: run_csv_seq<std::deque<SeqRow>>(c, "deque"); break; case 2: run_csv_seq<std::list<SeqRow>>(c, "list"); break; default: run_csv_seq<std::forward_list<SeqRow>>(c, "forward_list"); }
}
VF_PROPERTY(reload_long_sequences, 1, "arrays of 4095 .. 8193 integers (around and beyond the 4096-element cap of the size estimate) loaded through MessagePack and JSON into a vector / deque / list / forward_list holding 0, 1, 2, 5, 4095, 4096, 4097 or 6000 other elements (also valarray): the result is exactly the saved sequence; non-trivial = always") {
	const bool mp = c.src.coin();
	switch (c.src.draw(5)) {
	case 4: if (mp) run_long_seq<MsgPackArchive, std::valarray<int>>(c, MSGPACK, "valarray"); else run_long_seq<JsonArchive, std::valarray<int>>(c, JSON, "valarray"); break;
	case 0: if (mp) run_long_seq<MsgPackArchive, std::vector<int>>(c, MSGPACK, "vector"); else run_long_seq<JsonArchive, std::vector<int>>(c, JSON, "vector"); break;
	case 1: if (mp) run_long_seq<MsgPackArchive, std::deque<int>>(c, MSGPACK, "deque"); else run_long_seq<JsonArchive, std::deque<int>>(c, JSON, "deque"); break;
	case 2: if (mp) run_long_seq<MsgPackArchive, std::list<int>>(c, MSGPACK, "list"); else run_long_seq<JsonArchive, std::list<int>>(c, JSON, "list"); break;
	default: if (mp) run_long_seq<MsgPackArchive, std::forward_list<int>>(c, MSGPACK, "forward_list"); else run_long_seq<JsonArchive, std::forward_list<int>>(c, JSON, "forward_list");
	}
}

// null elements inside sequences: a null is "not loaded"; whatever the loader does with such an element, the result must not depend on what
// the target held before (oracle: the same document loaded into a default-constructed target)
namespace {
using refmp::Val;
template <class C> std::string seq_str(const C& c) { std::string r; for (const auto& x : c) r += vf::cat(static_cast<long long>(x), " "); return r; }
template <class A, class C> void run_null_seq(vf::Ctx& c, int archId, const char* name, bool kf66Witness) {
	using T = typename C::value_type; constexpr bool isBool = std::is_same_v<T, bool>;
	const size_t n = 1 + c.src.draw(6); std::vector<Val> doc; std::vector<bool> nullAt(n, false); bool anyNull = false;
	for (size_t i = 0; i < n; i++) { if (c.src.chance(1, 3) || (kf66Witness && i == 0)) { nullAt[i] = true; anyNull = true; doc.push_back(refmp::mkNil()); } else if (isBool) doc.push_back(refmp::mkBool(c.src.coin())); else doc.push_back(refmp::mkInt(static_cast<int64_t>(c.src.draw(1000)))); }
	std::string bytes; Cfg mem; Outcome so = dyn::save<A>(refmp::mkArr(doc), bytes, mem); if (!so.ok()) c.fail("saving the document failed", so.str());
	Cfg cfg; cfg.stream = c.src.coin(); cfg.streamKind = cfg.stream ? gen_stream_kind(c.src, archId == MSGPACK) : 0; cfg.chunk = 1 + c.src.draw(20);
	C prior; for (size_t k = kf66Witness ? n : c.src.draw(9); k > 0; k--) { if constexpr (isBool) prior.push_back(kf66Witness ? true : c.src.coin()); else prior.push_back(static_cast<T>(7000 + k)); }
	C fresh{}, pop = prior; Outcome of = load<A>(fresh, bytes, cfg), op = load<A>(pop, bytes, cfg);
	c.nontrivial = anyNull && !prior.empty(); c.describe(vf::cat(arch_name(archId), " ", name, " doc=", refmp::show(refmp::mkArr(doc)).substr(0, 120), " prior=", prior.size(), " ", cfg.str()));
	const std::string d = vf::cat(arch_name(archId), " ", name, " doc=", refmp::show(refmp::mkArr(doc)), " prior=[", seq_str(prior), "] [", cfg.str(), "] fresh => ", of.str(), " [", seq_str(fresh), "] populated => ", op.str(), " [", seq_str(pop), "]");
	if (of.ok() != op.ok()) c.fail("loading into a populated target ends differently from loading into a fresh one", d);
	if (!of.ok()) return;
	if (fresh.size() != pop.size()) c.fail("loading into a populated target gives another length than into a fresh one (stale or lost elements)", d);
	bool staleAtNull = false; auto a = fresh.begin(); auto b = pop.begin();
	for (size_t i = 0; a != fresh.end(); ++a, ++b, ++i) { if (*a == *b) continue; if (!isBool && i < n && nullAt[i]) { staleAtNull = true; continue; } c.fail("loading into a populated target gives another value than into a fresh one (a stale element survives or a loaded one is lost)", vf::cat("element ", i, " | ", d)); }
	if (staleAtNull) { if (kf66Witness) c.fail("KF-66: a null element of an array leaves the old element of a populated sequence in place", d); c.label("excluded:KF-66-null-element-keeps-the-old-element"); }
}
template <class A> void pick_null_seq(vf::Ctx& c, int archId) {
	switch (c.src.draw(5)) { case 0: case 1: run_null_seq<A, std::vector<bool>>(c, archId, "vector<bool>", false); break; case 2: run_null_seq<A, std::vector<int>>(c, archId, "vector<int>", false); break; case 3: run_null_seq<A, std::list<int>>(c, archId, "list<int>", false); break; default: run_null_seq<A, std::deque<int>>(c, archId, "deque<int>", false); }
}
}
VF_PROPERTY(reload_sequences_with_null_elements, 2, "arrays of booleans / integers in which any subset of elements is null (MessagePack nil, JSON null), loaded into vector<bool>, vector<int>, list<int>, deque<int> holding 0..8 other elements, memory / streams / file: same outcome, same length and same elements as loading the document into a default-constructed target; the recorded finding KF-66 (generic containers keep the OLD element at a null position) is excluded by construction and counted; non-trivial = a null element and a non-empty prior target")
{ if (c.src.coin()) pick_null_seq<MsgPackArchive>(c, MSGPACK); else pick_null_seq<JsonArchive>(c, JSON); }
VF_PROPERTY(kf66_null_element_keeps_stale, 1, "witness of KF-66") { if (c.src.coin()) run_null_seq<JsonArchive, std::vector<int>>(c, JSON, "vector<int>", true); else run_null_seq<MsgPackArchive, std::list<int>>(c, MSGPACK, "list<int>", true); }

VF_MAIN("c18_map_modes")
