// C08 (XML half) — what the XML archive writes is well-formed XML for an independent parser (libxml2), which recovers the same infoset
// (element names, nesting, order, text, attributes); and any standard rendering of the same infoset (entity / character references,
// CDATA, attribute quote style, child order of objects, inter-element white space, declaration, encoding, BOM) loads to the same value.
#include "common/dyn.h"
#include "common/models.h"
#include "ref/ref_utf.h"
#include <libxml/parser.h>
#include <libxml/tree.h>
#include <cmath>
#include <cstdio>
#include <cstring>

using namespace arch;
using refmp::Val; using RT = refmp::T; using refutf::Scalars;
using mdl::GenCtx; using mdl::gen_text; using mdl::gen_key;

namespace {

// ---- expected infoset ------------------------------------------------------------------------------------------------------------
struct El { std::string name; std::vector<std::pair<std::string, std::string>> attrs; bool leaf = true; RT kind = RT::Str; std::string text; double d = 0; float f = 0; std::vector<El> kids; bool isArray = false; };
std::string num_text(const Val& v) { return v.t == RT::Int ? std::to_string(v.i) : std::to_string(v.u); }
El el_of(const std::string& name, const Val& v) {
	El e; e.name = name; e.kind = v.t;
	switch (v.t) {
	case RT::Str: e.text = v.s; break; case RT::Int: case RT::UInt: e.text = num_text(v); break; case RT::Bool: e.text = v.b ? "true" : "false"; break; case RT::F64: e.d = v.d; break; case RT::F32: e.f = v.f; break;
	case RT::Arr: e.leaf = false; e.isArray = true; for (auto& c : v.arr) e.kids.push_back(el_of(c.t == RT::Arr ? "array" : c.t == RT::Map ? "object" : "value", c)); break;
	default: e.leaf = false; for (auto& kv : v.map) e.kids.push_back(el_of(kv.first.s, kv.second)); break;
	}
	return e;
}

// ---- generators ------------------------------------------------------------------------------------------------------------------
double gen_f64(vf::Src& s) {
	double x;
	switch (s.draw(6)) { case 0: { uint64_t b = s.draw(0); memcpy(&x, &b, 8); break; } case 1: x = static_cast<double>(static_cast<long long>(s.draw(2001)) - 1000) / 8; break;
	case 2: { const double sp[] = { 0.0, -0.0, 2.2250738585072014e-308, 5e-324, 1.7976931348623157e308, -1.7976931348623157e308, 0.1, 1.0 / 3, 1e15, -2.5e-7, 1e21, 1e22, 1e23, 123456789012345680.0 }; x = sp[s.draw(14)]; break; }
	case 3: x = static_cast<double>(s.integer<int64_t>()); break; case 4: x = std::ldexp(static_cast<double>(1 + s.draw(1 << 20)), static_cast<int>(s.range(-1070, 1000))); break; default: x = static_cast<double>(static_cast<long long>(s.draw(200001)) - 100000) / 1000; }
	if (!std::isfinite(x)) x = 0.25; return x;
}
Val gen_leaf(vf::Src& s, const GenCtx& g) {
	switch (s.draw(9)) { case 0: return refmp::mkBool(s.coin()); case 1: return refmp::mkInt(s.integer<int64_t>()); case 2: return refmp::mkUInt(s.integer<uint64_t>()); case 3: return refmp::mkF64(gen_f64(s));
	case 4: { float f; switch (s.draw(3)) { case 0: { uint32_t b = static_cast<uint32_t>(s.draw(0)); memcpy(&f, &b, 4); break; } case 1: f = std::nextafter(static_cast<float>(s.draw(100000)) / 8, 1e30f); break; default: f = static_cast<float>(static_cast<long long>(s.draw(2000001)) - 1000000) / 1000; } if (!std::isfinite(f)) f = 0.25f; return refmp::mkF32(f); }
	default: return refmp::mkStr(refutf::enc8(gen_text(s, g, 10))); }
}
Val gen_tree(vf::Src& s, const GenCtx& g, int depth, size_t& keyIdx, bool mustContainer) {
	if (!mustContainer && (depth <= 0 || s.chance(2, 5))) return gen_leaf(s, g);
	if (s.coin()) { std::vector<Val> a; for (size_t n = 1 + s.len(4); n > 0; n--) a.push_back(gen_tree(s, g, depth - 1, keyIdx, false)); return refmp::mkArr(a); }
	std::vector<std::pair<Val, Val>> m; for (size_t n = 1 + s.len(4); n > 0; n--) { std::string k = gen_key(s, g, keyIdx++); m.push_back({ refmp::mkStr(k), gen_tree(s, g, depth - 1, keyIdx, false) }); } return refmp::mkMap(m);
}
int depth_of(const Val& v) { int d = 0; for (auto& c : v.arr) d = std::max(d, depth_of(c)); for (auto& kv : v.map) d = std::max(d, depth_of(kv.second)); return (v.t == RT::Arr || v.t == RT::Map) ? d + 1 : 0; }
bool has_markup(const Val& v) { if (v.t == RT::Str) for (unsigned char ch : v.s) if (ch == '<' || ch == '>' || ch == '&' || ch == '"' || ch == '\'' || ch >= 0x80 || ch == '\n' || ch == '\t') return true; for (auto& c : v.arr) if (has_markup(c)) return true; for (auto& kv : v.map) if (has_markup(kv.second)) return true; return false; }

// typed record with attributes
struct Rec {
	std::string a; int64_t n = 0; std::vector<std::string> items; double d = 0; std::string label; int32_t id = 0; bool flag = false; double ratio = 0; float weight = 0;
	template <class A> void Serialize(A& ar) { ar << AttributeValue("id", id) << AttributeValue("label", label) << AttributeValue("flag", flag) << AttributeValue("ratio", ratio) << AttributeValue("weight", weight) << KeyValue("a", a) << KeyValue("n", n) << KeyValue("items", items) << KeyValue("d", d); }
	bool operator==(const Rec& o) const { return a == o.a && n == o.n && items == o.items && memcmp(&d, &o.d, 8) == 0 && label == o.label && id == o.id && flag == o.flag && memcmp(&ratio, &o.ratio, 8) == 0 && memcmp(&weight, &o.weight, 4) == 0; }
};
Rec gen_rec(vf::Src& s, const GenCtx& g) { Rec r; r.a = refutf::enc8(gen_text(s, g, 10)); r.n = s.integer<int64_t>(); for (size_t n = 1 + s.len(3); n > 0; n--) r.items.push_back(refutf::enc8(gen_text(s, g, 8))); r.d = gen_f64(s); r.label = refutf::enc8(gen_text(s, g, 10)); r.id = s.integer<int32_t>(); r.flag = s.coin(); r.ratio = gen_f64(s); if (r.ratio == 0) r.ratio = 0.5; { float f; switch (s.draw(3)) { case 0: { uint32_t b = static_cast<uint32_t>(s.draw(0)); memcpy(&f, &b, 4); break; } case 1: f = 1.0f / static_cast<float>(1 + s.draw(1000)); break; default: f = static_cast<float>(s.draw(20000000)) + 0.5f; } if (!std::isfinite(f) || f == 0) f = 0.25f; r.weight = f; } return r; }
El el_of_rec(const Rec& r) {
	El e; e.name = "object"; e.leaf = false; { char b1[40], b2[40]; snprintf(b1, sizeof b1, "%.17g", r.ratio); snprintf(b2, sizeof b2, "%.9g", static_cast<double>(r.weight)); e.attrs = { { "id", std::to_string(r.id) }, { "label", r.label }, { "flag", r.flag ? "true" : "false" }, { "ratio", std::string("\x02" "d") + b1 }, { "weight", std::string("\x02" "f") + b2 } }; }
	El a; a.name = "a"; a.text = r.a; El n; n.name = "n"; n.kind = RT::Int; n.text = std::to_string(r.n); El it; it.name = "items"; it.leaf = false; it.isArray = true; for (auto& x : r.items) { El v; v.name = "value"; v.text = x; it.kids.push_back(v); } El d; d.name = "d"; d.kind = RT::F64; d.d = r.d;
	e.kids = { a, n, it, d }; return e;
}
std::string rec_str(const Rec& r) { return vf::cat("{ratio=", r.ratio, " weight=", r.weight, " id=", r.id, " label=", vf::hex(r.label), " flag=", r.flag, " a=", vf::hex(r.a), " n=", r.n, " items=", r.items.size(), " d=", r.d, "}"); }

// ---- byte level --------------------------------------------------------------------------------------------------------------------
bool decode_stream(const std::string& bytes, int enc, bool bom, std::string& utf8, std::string& why) {
	std::string body = bytes; const std::string b = refutf::bom_bytes(enc);
	if (bom) { if (body.compare(0, b.size(), b) != 0) { why = "BOM missing or wrong"; return false; } body.erase(0, b.size()); }
	else if (enc == refutf::U8 && body.compare(0, 3, "\xEF\xBB\xBF") == 0) { why = "BOM written although writeBom=false"; return false; }
	Scalars sc;
	if (enc == refutf::U8) { if (!refutf::dec8(body, sc)) { why = "not well-formed UTF-8"; return false; } }
	else if (enc == refutf::U16LE || enc == refutf::U16BE) { if (body.size() % 2) { why = "odd byte count"; return false; } std::u16string u; for (size_t i = 0; i < body.size(); i += 2) { unsigned a = static_cast<unsigned char>(body[i]), c = static_cast<unsigned char>(body[i + 1]); u.push_back(static_cast<char16_t>(enc == refutf::U16LE ? (a | (c << 8)) : ((a << 8) | c))); } if (!refutf::dec16(u, sc)) { why = "not well-formed UTF-16"; return false; } }
	else { if (body.size() % 4) { why = "byte count not a multiple of 4"; return false; } for (size_t i = 0; i < body.size(); i += 4) { uint32_t a = static_cast<unsigned char>(body[i]), b2 = static_cast<unsigned char>(body[i + 1]), c = static_cast<unsigned char>(body[i + 2]), d = static_cast<unsigned char>(body[i + 3]); uint32_t u = enc == refutf::U32LE ? (a | (b2 << 8) | (c << 16) | (d << 24)) : ((a << 24) | (b2 << 16) | (c << 8) | d); if (!refutf::is_scalar(u)) { why = "not a Unicode scalar value"; return false; } sc.push_back(u); } }
	utf8 = refutf::enc8(sc); return true;
}

// ---- libxml2 side ----------------------------------------------------------------------------------------------------------------
void quiet(void*, const char*, ...) {}
char g_pad = ' ';   // padding character of the configuration under test (white space of pretty documents: LF and this character only)
struct Doc { xmlDocPtr p = nullptr; ~Doc() { if (p) xmlFreeDoc(p); } };
bool parse_xml(const std::string& utf8, Doc& doc) { doc.p = xmlReadMemory(utf8.data(), static_cast<int>(utf8.size()), "doc.xml", "UTF-8", XML_PARSE_NONET | XML_PARSE_NOERROR | XML_PARSE_NOWARNING); return doc.p != nullptr; }
bool blank(const std::string& s) { for (char ch : s) if (ch != ' ' && ch != '\t' && ch != '\n' && ch != '\r') return false; return true; }
bool number_grammar(const std::string& t) { size_t i = 0; if (i < t.size() && t[i] == '-') i++; size_t d0 = i; while (i < t.size() && isdigit(static_cast<unsigned char>(t[i]))) i++; if (i == d0) return false; if (i < t.size() && t[i] == '.') { i++; size_t d1 = i; while (i < t.size() && isdigit(static_cast<unsigned char>(t[i]))) i++; if (i == d1) return false; } if (i < t.size() && (t[i] == 'e' || t[i] == 'E')) { i++; if (i < t.size() && (t[i] == '+' || t[i] == '-')) i++; size_t d2 = i; while (i < t.size() && isdigit(static_cast<unsigned char>(t[i]))) i++; if (i == d2) return false; } return i == t.size(); }
bool same_infoset(xmlNode* n, const El& e, bool wsAllowed, std::string& why, const std::string& path) {
	auto fail = [&](const std::string& w) { why = path + "/" + e.name + ": " + w; return false; };
	if (n->type != XML_ELEMENT_NODE || e.name != reinterpret_cast<const char*>(n->name)) return fail(vf::cat("element is named '", reinterpret_cast<const char*>(n->name), "'"));
	size_t nAttr = 0; for (xmlAttr* a = n->properties; a; a = a->next) nAttr++; if (nAttr != e.attrs.size()) return fail(vf::cat("has ", nAttr, " attributes, expected ", e.attrs.size()));
	for (auto& kv : e.attrs) { xmlChar* p = xmlGetProp(n, reinterpret_cast<const xmlChar*>(kv.first.c_str())); std::string got = p ? reinterpret_cast<const char*>(p) : "\x01<missing>"; if (p) xmlFree(p); if (kv.second.size() > 2 && kv.second[0] == '\x02') { const bool isD = kv.second[1] == 'd'; const std::string w = kv.second.substr(2); if (!number_grammar(got)) return fail("numeric attribute " + kv.first + " is not a decimal number: [" + got + "]"); if (isD ? strtod(got.c_str(), nullptr) != strtod(w.c_str(), nullptr) : strtof(got.c_str(), nullptr) != strtof(w.c_str(), nullptr)) return fail(vf::cat("numeric attribute ", kv.first, " = [", got, "] is not ", w)); continue; }
		if (got != kv.second) return fail(vf::cat("attribute ", kv.first, " = [", vf::hex(got), "] expected [", vf::hex(kv.second), "]")); }
	std::string text; std::vector<xmlNode*> kids;
	for (xmlNode* c = n->children; c; c = c->next) { if (c->type == XML_ELEMENT_NODE) kids.push_back(c); else if (c->type == XML_TEXT_NODE || c->type == XML_CDATA_SECTION_NODE) text += reinterpret_cast<const char*>(c->content ? c->content : BAD_CAST ""); else return fail("unexpected node type"); }
	if (e.leaf) {
		if (!kids.empty()) return fail("a scalar element has child elements");
		switch (e.kind) {
		case RT::F64: { if (!number_grammar(text)) return fail("floating value is not a decimal number: [" + text + "]"); const double d = strtod(text.c_str(), nullptr); if (memcmp(&d, &e.d, 8) != 0 && !(d == 0 && e.d == 0)) return fail(vf::cat("floating value [", text, "] is not ", e.d)); return true; }
		case RT::F32: { if (!number_grammar(text)) return fail("float value is not a decimal number: [" + text + "]"); const float f = strtof(text.c_str(), nullptr); if (memcmp(&f, &e.f, 4) != 0 && !(f == 0 && e.f == 0)) return fail(vf::cat("float value [", text, "] is not ", e.f)); return true; }
		default: if (text != e.text) return fail(vf::cat("text [", vf::hex(text.substr(0, 60)), "] expected [", vf::hex(e.text.substr(0, 60)), "]")); return true;
		}
	}
	if (!blank(text)) return fail("a container element has character data: [" + vf::hex(text.substr(0, 40)) + "]"); if (!text.empty() && !wsAllowed) return fail("white space between elements of a compact document"); for (char ch : text) if (ch != '\n' && ch != g_pad) return fail("pretty output uses white space other than LF and the configured padding character");
	if (kids.size() != e.kids.size()) return fail(vf::cat("has ", kids.size(), " child elements, expected ", e.kids.size()));
	for (size_t k = 0; k < kids.size(); k++) if (!same_infoset(kids[k], e.kids[k], wsAllowed, why, path + "/" + e.name)) return false;
	return true;
}
// object members may come in any order (used for the self-check of permuted renderings)
bool same_infoset_unordered(xmlNode* n, const El& e, std::string& why) {
	if (e.leaf || e.isArray) { if (e.leaf) return same_infoset(n, e, true, why, ""); std::vector<xmlNode*> kids; for (xmlNode* c = n->children; c; c = c->next) if (c->type == XML_ELEMENT_NODE) kids.push_back(c); if (kids.size() != e.kids.size()) { why = "child count"; return false; } for (size_t k = 0; k < kids.size(); k++) if (!same_infoset_unordered(kids[k], e.kids[k], why)) return false; return true; }
	std::vector<xmlNode*> kids; for (xmlNode* c = n->children; c; c = c->next) if (c->type == XML_ELEMENT_NODE) kids.push_back(c); if (kids.size() != e.kids.size()) { why = "child count"; return false; }
	for (auto& want : e.kids) { xmlNode* f = nullptr; for (auto* k : kids) if (want.name == reinterpret_cast<const char*>(k->name)) f = k; if (!f) { why = "member missing: " + want.name; return false; } if (!same_infoset_unordered(f, want, why)) return false; }
	for (auto& kv : e.attrs) { xmlChar* p = xmlGetProp(n, reinterpret_cast<const xmlChar*>(kv.first.c_str())); std::string got = p ? reinterpret_cast<const char*>(p) : "\x01"; if (p) xmlFree(p); if (kv.second.size() > 2 && kv.second[0] == '\x02') { const std::string w = kv.second.substr(2); if (kv.second[1] == 'd' ? strtod(got.c_str(), nullptr) != strtod(w.c_str(), nullptr) : strtof(got.c_str(), nullptr) != strtof(w.c_str(), nullptr)) { why = "numeric attribute " + kv.first; return false; } continue; } if (got != kv.second) { why = "attribute " + kv.first; return false; } }
	return true;
}

// ---- free-choice emitter ---------------------------------------------------------------------------------------------------------
std::string esc(vf::Src& s, const std::string& u8, bool attr, char q, int style) {
	Scalars sc; refutf::dec8(u8, sc); std::string o; char b[24];
	for (char32_t cp : sc) {
		const bool must = cp == '<' || cp == '&' || (attr && cp == static_cast<char32_t>(q)) || (attr && (cp == '\n' || cp == '\t')) || (!attr && cp == '>');   // '>' only needs it after "]]", escaping it always is legal
		const bool e = must || style == 2 || (style == 1 && s.chance(1, 5));
		if (!e) { refutf::enc8_one(cp, o); continue; }
		const bool named = s.coin();
		if (named && cp == '<') o += "&lt;"; else if (named && cp == '&') o += "&amp;"; else if (named && cp == '>') o += "&gt;"; else if (named && cp == '"') o += "&quot;"; else if (named && cp == '\'') o += "&apos;";
		else { const int m = static_cast<int>(s.draw(3)); snprintf(b, sizeof b, m == 0 ? "&#%u;" : m == 1 ? "&#x%X;" : "&#x%x;", static_cast<unsigned>(cp)); o += b; }
	}
	return o;
}
void emit_ws(vf::Src& s, std::string& o, bool on) { if (!on) return; static const char* w[] = { "", "\n", "\n  ", "\t", " ", "\r\n", "\n\n\t\t" }; o += w[s.draw(7)]; }
std::string spell_double(vf::Src& s, double d) { char b[400]; switch (s.draw(4)) { case 0: snprintf(b, sizeof b, "%.17g", d); break; case 1: snprintf(b, sizeof b, "%.16e", d); break; case 2: snprintf(b, sizeof b, "%.20E", d); break; default: snprintf(b, sizeof b, "%.22g", d); } return b; }
void emit(vf::Src& s, const El& e, std::string& o, int style, bool permute, bool ws) {
	o += "<" + e.name; std::vector<size_t> ai(e.attrs.size()); for (size_t k = 0; k < ai.size(); k++) ai[k] = k; if (permute) for (size_t k = ai.size(); k > 1; --k) std::swap(ai[k - 1], ai[s.draw(k)]);
	for (size_t k : ai) { const char q = s.coin() ? '"' : '\''; std::string av = e.attrs[k].second; if (av.size() > 2 && av[0] == '\x02') av = av.substr(2); o += (s.chance(1, 4) ? "\n " : " ") + e.attrs[k].first + (s.chance(1, 6) ? " = " : "=") + q + esc(s, av, true, q, style) + q; }
	if (s.chance(1, 6)) o += " "; o += ">";
	if (e.leaf) {
		std::string text = e.kind == RT::F64 ? spell_double(s, e.d) : e.text;
		if (e.kind == RT::F32) { char b[64]; snprintf(b, sizeof b, s.coin() ? "%.9g" : "%.8e", static_cast<double>(e.f)); text = b; }
		if (e.kind == RT::Str && text.find("]]>") == std::string::npos && s.chance(1, 5)) o += "<![CDATA[" + text + "]]>"; else o += esc(s, text, false, 0, style);
	}
	else { std::vector<size_t> idx(e.kids.size()); for (size_t k = 0; k < idx.size(); k++) idx[k] = k; if (permute && !e.isArray) for (size_t k = idx.size(); k > 1; --k) std::swap(idx[k - 1], idx[s.draw(k)]); for (size_t k : idx) { emit_ws(s, o, ws); emit(s, e.kids[k], o, style, permute, ws); } emit_ws(s, o, ws); }
	o += "</" + e.name + (s.chance(1, 8) ? " " : "") + ">";
}
// XML 1.0 4.3.3 / appendix F: without a BOM only UTF-8 may omit the declaration; other encodings are auto-detected from the leading "<?xml"
std::string emit_doc(vf::Src& s, const El& root, int style, bool permute, bool ws, int enc, bool forceDecl) {
	std::string o; int decl = static_cast<int>(s.draw(4)); if (forceDecl && (decl == 0 || (decl == 2 && enc != refutf::U8 && enc != refutf::U16LE && enc != refutf::U16BE))) decl = 1; const char* encName = enc == refutf::U8 ? "UTF-8" : (enc == refutf::U16LE || enc == refutf::U16BE) ? "UTF-16" : nullptr;
	if (decl == 1) o += "<?xml version=\"1.0\"?>"; else if (decl == 2 && encName) o += vf::cat("<?xml version='1.0' encoding='", encName, "'?>\n"); else if (decl == 3) o += encName ? vf::cat("<?xml version=\"1.0\" encoding=\"", s.coin() && enc == refutf::U8 ? "utf-8" : encName, "\" standalone=\"yes\"?>\r\n") : std::string("<?xml version=\"1.0\" standalone='yes' ?>");
	emit_ws(s, o, ws && decl != 0); emit(s, root, o, style, permute, ws); emit_ws(s, o, ws); return o;
}
bool same_loaded(const Val& got, const Val& want) {
	if (want.t == RT::F64 && got.t == RT::F64) return memcmp(&got.d, &want.d, 8) == 0 || (got.d == 0 && want.d == 0);
	if (want.t == RT::F32 && got.t == RT::F32) return memcmp(&got.f, &want.f, 4) == 0 || (got.f == 0 && want.f == 0);
	if (want.t == RT::Arr) { if (got.t != RT::Arr || got.arr.size() != want.arr.size()) return false; for (size_t i = 0; i < want.arr.size(); i++) if (!same_loaded(got.arr[i], want.arr[i])) return false; return true; }
	if (want.t == RT::Map) { if (got.t != RT::Map || got.map.size() != want.map.size()) return false; for (size_t i = 0; i < want.map.size(); i++) { if (got.map[i].first.s != want.map[i].first.s || got.map[i].second.fmt == 0xc1 || !same_loaded(got.map[i].second, want.map[i].second)) return false; } return true; }
	return refmp::same(got, want);
}
struct Init { Init() { xmlInitParser(); xmlSetGenericErrorFunc(nullptr, quiet); } } g_init;

void forward_check(vf::Ctx& c, const std::string& bytes, const Cfg& cfg, const El& want, const std::string& d0, std::string& textOut) {
	std::string text, why; g_pad = cfg.opt.formatOptions.paddingChar;
	if (cfg.stream) { if (!decode_stream(bytes, static_cast<int>(cfg.opt.streamOptions.encoding), cfg.opt.streamOptions.writeBom, text, why)) c.fail("the stream is not encoded as configured", vf::cat(why, " bytes=", vf::hex(bytes.substr(0, 120)), " | ", d0)); }
	else { text = bytes; if (!refutf::valid8(text)) c.fail("the in-memory document is not well-formed UTF-8", vf::cat(vf::hex(bytes.substr(0, 120)), " | ", d0)); if (text.compare(0, 3, "\xEF\xBB\xBF") == 0) c.fail("the in-memory document starts with a BOM", d0); }
	const std::string d = vf::cat("text=", text.substr(0, 500), " | ", d0);
	Doc doc; if (!parse_xml(text, doc)) { const xmlError* e = xmlGetLastError(); c.fail("an independent XML parser rejects the document", vf::cat(e && e->message ? e->message : "?", " | ", d)); }
	xmlNode* root = xmlDocGetRootElement(doc.p); if (!root) c.fail("an independent XML parser rejects the document", vf::cat("no root element | ", d));
	if (!same_infoset(root, want, cfg.opt.formatOptions.enableFormat, why, "")) c.fail("an independent XML parser recovers a different infoset", vf::cat(why, " | ", d));
	textOut = text;
}

} // namespace

VF_PROPERTY(xml_forward, 5, "dynamic trees (depth <= 3; root object or array; keys = XML Names incl. non-ASCII; strings = XML Chars incl. markup characters, quotes, TAB/LF, non-BMP; bool, int64/uint64, finite doubles; nested arrays / objects) x {compact, pretty x padding char x 1..8} x {memory, stream x 5 encodings x BOM}; oracle: bytes decode strictly per the configured encoding/BOM, libxml2 accepts the text and yields the same element names, order, nesting and text (numbers by value); compact output has no inter-element white space; non-trivial = text with markup / non-ASCII characters, or depth >= 3, or a non-default configuration") {
	Cfg cfg = gen_cfg(c.src, XML); GenCtx g = GenCtx::forArch(XML); size_t keyIdx = 0; const Val v = gen_tree(c.src, g, 3, keyIdx, true);
	c.nontrivial = has_markup(v) || depth_of(v) >= 3 || cfg.stream || cfg.opt.formatOptions.enableFormat;
	c.describe(vf::cat("xml fwd ", refmp::show(v).substr(0, 200), " [", cfg.str(), "]")); if (cfg.stream) c.label(vf::cat("enc=", refutf::enc_name(static_cast<int>(cfg.opt.streamOptions.encoding)), cfg.opt.streamOptions.writeBom ? "+bom" : "-bom")); if (cfg.opt.formatOptions.enableFormat) c.label("pretty");
	std::string bytes; Outcome so = dyn::save<XmlArchive>(v, bytes, cfg); const std::string d0 = vf::cat(refmp::show(v).substr(0, 300), " [", cfg.str(), "]");
	if (!so.ok()) c.fail("saving a representable tree failed", vf::cat(so.str(), " | ", d0));
	std::string text; forward_check(c, bytes, cfg, el_of(v.t == RT::Arr ? "array" : "root", v), d0, text);
}

VF_PROPERTY(xml_forward_attributes, 3, "arrays of typed records with three attributes (int, string, bool) and four members (string, int64, vector<string>, double): libxml2 recovers attribute names and values (after attribute-value normalisation) and members; same configurations; non-trivial = an attribute value holds a markup character, quote, TAB or LF") {
	Cfg cfg = gen_cfg(c.src, XML); GenCtx g = GenCtx::forArch(XML); std::vector<Rec> recs; for (size_t n = 1 + c.src.len(3); n > 0; n--) recs.push_back(gen_rec(c.src, g));
	bool special = false; for (auto& r : recs) for (unsigned char ch : r.label) if (ch == '<' || ch == '&' || ch == '"' || ch == '\'' || ch == '\n' || ch == '\t') special = true; c.nontrivial = special;
	c.describe(vf::cat("xml attrs ", rec_str(recs[0]).substr(0, 200), " n=", recs.size(), " [", cfg.str(), "]"));
	std::string bytes; Outcome so = save<XmlArchive>(recs, bytes, cfg); const std::string d0 = vf::cat(rec_str(recs[0]), " n=", recs.size(), " [", cfg.str(), "]");
	if (!so.ok()) c.fail("saving a representable tree failed", vf::cat(so.str(), " | ", d0));
	El root; root.name = "array"; root.leaf = false; root.isArray = true; for (auto& r : recs) root.kids.push_back(el_of_rec(r));
	std::string text; forward_check(c, bytes, cfg, root, d0, text);
}

VF_PROPERTY(xml_converse, 5, "the infoset of the same trees rendered by an independent emitter: predefined entities or decimal / hex character references for any character, whole-value CDATA sections, '>' raw or escaped, permuted members of objects, white space between elements (SP, HT, LF, CRLF), four declaration variants (none / version / encoding / standalone), closing tags with a trailing blank; in memory or as a stream in 5 encodings with or without BOM; each emitted document is first checked with libxml2 (self-check); oracle: loading into a target of the tree's shape yields the same tree; non-trivial = references, CDATA, a permutation or a non-UTF-8 encoding was used") {
	GenCtx g = GenCtx::forArch(XML); Cfg cfg; cfg.stream = c.src.coin(); cfg.streamKind = cfg.stream ? static_cast<int>(c.src.draw(4)) : 0; cfg.chunk = 1 + c.src.draw(40);
	const int enc = cfg.stream ? static_cast<int>(c.src.draw(5)) : 0; const bool bom = cfg.stream && c.src.coin();
	size_t keyIdx = 0; const Val v = gen_tree(c.src, g, 3, keyIdx, true); const El root = el_of(v.t == RT::Arr ? "array" : "root", v);
	const int style = static_cast<int>(c.src.draw(3)); const bool permute = c.src.coin(); const bool ws = c.src.coin();
	const std::string text = emit_doc(c.src, root, style, permute, ws, enc, cfg.stream && !bom && enc != refutf::U8);
	Doc doc; std::string why; if (!parse_xml(text, doc)) { const xmlError* e = xmlGetLastError(); c.fail("self-check: the reference emitter produced a document libxml2 rejects", vf::cat(e && e->message ? e->message : "?", " | ", text.substr(0, 400))); }
	if (!same_infoset_unordered(xmlDocGetRootElement(doc.p), root, why)) c.fail("self-check: the reference emitter produced a document with another infoset", vf::cat(why, " | ", text.substr(0, 400)));
	c.nontrivial = style != 0 || permute || enc != 0; c.label(vf::cat("enc=", refutf::enc_name(enc), bom ? "+bom" : (cfg.stream ? "-bom" : "/mem"))); if (permute) c.label("permuted"); if (text.find("<![CDATA[") != std::string::npos) c.label("cdata");
	c.describe(vf::cat("xml conv ", text.substr(0, 160), " [", cfg.str(), " enc=", enc, " bom=", bom, "]"));
	std::string bytes; if (cfg.stream) { Scalars sc; refutf::dec8(text, sc); bytes = (bom ? refutf::bom_bytes(enc) : std::string()) + refutf::enc_bytes(sc, enc); } else bytes = text;
	Val target = dyn::shape(v); dyn::LoadLog lg; Outcome lo = dyn::load<XmlArchive>(target, bytes, cfg, &lg);
	const std::string d = vf::cat("text=", text.substr(0, 600), " | value=", refmp::show(v).substr(0, 300), " [", cfg.str(), " enc=", refutf::enc_name(enc), " bom=", bom, "] => ", lo.str(), " loaded=", refmp::show(target).substr(0, 300));
	if (!lo.ok()) c.fail("a standard rendering of the data is rejected", d);
	if (!same_loaded(target, v)) c.fail("a standard rendering of the data loads to a different value", d);
	if (lg.arraysLong || lg.arraysShort || lg.notLoaded) c.fail("a standard rendering of the data loads incompletely", vf::cat("notLoaded=", lg.notLoaded, " | ", d));
}

VF_PROPERTY(xml_converse_attributes, 3, "typed records with attributes rendered by the independent emitter (either quote style, permuted attributes and members, character references incl. TAB / LF inside attribute values, blanks around '='): loads to equal records; non-trivial = always") {
	GenCtx g = GenCtx::forArch(XML); Cfg cfg; cfg.stream = c.src.coin(); cfg.streamKind = cfg.stream ? static_cast<int>(c.src.draw(4)) : 0; cfg.chunk = 1 + c.src.draw(40);
	const int enc = cfg.stream ? static_cast<int>(c.src.draw(5)) : 0; const bool bom = cfg.stream && c.src.coin();
	std::vector<Rec> recs; for (size_t n = 1 + c.src.len(3); n > 0; n--) recs.push_back(gen_rec(c.src, g));
	El root; root.name = "array"; root.leaf = false; root.isArray = true; for (auto& r : recs) root.kids.push_back(el_of_rec(r));
	const int style = static_cast<int>(c.src.draw(3)); const bool permute = c.src.coin(); const bool ws = c.src.coin();
	const std::string text = emit_doc(c.src, root, style, permute, ws, enc, cfg.stream && !bom && enc != refutf::U8);
	Doc doc; std::string why; if (!parse_xml(text, doc)) { const xmlError* e = xmlGetLastError(); c.fail("self-check: the reference emitter produced a document libxml2 rejects", vf::cat(e && e->message ? e->message : "?", " | ", text.substr(0, 400))); }
	if (!same_infoset_unordered(xmlDocGetRootElement(doc.p), root, why)) c.fail("self-check: the reference emitter produced a document with another infoset", vf::cat(why, " | ", text.substr(0, 400)));
	c.nontrivial = true; c.describe(vf::cat("xml conv attrs ", text.substr(0, 160), " [", cfg.str(), " enc=", enc, " bom=", bom, "]"));
	std::string bytes; if (cfg.stream) { Scalars sc; refutf::dec8(text, sc); bytes = (bom ? refutf::bom_bytes(enc) : std::string()) + refutf::enc_bytes(sc, enc); } else bytes = text;
	std::vector<Rec> got; Outcome lo = load<XmlArchive>(got, bytes, cfg);
	const std::string d = vf::cat("text=", text.substr(0, 700), " [", cfg.str(), " enc=", refutf::enc_name(enc), " bom=", bom, "] => ", lo.str(), " loaded=", got.empty() ? std::string("-") : rec_str(got[0]), " want=", rec_str(recs[0]));
	if (!lo.ok()) c.fail("a standard rendering of the data is rejected", d);
	if (!(got == recs)) c.fail("a standard rendering of the data loads to a different value", d);
}

VF_PROPERTY(xml_empty_root_array, 1, "the empty root array (the one empty container XML can carry, cf. KF-12) as any standard emitter renders it: <array/>, <array></array> or start and end tag separated by white space only (SP, HT, LF, CRLF), with or without declaration, comment and trailing line break: loads as an empty vector<string> / vector<int> / list<double> from memory and streams; white space in element-only content is not data; non-trivial = white space between the tags") {
	Cfg cfg; cfg.stream = c.src.coin(); cfg.streamKind = cfg.stream ? static_cast<int>(c.src.draw(4)) : 0; cfg.chunk = 1 + c.src.draw(40);
	static const char* wsu[] = { " ", "\t", "\n", "\r\n", "  ", "\n\t" }; std::string ws; for (size_t n = c.src.len(4); n > 0; n--) ws += wsu[c.src.draw(6)];
	const int form = static_cast<int>(c.src.draw(3)); std::string text;
	if (c.src.coin()) text += c.src.coin() ? "<?xml version=\"1.0\"?>" : "<?xml version=\"1.0\" encoding=\"UTF-8\"?>\n";
	if (c.src.chance(1, 4)) text += "<!-- empty -->";
	text += form == 0 ? (ws.empty() ? std::string("<array/>") : "<array" + ws + "/>") : form == 1 ? std::string("<array></array>") : "<array>" + ws + "</array>";
	if (c.src.coin()) text += "\n";
	Doc doc; if (!parse_xml(text, doc)) c.fail("self-check: the reference emitter produced a document libxml2 rejects", text);
	{ xmlNode* r = xmlDocGetRootElement(doc.p); for (xmlNode* k = r ? r->children : nullptr; k; k = k->next) if (k->type == XML_ELEMENT_NODE) c.fail("self-check: the document is not an empty array", text); }
	c.nontrivial = form == 2 && !ws.empty(); const int tk = static_cast<int>(c.src.draw(3)); c.describe(vf::cat("xml empty root array form=", form, " ws=", vf::hex(ws), " target=", tk, " [", cfg.str(), "]"));
	size_t n = 0; Outcome lo;
	if (tk == 0) { std::vector<std::string> t{ "stale" }; lo = load<XmlArchive>(t, text, cfg); n = t.size(); }
	else if (tk == 1) { std::vector<int> t{ 1, 2 }; lo = load<XmlArchive>(t, text, cfg); n = t.size(); }
	else { std::list<double> t{ 0.5 }; lo = load<XmlArchive>(t, text, cfg); n = t.size(); }
	const std::string d = vf::cat("text=", text, " target=", tk == 0 ? "vector<string>" : tk == 1 ? "vector<int>" : "list<double>", " [", cfg.str(), "] => ", lo.str(), " elements=", n);
	if (!lo.ok()) c.fail("a standard rendering of the data is rejected", d);
	if (n != 0) c.fail("a standard rendering of the data loads to a different value", d);
}

VF_MAIN("c08_xml")
