// C11 (archive part) — string values and keys of any width inside archives are transcoded exactly.
// A record with std::string / std::u16string / std::u32string / std::wstring values, sequences of them and maps keyed by them is
// saved to MessagePack (decoded by the independent ref_msgpack decoder: every string must be exactly the UTF-8 form of the text)
// and to JSON, and loaded back; both error policies.  Texts: all planes, U+0000, U+FFFF, U+10FFFF, BOM-like values, lengths 0..40.
#include "common/arch.h"
#include "ref/ref_utf.h"
#include "ref/ref_msgpack.h"
#include "bitserializer/types/std/vector.h"
#include "bitserializer/types/std/map.h"

using namespace arch;
using refutf::Scalars; using refmp::Val; using RT = refmp::T;

namespace {
Scalars gen_text(vf::Src& s, bool allowNul) {
	Scalars t; const size_t n = s.len(40);
	for (size_t i = 0; i < n; i++) {
		char32_t c;
		switch (s.draw(8)) { case 0: c = static_cast<char32_t>(s.range(0x20, 0x7E)); break; case 1: c = static_cast<char32_t>(s.range(0x80, 0x7FF)); break; case 2: c = static_cast<char32_t>(s.range(0x800, 0xFFFF)); break; case 3: c = static_cast<char32_t>(s.range(0x10000, 0x10FFFF)); break;
		case 4: { static const char32_t m[] = { 0x0, 0x7F, 0x80, 0x7FF, 0x800, 0xD7FF, 0xE000, 0xFFFF, 0x10000, 0x10FFFF, 0xFEFF, 0xFFFE, 0x1D800, 0x2DC00, 0x10DFFF, 0xFC00 }; c = m[s.draw(16)]; break; }
		default: c = static_cast<char32_t>(s.range(0x41, 0x5A)); }
		if (c >= 0xD800 && c <= 0xDFFF) c = U'x'; if (c == 0 && !allowNul) c = U'0'; t.push_back(c);
	}
	return t;
}
struct Rec {
	std::string s8; std::u16string s16; std::u32string s32; std::wstring sw; std::vector<std::u16string> v16; std::vector<std::wstring> vw; std::map<std::u16string, int> m16; std::map<std::u32string, int> m32; std::map<std::wstring, std::u32string> mw;
	template <class A> void Serialize(A& a) { a << KeyValue("s8", s8) << KeyValue("s16", s16) << KeyValue("s32", s32) << KeyValue("sw", sw) << KeyValue("v16", v16) << KeyValue("vw", vw) << KeyValue("m16", m16) << KeyValue("m32", m32) << KeyValue("mw", mw); }
	bool operator==(const Rec& o) const { return s8 == o.s8 && s16 == o.s16 && s32 == o.s32 && sw == o.sw && v16 == o.v16 && vw == o.vw && m16 == o.m16 && m32 == o.m32 && mw == o.mw; }
};
std::wstring to_w(const Scalars& t) { return std::wstring(t.begin(), t.end()); }
const Val* member(const Val& m, const std::string& key) { for (auto& kv : m.map) if (kv.first.t == RT::Str && kv.first.s == key) return &kv.second; return nullptr; }
}

VF_PROPERTY(archive_strings, 1, "record with string values of 4 widths, sequences of UTF-16 / wide strings and maps keyed by UTF-16 / UTF-32 / wide strings (keys NUL-free, values with U+0000), texts over all planes incl. range boundaries and code points whose low 16 bits look like surrogates; MessagePack bytes decoded by the reference decoder must hold exactly the UTF-8 form of every value and key; MessagePack and JSON load back to the same record; both error policies, memory and streams; non-trivial = a value contains U+0000 or a supplementary-plane character") {
	const Scalars t8 = gen_text(c.src, true), t16 = gen_text(c.src, true), t32 = gen_text(c.src, true), tw = gen_text(c.src, true);
	Rec r; r.s8 = refutf::enc8(t8); r.s16 = refutf::enc16(t16); r.s32 = t32; r.sw = to_w(tw);
	std::vector<Scalars> tv16, tvw; for (size_t n = c.src.len(3); n > 0; n--) { tv16.push_back(gen_text(c.src, true)); r.v16.push_back(refutf::enc16(tv16.back())); } for (size_t n = c.src.len(3); n > 0; n--) { tvw.push_back(gen_text(c.src, true)); r.vw.push_back(to_w(tvw.back())); }
	std::vector<Scalars> k16, k32, kw, vwv; for (size_t n = c.src.len(3), i = 0; i < n; i++) { Scalars k = gen_text(c.src, false); k.push_back(U'a' + static_cast<char32_t>(i)); k16.push_back(k); r.m16[refutf::enc16(k)] = static_cast<int>(i); }
	for (size_t n = c.src.len(3), i = 0; i < n; i++) { Scalars k = gen_text(c.src, false); k.push_back(U'a' + static_cast<char32_t>(i)); k32.push_back(k); r.m32[k] = static_cast<int>(i); }
	for (size_t n = c.src.len(3), i = 0; i < n; i++) { Scalars k = gen_text(c.src, false); k.push_back(U'a' + static_cast<char32_t>(i)); Scalars v = gen_text(c.src, true); kw.push_back(k); vwv.push_back(v); r.mw[to_w(k)] = v; }
	bool nt = false; for (auto* t : { &t8, &t16, &t32, &tw }) for (char32_t ch : *t) if (ch == 0 || ch >= 0x10000) nt = true; c.nontrivial = nt;
	Cfg cfg; cfg.stream = c.src.coin(); cfg.opt.utfEncodingErrorPolicy = c.src.coin() ? Convert::Utf::UtfEncodingErrorPolicy::Skip : Convert::Utf::UtfEncodingErrorPolicy::ThrowError;
	c.describe(vf::cat("archive strings s16=", refutf::show(t16.substr(0, 8)), " sw=", refutf::show(tw.substr(0, 8)), " stream=", cfg.stream, " pol=", static_cast<int>(cfg.opt.utfEncodingErrorPolicy)));
	// MessagePack: what is written
	std::string bytes; Outcome so = save<MsgPackArchive>(r, bytes, cfg); if (!so.ok()) c.fail("saving valid text failed", vf::cat("msgpack: ", so.str()));
	Val doc; try { doc = refmp::Decoder::document(bytes, true); } catch (const std::exception& e) { c.fail("the saved document is not well-formed MessagePack", e.what()); }
	auto expectStr = [&](const Val* v, const Scalars& want, const char* what) { if (!v || v->t != RT::Str || v->s != refutf::enc8(want)) c.fail("a string value inside an archive is not the exact UTF-8 form of the text", vf::cat(what, " text=", refutf::show(want), " saved=", v ? vf::hex(v->s) : std::string("<missing>"), " want=", vf::hex(refutf::enc8(want)))); };
	expectStr(member(doc, "s8"), t8, "std::string"); expectStr(member(doc, "s16"), t16, "std::u16string"); expectStr(member(doc, "s32"), t32, "std::u32string"); expectStr(member(doc, "sw"), tw, "std::wstring");
	if (const Val* a = member(doc, "v16")) { if (a->t != RT::Arr || a->arr.size() != tv16.size()) c.fail("a string value inside an archive is not the exact UTF-8 form of the text", "v16 size"); for (size_t i = 0; i < tv16.size(); i++) expectStr(&a->arr[i], tv16[i], "vector<u16string> element"); }
	if (const Val* a = member(doc, "vw")) { if (a->t != RT::Arr || a->arr.size() != tvw.size()) c.fail("a string value inside an archive is not the exact UTF-8 form of the text", "vw size"); for (size_t i = 0; i < tvw.size(); i++) expectStr(&a->arr[i], tvw[i], "vector<wstring> element"); }
	auto expectKeys = [&](const Val* m, const std::vector<Scalars>& keys, const char* what) { if (!m || m->t != RT::Map || m->map.size() != keys.size()) c.fail("a string key inside an archive is not the exact UTF-8 form of the text", vf::cat(what, " size")); for (auto& k : keys) { bool found = false; for (auto& kv : m->map) if (kv.first.t == RT::Str && kv.first.s == refutf::enc8(k)) found = true; if (!found) c.fail("a string key inside an archive is not the exact UTF-8 form of the text", vf::cat(what, " key ", refutf::show(k))); } };
	expectKeys(member(doc, "m16"), k16, "map<u16string,...>"); expectKeys(member(doc, "m32"), k32, "map<u32string,...>"); expectKeys(member(doc, "mw"), kw, "map<wstring,...>");
	if (const Val* m = member(doc, "mw")) for (size_t i = 0; i < kw.size(); i++) for (auto& kv : m->map) if (kv.first.s == refutf::enc8(kw[i])) expectStr(&kv.second, vwv[i], "map<wstring,u32string> value");
	// load back
	{ Rec l; Outcome lo = load<MsgPackArchive>(l, bytes, cfg); if (!lo.ok() || !(l == r)) c.fail("strings do not survive the archive round trip", vf::cat("msgpack ", lo.str(), " s16 ", l.s16 == r.s16, " s32 ", l.s32 == r.s32, " sw ", l.sw == r.sw, " s8 ", l.s8 == r.s8)); }
	{ std::string js; Cfg jc = cfg; Outcome s2 = save<JsonArchive>(r, js, jc); if (!s2.ok()) c.fail("saving valid text failed", vf::cat("json: ", s2.str())); Rec l; Outcome lo = load<JsonArchive>(l, js, jc); if (!lo.ok() || !(l == r)) c.fail("strings do not survive the archive round trip", vf::cat("json ", lo.str(), " s16 ", l.s16 == r.s16, " s32 ", l.s32 == r.s32, " sw ", l.sw == r.sw, " maps ", l.m16 == r.m16 && l.m32 == r.m32 && l.mw == r.mw)); }
}

VF_MAIN("c11_archive_strings")
