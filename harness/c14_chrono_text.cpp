// C14 — ISO-8601 text of time points and durations is calendar-correct and parses back exactly
// (also through the MsgPack binary timestamp).  Oracle: ref_calendar (Rata-Die in __int128, cross-checked with glibc).
#include "engine.h"
#include "ref/ref_calendar.h"
#include "bitserializer/bit_serializer.h"
#include "bitserializer/msgpack_archive.h"
#include "bitserializer/types/std/chrono.h"
#include "bitserializer/types/std/ctime.h"
#include "bitserializer/rapidjson_archive.h"
#include "bitserializer/pugixml_archive.h"
#include "bitserializer/csv_archive.h"
#include "bitserializer/types/std/vector.h"
#include <chrono>

using namespace BitSerializer;
using namespace std::chrono;
using refcal::i128;

namespace {

template <class Rep> using dur_ns = duration<Rep, std::nano>;
template <class Rep> using dur_us = duration<Rep, std::micro>;
template <class Rep> using dur_ms = duration<Rep, std::milli>;
template <class Rep> using dur_s = duration<Rep, std::ratio<1>>;
template <class Rep> using dur_min = duration<Rep, std::ratio<60>>;
template <class Rep> using dur_h = duration<Rep, std::ratio<3600>>;
template <class Rep> using dur_d = duration<Rep, std::ratio<86400>>;

template <class D> constexpr int frac_digits() { return D::period::den == 1 ? 0 : D::period::den == 1000 ? 3 : D::period::den == 1000000 ? 6 : 9; }
template <class D> std::string dname() {
	const char* p = D::period::den == 1000000000 ? "ns" : D::period::den == 1000000 ? "us" : D::period::den == 1000 ? "ms" : D::period::num == 1 ? "s" : D::period::num == 60 ? "min" : D::period::num == 3600 ? "h" : "days";
	return vf::cat(p, "/i", sizeof(typename D::rep) * 8);
}

// Recorded finding KF-27: instants within the first day of the range of a 64-bit time_point print correctly but their text cannot be
// parsed back ("Target timepoint range is not enough": the parser adds the whole days last, which alone underflow the type).
template <class D> bool near_range_end(i128 count) {
#ifdef NO_EXCL
	return false;
#endif
	using R = typename D::rep;
	const i128 lo = std::numeric_limits<R>::min();
	const i128 ticksPerDay = static_cast<i128>(86400) * D::period::den / D::period::num;
	return count - lo < (ticksPerDay > 0 ? ticksPerDay : 1);
}
// Recorded finding KF-33 (what is left of it after the fixes d6c75fd = KF-63 and f35247f = KF-64, which repaired the printer): a day-precision
// 64-bit time point in the last 400-year era of the range prints correctly, but the parser rejects its text (`era > INT64_MAX / 146097`,
// although era * 146097 + day-of-era - 719468 fits): the mirror image of KF-27 at the other end of the range.
template <class D> bool beyond_printable(i128 count) {
#ifdef NO_EXCL
	return false;
#endif
	if (sizeof(typename D::rep) < 8 || D::period::num != 86400) return false;
	return count + 719468 >= (static_cast<i128>(INT64_MAX) / 146097 + 1) * 146097;
}
// Coarse 64-bit time points (minutes, hours, days) whose seconds since the epoch do not fit int64 (years beyond +-292 billion) print and
// parse like any other, but are outside what the MsgPack timestamp can carry: saving them must be reported as Overflow.
template <class D> bool beyond_timestamp(i128 count) {
	const i128 secs = count * D::period::num / D::period::den;
	return secs > static_cast<i128>(INT64_MAX) || secs < static_cast<i128>(INT64_MIN);
}

template <class D> const char* check_tp(i128 count, std::string& detail) {
	using TP = time_point<system_clock, D>; using R = typename D::rep;
	TP tp{ D(static_cast<R>(count)) };
	const std::string want = refcal::print_instant(count, D::period::num, D::period::den, frac_digits<D>());
	std::string text;
	try { text = Convert::ToString(tp); }
	catch (const std::exception& e) { detail = vf::cat(dname<D>(), " count=", refcal::i128s(count), " want=", want, " threw ", e.what()); return "printing a representable time point throws"; }
	detail = vf::cat(dname<D>(), " count=", refcal::i128s(count), " text=", text, " want=", want);
	if (text != want) return "time point text is not the correct proleptic Gregorian UTC date-time";
	try {
		TP back = Convert::To<TP>(text);
		if (back != tp) { detail += vf::cat(" parsed=", refcal::i128s(back.time_since_epoch().count())); return "time point text parses back to a different instant"; }
		TP back16 = Convert::To<TP>(Convert::To<std::u16string>(tp)); if (back16 != tp) return "UTF-16 time point text does not parse back";
	}
	catch (const std::exception& e) { detail += vf::cat(" parse threw ", e.what()); return "time point text does not parse back (exception)"; }
	return nullptr;
}

template <class D> const char* check_duration(i128 count, std::string& detail) {
	using R = typename D::rep; D d(static_cast<R>(count));
	std::string text;
	try { text = Convert::ToString(d); }
	catch (const std::exception& e) { detail = vf::cat(dname<D>(), " count=", refcal::i128s(count), " threw ", e.what()); return "printing a representable duration throws"; }
	detail = vf::cat(dname<D>(), " count=", refcal::i128s(count), " text=", text);
	i128 ns = 0; if (!refcal::parse_duration_ns(text, ns)) return "duration text is not a well-formed ISO-8601 duration [-]PnDTnHnMnS";
	const i128 wantNs = count * D::period::num * 1000000000 / D::period::den;
	if (ns != wantNs) { detail += vf::cat(" denotes ", refcal::i128s(ns), "ns want ", refcal::i128s(wantNs)); return "duration text denotes a different duration"; }
	try { D back = Convert::To<D>(text); if (back != d) { detail += vf::cat(" parsed=", refcal::i128s(back.count())); return "duration text parses back to a different duration"; }
		D back32 = Convert::To<D>(Convert::To<std::u32string>(d)); if (back32 != d) return "UTF-32 duration text does not parse back"; }
	catch (const std::exception& e) { detail += vf::cat(" parse threw ", e.what()); return "duration text does not parse back (exception)"; }
	return nullptr;
}

// MsgPack passage: value -> timestamp ext -> value
template <class V> const char* check_msgpack(const V& v, std::string& detail, bool fitsTimestamp = true) {
	if (!fitsTimestamp) {
		try { std::string bytes = SaveObject<MsgPack::MsgPackArchive>(v); detail += " msgpack=" + vf::hex(bytes); return "a value that does not fit the timestamp was saved without error"; }
		catch (const SerializationException& e) { return e.GetErrorCode() == SerializationErrorCode::Overflow ? nullptr : "wrong error code for a value that does not fit the MsgPack timestamp"; }
	}
	try {
		std::string bytes = SaveObject<MsgPack::MsgPackArchive>(v);
		V back{}; LoadObject<MsgPack::MsgPackArchive>(back, bytes);
		if (back != v) { detail += " msgpack=" + vf::hex(bytes); return "value changes when passed through the MsgPack timestamp"; }
		std::istringstream is(bytes); V back2{}; LoadObject<MsgPack::MsgPackArchive>(back2, is);
		if (back2 != v) return "value changes when passed through the MsgPack timestamp (stream)";
	}
	catch (const std::exception& e) { detail += vf::cat(" msgpack threw ", e.what()); return "MsgPack timestamp passage throws for a representable value"; }
	return nullptr;
}

template <class D> void sweep_days(vf::SweepCtx& c, long long firstYear, long long lastYear, i128 tickOffset) {
	using R = typename D::rep;
	const i128 d0 = refcal::days_from_civil(firstYear, 1, 1), d1 = refcal::days_from_civil(lastYear, 12, 31);
	const i128 ticksPerDay = static_cast<i128>(86400) * D::period::den / D::period::num;
	for (i128 day = d0; day <= d1; day++) {
		if (c.skip(static_cast<uint64_t>(day - d0), [&] { return vf::cat(dname<D>(), ":day", refcal::i128s(day)); })) continue;
		i128 count = ticksPerDay > 0 ? day * ticksPerDay + tickOffset % ticksPerDay : day;   // days precision: one tick per day
		if (count < static_cast<i128>(std::numeric_limits<R>::min()) || count > static_cast<i128>(std::numeric_limits<R>::max())) continue;
		if (near_range_end<D>(count)) continue;
		std::string d; const char* e = check_tp<D>(count, d); c.evaluations++;
		if (day < 0 || day > 2932896) c.nontrivial++;   // before 1970 or after 9999
		if (e) c.fail(e, vf::cat(dname<D>(), ":day", refcal::i128s(day)), d);
	}
}

template <class D> void sweep_seconds_of_day(vf::SweepCtx& c, long long y, int m, int d) {
	const i128 day = refcal::days_from_civil(y, m, d); const i128 tps = D::period::den / D::period::num;
	for (int s = 0; s < 86400; s++) {
		if (c.skip(static_cast<uint64_t>(s), [&] { return vf::cat(dname<D>(), ":", y, "-", m, "-", d, "+", s); })) continue;
		i128 count = (day * 86400 + s) * tps + (tps > 1 ? (s * 7919) % tps : 0);
		std::string dd; const char* e = check_tp<D>(count, dd); c.evaluations++; c.nontrivial++;
		if (e) c.fail(e, vf::cat(dname<D>(), ":", y, "-", m, "-", d, "+", s), dd);
	}
}

// Counts are built inside the domain by construction: [lo, hi] is the range of the representation, narrowed for time points to what the
// recorded findings KF-27 / KF-33 leave (a small share of cases is still drawn from the excluded zones so that exclusions are counted).
template <class D> i128 gen_count(vf::Src& s, bool forTimePoint = false) {
	using R = typename D::rep; i128 lo = std::numeric_limits<R>::min(), hi = std::numeric_limits<R>::max();
	if (forTimePoint && !s.chance(1, 24)) {
		const i128 ticksPerDay = static_cast<i128>(86400) * D::period::den / D::period::num;
		if (sizeof(R) == 8 && D::period::num > 1) { const i128 l2 = static_cast<i128>(INT64_MIN) / D::period::num + 1, h2 = static_cast<i128>(INT64_MAX) / D::period::num - 1; if (l2 > lo) lo = l2; if (h2 < hi) hi = h2; }
		lo += ticksPerDay > 0 ? ticksPerDay : 1;
	}
	auto clamp = [&](i128 c) { return c < lo ? lo : c > hi ? hi : c; };
	switch (s.draw(6)) {
	case 0: return clamp(static_cast<i128>(s.integer<R>()));
	case 1: return lo + static_cast<i128>(s.draw(20000));
	case 2: return hi - static_cast<i128>(s.draw(20000));
	case 3: { // around interesting calendar days
		static const long long ys[] = { -10000, -1, 0, 1, 4, 100, 400, 1582, 1600, 1677, 1678, 1900, 1969, 1970, 1972, 2000, 2038, 2100, 2262, 2263, 2400, 9999, 10000, 20000, 292277026596LL, -292277022657LL };
		long long y = ys[s.draw(sizeof ys / sizeof *ys)]; int m = s.coin() ? 2 : static_cast<int>(s.range(1, 12)); int d = m == 2 ? static_cast<int>(s.range(27, refcal::dim(y, 2))) : static_cast<int>(s.range(1, refcal::dim(y, m)));
		i128 secs = refcal::days_from_civil(y, m, d) * 86400 + static_cast<i128>(s.draw(86400));
		i128 c = refcal::fdiv(secs * D::period::den, D::period::num) + static_cast<i128>(s.draw(static_cast<uint64_t>(D::period::den > 1 ? D::period::den : 1)));
		if (c < lo) return lo + static_cast<i128>(s.draw(1000)); if (c > hi) return hi - static_cast<i128>(s.draw(1000)); return c; }
	case 4: return clamp(static_cast<i128>(static_cast<int64_t>(s.draw(200001)) - 100000));
	default: return clamp(static_cast<i128>(static_cast<R>(s.draw(0))));
	}
}

// history: an earlier conversion that was rejected (in any string width) must leave nothing behind for the next one
inline void rejected_conversion_before(vf::Ctx& c) {
	if (!c.src.chance(1, 5)) return; c.label("after-a-rejected-conversion");
	static const char* bad[] = { "2024-02-31T10:30:00Z", "2024-13-01T00:00:00Z", "P1X", "PT", "2024-01-01T25:00:00Z", "not a date", "2024-01-01T00:00:00.1234567890Z" };
	const std::string s = bad[c.src.draw(7)]; const uint64_t w = c.src.draw(4);
	try { if (w == 0) (void)Convert::To<time_point<system_clock, seconds>>(s); else if (w == 1) (void)Convert::To<time_point<system_clock, seconds>>(std::u16string(s.begin(), s.end())); else if (w == 2) (void)Convert::To<time_point<system_clock, milliseconds>>(std::u32string(s.begin(), s.end())); else (void)Convert::To<seconds>(std::wstring(s.begin(), s.end())); } catch (const std::exception&) { }
}
template <class D> void prop_tp(vf::Ctx& c) {
	rejected_conversion_before(c);
	i128 count = gen_count<D>(c.src, true);
	c.describe(vf::cat("tp ", dname<D>(), " ", refcal::i128s(count)));
	if (near_range_end<D>(count) || beyond_printable<D>(count)) { c.label(near_range_end<D>(count) ? "excluded:KF-27-range-end" : "excluded:KF-33-last-era-of-days"); c.discard("KF-33"); }
	const i128 secs = refcal::fdiv(count * D::period::num, D::period::den);
	c.nontrivial = secs < 0 || secs >= 253402300800LL;
	std::string d; if (const char* e = check_tp<D>(count, d)) c.fail(e, d);
	time_point<system_clock, D> tp{ D(static_cast<typename D::rep>(count)) };
	if (beyond_timestamp<D>(count)) c.label("year beyond +-292 billion");
	if (const char* e = check_msgpack(tp, d, !beyond_timestamp<D>(count))) c.fail(e, d);
}
template <class D> void prop_dur(vf::Ctx& c) {
	rejected_conversion_before(c);
	i128 count = gen_count<D>(c.src);
	c.describe(vf::cat("dur ", dname<D>(), " ", refcal::i128s(count)));
	c.nontrivial = count < 0 || count > 86400;
	std::string d; if (const char* e = check_duration<D>(count, d)) c.fail(e, d);
	D dv(static_cast<typename D::rep>(count));
	const i128 secs = refcal::fdiv(count * D::period::num, D::period::den);
	if (const char* e = check_msgpack(dv, d, secs >= static_cast<i128>(INT64_MIN) && secs <= static_cast<i128>(INT64_MAX))) c.fail(e, d);
}

} // namespace

VF_SWEEP(days_s_ms, false, "exhaustive: every day of years -10000..+20000 (10.96 M) as time_point<seconds> and time_point<milliseconds> (time of day varies with the day): text == reference, parses back; non-trivial = before 1970 or after 9999")
{ sweep_days<dur_s<int64_t>>(c, -10000, 20000, 45296); sweep_days<dur_ms<int64_t>>(c, -10000, 20000, 86399999); c.sample("s/i64:day-4371953 (-10000-01-01)"); c.sample("ms/i64:day0"); }

VF_SWEEP(days_other_precisions, false, "every day of the same range for microseconds, minutes, hours, days (64-bit), every day of the 64-bit nanosecond range (1677..2262) and of the 32-bit seconds/minutes/hours/days ranges that fall inside it")
{
	sweep_days<dur_us<int64_t>>(c, -10000, 20000, 86399999999LL); sweep_days<dur_min<int64_t>>(c, -10000, 20000, 1439); sweep_days<dur_h<int64_t>>(c, -10000, 20000, 23); sweep_days<dur_d<int64_t>>(c, -10000, 20000, 0);
	sweep_days<dur_ns<int64_t>>(c, 1677, 2262, 86399999999999LL); sweep_days<dur_s<int32_t>>(c, 1901, 2038, 86399); sweep_days<dur_min<int32_t>>(c, -2114, 6053, 1439); sweep_days<dur_h<int32_t>>(c, -10000, 20000, 23); sweep_days<dur_d<int32_t>>(c, -10000, 20000, 0);
	c.sample("ns/i64:day-106751 (1677-09-22)");
}

VF_SWEEP(every_second_of_selected_days, false, "every second of leap days, century and 400-year boundaries, the epoch, years 0/-1/9999/10000 for seconds and nanosecond/millisecond precision")
{
	static const struct { long long y; int m, d; } days[] = { { 2000, 2, 29 }, { 1900, 2, 28 }, { 1900, 3, 1 }, { 2100, 2, 28 }, { 2400, 2, 29 }, { 1970, 1, 1 }, { 1969, 12, 31 }, { 0, 1, 1 }, { -1, 12, 31 }, { 9999, 12, 31 }, { 10000, 1, 1 }, { 1600, 2, 29 } };
	for (auto& dd : days) { sweep_seconds_of_day<dur_s<int64_t>>(c, dd.y, dd.m, dd.d); sweep_seconds_of_day<dur_ms<int64_t>>(c, dd.y, dd.m, dd.d); if (dd.y >= 1678 && dd.y <= 2261) sweep_seconds_of_day<dur_ns<int64_t>>(c, dd.y, dd.m, dd.d); }
	c.sample("s/i64:2000-2-29+0");
}

VF_PROPERTY(tp_ns, 2, "time_point<ns,int64>: min/max neighbourhoods, calendar-boundary instants, random 64-bit counts; text vs reference, parse back, MsgPack passage; non-trivial = before 1970 or after 9999") { prop_tp<dur_ns<int64_t>>(c); }
VF_PROPERTY(tp_us, 1, "time_point<us,int64>") { prop_tp<dur_us<int64_t>>(c); }
VF_PROPERTY(tp_ms, 1, "time_point<ms,int64>") { prop_tp<dur_ms<int64_t>>(c); }
VF_PROPERTY(tp_s, 2, "time_point<s,int64>") { prop_tp<dur_s<int64_t>>(c); }
VF_PROPERTY(tp_min, 1, "time_point<min,int64>") { prop_tp<dur_min<int64_t>>(c); }
VF_PROPERTY(tp_h, 1, "time_point<h,int64>") { prop_tp<dur_h<int64_t>>(c); }
VF_PROPERTY(tp_days, 1, "time_point<days,int64>") { prop_tp<dur_d<int64_t>>(c); }
VF_PROPERTY(tp_s32, 1, "time_point<s,int32>") { prop_tp<dur_s<int32_t>>(c); }
VF_PROPERTY(tp_min32, 1, "time_point<min,int32>") { prop_tp<dur_min<int32_t>>(c); }
VF_PROPERTY(tp_h32, 1, "time_point<h,int32>") { prop_tp<dur_h<int32_t>>(c); }
VF_PROPERTY(tp_days32, 1, "time_point<days,int32>") { prop_tp<dur_d<int32_t>>(c); }
VF_PROPERTY(dur_ns_, 2, "duration<ns,int64>: min/max neighbourhoods and random counts: text is a well-formed ISO-8601 duration denoting exactly the value (independent reader), parses back identically, survives MsgPack; non-trivial = negative or > 1 day") { prop_dur<dur_ns<int64_t>>(c); }
VF_PROPERTY(dur_us_, 1, "duration<us,int64>") { prop_dur<dur_us<int64_t>>(c); }
VF_PROPERTY(dur_ms_, 1, "duration<ms,int64>") { prop_dur<dur_ms<int64_t>>(c); }
VF_PROPERTY(dur_s_, 2, "duration<s,int64>") { prop_dur<dur_s<int64_t>>(c); }
VF_PROPERTY(dur_min_, 1, "duration<min,int64>") { prop_dur<dur_min<int64_t>>(c); }
VF_PROPERTY(dur_h_, 1, "duration<h,int64>") { prop_dur<dur_h<int64_t>>(c); }
VF_PROPERTY(dur_days_, 1, "duration<days,int64>") { prop_dur<dur_d<int64_t>>(c); }
VF_PROPERTY(dur_s32, 1, "duration<s,int32>") { prop_dur<dur_s<int32_t>>(c); }
VF_PROPERTY(dur_h32, 1, "duration<h,int32>") { prop_dur<dur_h<int32_t>>(c); }

namespace {
template <class A> struct Tag { using type = A; };
struct TimePair { time_t v[2]; size_t size() const { return 2; } time_t& operator[](size_t i) { return v[i]; } const time_t& operator[](size_t i) const { return v[i]; } };
template <class TArchive> void SerializeArray(TArchive& a, TimePair& p) { a << CTimeRef(p.v[0]); a << CTimeRef(p.v[1]); }
struct TimeRec { time_t t; TimePair pair; template <class TArchive> void Serialize(TArchive& a) { a << KeyValue("t", CTimeRef(t)); a << KeyValue("p", pair); } };
struct TimeRow { time_t t = 0; template <class TArchive> void Serialize(TArchive& a) { a << KeyValue("t", CTimeRef(t)); } };
}
VF_PROPERTY(raw_time, 1, "time_t through CRawTime and CTimeRef: text vs reference, parse back, MsgPack passage of CTimeRef, and CTimeRef as a member and as a sequence element through JSON, XML and CSV (the document holds the ISO text and loads back to the same time_t); non-trivial = negative time_t")
{
	i128 count = gen_count<dur_s<int64_t>>(c.src, true);
	c.describe(vf::cat("time_t ", refcal::i128s(count)));
	if (near_range_end<dur_s<int64_t>>(count) || beyond_printable<dur_s<int64_t>>(count)) { c.label("excluded:KF-27-range-end"); c.discard("KF-33"); }
	c.nontrivial = count < 0;
	const time_t t = static_cast<time_t>(count);
	const std::string want = refcal::print_instant(count, 1, 1, 0);
	std::string text = Convert::ToString(CRawTime(t));
	if (text != want) c.fail("CRawTime text is not the correct date-time", vf::cat(refcal::i128s(count), " text=", text, " want=", want));
	CRawTime back = Convert::To<CRawTime>(text);
	if (back.Time != t) c.fail("CRawTime text parses back to a different time", vf::cat(text, " -> ", back.Time));
	time_t src = t, dst = 0; std::string bytes = SaveObject<MsgPack::MsgPackArchive>(CTimeRef(src)); LoadObject<MsgPack::MsgPackArchive>(CTimeRef(dst), bytes);
	if (dst != t) c.fail("CTimeRef changes through MsgPack", vf::cat(refcal::i128s(count), " -> ", dst, " ", vf::hex(bytes)));
	// the text archives keep a time_t as its ISO text: as a member and as a bare element of a sequence
	TimeRec rec{ t, { { t, static_cast<time_t>(t / 2) } } };
	auto passage = [&](auto tag, const char* arch) {
		using A = typename decltype(tag)::type; TimeRec got{ 0, { { 0, 0 } } }; std::string doc;
		try { doc = SaveObject<A>(rec); LoadObject<A>(got, doc); }
		catch (const std::exception& e) { c.fail("CTimeRef does not survive a text archive", vf::cat(arch, " ", refcal::i128s(count), " ", doc.substr(0, 200), " -> ", e.what())); }
		if (doc.find(want) == std::string::npos) c.fail("a text archive holds another text for a time_t than the ISO date-time", vf::cat(arch, " ", doc.substr(0, 200), " want ", want));
		if (got.t != rec.t || got.pair[0] != rec.pair[0] || got.pair[1] != rec.pair[1]) c.fail("CTimeRef does not survive a text archive", vf::cat(arch, " ", refcal::i128s(count), " ", doc.substr(0, 200), " -> ", got.t, " ", got.pair[0], " ", got.pair[1]));
	};
	passage(Tag<Json::RapidJson::JsonArchive>{}, "JSON"); passage(Tag<Xml::PugiXml::XmlArchive>{}, "XML");
	{ std::vector<TimeRow> rows{ { t }, { static_cast<time_t>(t / 3) } }, got; std::string doc;
	  try { doc = SaveObject<Csv::CsvArchive>(rows); LoadObject<Csv::CsvArchive>(got, doc); } catch (const std::exception& e) { c.fail("CTimeRef does not survive a text archive", vf::cat("CSV ", refcal::i128s(count), " ", doc.substr(0, 200), " -> ", e.what())); }
	  if (doc.find(want) == std::string::npos || got.size() != 2 || got[0].t != rows[0].t || got[1].t != rows[1].t) c.fail("CTimeRef does not survive a text archive", vf::cat("CSV ", refcal::i128s(count), " ", doc.substr(0, 200))); }
}

// ---- witnesses of the recorded findings (run in their own unit; each asserts only the recorded deviation) ------------------------------
namespace {
template <class D> void kf27_case(vf::Ctx& c) {
	using R = typename D::rep; using TP = time_point<system_clock, D>;
	const i128 ticksPerDay = static_cast<i128>(86400) * D::period::den / D::period::num;
	const i128 count = static_cast<i128>(std::numeric_limits<R>::min()) + static_cast<i128>(c.src.draw(static_cast<uint64_t>(ticksPerDay > 0 ? ticksPerDay : 1)));
	c.describe(vf::cat("kf27 ", dname<D>(), " ", refcal::i128s(count))); c.nontrivial = true;
	TP tp{ D(static_cast<R>(count)) };
	const std::string want = refcal::print_instant(count, D::period::num, D::period::den, frac_digits<D>());
	const std::string text = Convert::ToString(tp);
	if (text != want) c.fail("first day of the range is printed wrongly", vf::cat(text, " want ", want));
	try { TP back = Convert::To<TP>(text); if (back != tp) c.fail("first day of the range parses back to a different instant", text); }
	catch (const std::out_of_range&) { c.fail("KF-27: text of an instant in the first day of the type's range cannot be parsed back (out_of_range)", vf::cat(dname<D>(), " ", text)); }
}
}
namespace {
template <class D> void kf33_case(vf::Ctx& c) {
	using R = typename D::rep; using TP = time_point<system_clock, D>;
	const i128 first = (static_cast<i128>(INT64_MAX) / 146097 + 1) * 146097 - 719468;   // first day of the last era
	const i128 count = first + static_cast<i128>(c.src.draw(static_cast<uint64_t>(static_cast<i128>(std::numeric_limits<R>::max()) - first + 1)));
	c.describe(vf::cat("kf33 ", dname<D>(), " ", refcal::i128s(count))); c.nontrivial = true;
	TP tp{ D(static_cast<R>(count)) };
	const std::string want = refcal::print_instant(count, D::period::num, D::period::den, 0);
	const std::string text = Convert::ToString(tp);
	if (text != want) c.fail("last era of the day-precision range is printed wrongly", vf::cat(text, " want ", want));
	try { TP back = Convert::To<TP>(text); if (back != tp) c.fail("last era of the day-precision range parses back to a different instant", text); }
	catch (const std::out_of_range&) { c.fail("KF-33: text of a day-precision instant in the last era of the 64-bit range cannot be parsed back (out_of_range)", vf::cat(dname<D>(), " ", text)); }
}
}
VF_PROPERTY(kf33_days, 1, "witness of KF-33") { kf33_case<dur_d<int64_t>>(c); }
VF_PROPERTY(kf27_s, 1, "witness of KF-27") { kf27_case<dur_s<int64_t>>(c); }
VF_PROPERTY(kf27_ms, 1, "witness of KF-27") { kf27_case<dur_ms<int64_t>>(c); }
VF_PROPERTY(kf27_ns, 1, "witness of KF-27") { kf27_case<dur_ns<int64_t>>(c); }
VF_PROPERTY(kf27_s32, 1, "witness of KF-27") { kf27_case<dur_s<int32_t>>(c); }

int main(int argc, char** argv) {
	if (const char* e = refcal::selftest()) { fprintf(stderr, "ORACLE SELF-TEST FAILED: ref_calendar %s\n", e); return 2; }
	return vf::engine_main(argc, argv, "c14_chrono_text");
}
