// C05 — a skipped value never disturbs the loading of its neighbours.
// Model: a well-typed document (arbitrary tree) and the same document with a subset of its values replaced by values of another
// kind / out-of-range numbers; loaded with the Skip policies into a sentinel-filled target of the clean shape.  Every position
// that was not offended must hold the clean value, every offended position must still hold its sentinel, sequence lengths are
// unchanged, and for keyed fields the Required validator fires for exactly the offended fields.
#include "common/dyn.h"
#include "bitserializer/types/std/map.h"
#include "bitserializer/types/std/vector.h"
#include "bitserializer/types/std/chrono.h"
#include <set>
#include <deque>
#include <list>
#include <array>
#include <tuple>
#include "bitserializer/types/std/deque.h"
#include "bitserializer/types/std/list.h"
#include "bitserializer/types/std/array.h"
#include "bitserializer/types/std/tuple.h"
#include "bitserializer/types/std/set.h"
#include "bitserializer/types/std/unordered_set.h"
#include <unordered_set>

using namespace arch;
using refmp::Val; using RT = refmp::T;

namespace {

template <class C> struct XmlWrap { C* t; template <class Ar> void Serialize(Ar& a) { a << KeyValue("seq", *t); } };   // XML has no keyless array at the root of a typed load

Val gen_leaf(vf::Src& s, int archId) {
	const bool text = archId == XML;
	switch (s.draw(text ? 4 : 6)) {
	case 0: return refmp::mkInt(-1 - static_cast<int64_t>(s.draw(100000)));
	case 1: return refmp::mkUInt(s.draw(100000));
	case 2: { std::string t; size_t n = 1 + s.len(10); for (size_t i = 0; i < n; i++) t.push_back(static_cast<char>('a' + s.draw(26))); return refmp::mkStr("s" + t); }
	case 3: return refmp::mkF64(0.5 + static_cast<double>(s.draw(1000)));
	case 4: return refmp::mkBool(s.coin());
	default: if (archId == MSGPACK) return refmp::mkBin("b" + s.bytes(1 + s.len(12))); return refmp::mkBool(s.coin());
	}
}
Val gen_tree(vf::Src& s, int depth, int archId) {
	if (depth <= 0 || s.chance(2, 5)) return gen_leaf(s, archId);
	if (s.coin()) { size_t n = 1 + s.draw(5); std::vector<Val> a; const bool homogeneous = archId == XML || s.coin(); Val first = gen_tree(s, depth - 1, archId);
		for (size_t i = 0; i < n; i++) a.push_back(homogeneous && i ? (first.t == RT::Arr || first.t == RT::Map ? gen_tree(s, depth - 1, archId) : gen_leaf(s, archId)) : (i ? gen_tree(s, depth - 1, archId) : first)); return refmp::mkArr(a); }
	size_t n = 1 + s.draw(5); std::vector<std::pair<Val, Val>> m; for (size_t i = 0; i < n; i++) m.push_back({ refmp::mkStr("k" + std::to_string(i)), gen_tree(s, depth - 1, archId) }); return refmp::mkMap(m);
}
// a value that certainly cannot be loaded into a target of kind `t` in this archive (and is not nil, which is "not loaded" by design)
bool g_allowExt = false, g_hasExt = false;   // the current document holds a non-timestamp ext value: only the reference encoder can write it
Val offending_value(vf::Src& s, RT t, int archId) {
	const bool typed = archId == MSGPACK || archId == JSON;
	if (g_allowExt && archId == MSGPACK && s.chance(1, 6)) { static const size_t sizes[] = { 1, 2, 4, 8, 16, 3, 20, 300 }; Val v; v.t = RT::Ext; v.extType = static_cast<int8_t>(s.coin() ? 5 : static_cast<int>(s.draw(127)) + 1); v.s = std::string(sizes[s.draw(8)], static_cast<char>(0x91 + s.draw(8))); g_hasExt = true; return v; }   // an application-defined ext value mismatches every target
	auto str = [&] { return refmp::mkStr("offence" + std::to_string(s.draw(100))); };
	auto arr = [&] { return refmp::mkArr({ refmp::mkInt(-3), refmp::mkStr("zz") }); };
	auto obj = [&] { return refmp::mkMap({ { refmp::mkStr("q"), refmp::mkInt(-4) }, { refmp::mkStr("r"), refmp::mkStr("yy") } }); };
	switch (t) {
	case RT::Int: { const uint64_t k = s.draw(typed ? 5 : 3); if (k == 0) return str(); if (k == 1) return arr(); if (k == 2) return obj(); if (k == 3) return refmp::mkUInt(static_cast<uint64_t>(INT64_MAX) + 1 + s.draw(1000)); return refmp::mkF64(1.5); }
	case RT::UInt: { const uint64_t k = s.draw(typed ? 5 : 4); if (k == 0) return str(); if (k == 1) return arr(); if (k == 2) return obj(); if (k == 3) return refmp::mkInt(-1 - static_cast<int64_t>(s.draw(1000))); return refmp::mkF64(2.5); }
	case RT::F64: { const uint64_t k = s.draw(3); if (k == 0) return str(); if (k == 1) return arr(); return obj(); }
	case RT::Bool: { const uint64_t k = s.draw(typed ? 4 : 3); if (k == 0) return str(); if (k == 1) return arr(); if (k == 2) return obj(); return refmp::mkUInt(2 + s.draw(100)); }
	case RT::Str: { if (!typed) return s.coin() ? arr() : obj(); const uint64_t k = s.draw(4); if (k == 0) return refmp::mkInt(-7); if (k == 1) return arr(); if (k == 2) return obj(); return refmp::mkBool(true); }
	case RT::Bin: { const uint64_t k = s.draw(3); if (k == 0) return refmp::mkInt(-7); if (k == 1) return str(); return obj(); }
	case RT::Arr: { if (!typed) return refmp::mkStr("notanarray"); const uint64_t k = s.draw(3); if (k == 0) return refmp::mkInt(-7); if (k == 1) return str(); return obj(); }
	default: { if (!typed) return refmp::mkStr("notanobject"); const uint64_t k = s.draw(3); if (k == 0) return refmp::mkInt(-7); if (k == 1) return str(); return arr(); }
	}
}
Val sentinel_of(const Val& v) {   // same shape, recognisable leaves
	Val r; r.t = v.t;
	switch (v.t) { case RT::Int: r.i = -424242; break; case RT::UInt: r.u = 424242; break; case RT::F64: r.d = -4242.5; break; case RT::Bool: r.b = v.b; break; case RT::Str: r.s = "<sentinel>"; break; case RT::Bin: r.s = "<bin-sentinel>"; break;
	case RT::Arr: for (auto& e : v.arr) r.arr.push_back(sentinel_of(e)); break; case RT::Map: for (auto& kv : v.map) r.map.emplace_back(kv.first, sentinel_of(kv.second)); break; default: break; }
	return r;
}
// walk clean / offended-flag / loaded trees together
struct Walk { std::string* why; int archId; };
// builds the offended document and the expectation: positions replaced are recorded in `flags` (parallel tree of bools encoded in Val.fmt)
void offend(vf::Src& s, const Val& clean, Val& doc, Val& flags, int archId, size_t& count, bool& followed, bool insideSeq, bool lastInSeq, size_t budget) {
	flags = Val(); flags.t = clean.t; doc = clean;
	const bool can = insideSeq && count < budget && s.chance(1, 4);   // the root itself is never replaced
	if (can) { doc = offending_value(s, clean.t, archId); flags.fmt = 1; count++; if (insideSeq && !lastInSeq) followed = true; return; }
	if (clean.t == RT::Arr) { doc.arr.clear(); for (size_t i = 0; i < clean.arr.size(); i++) { Val d, f; offend(s, clean.arr[i], d, f, archId, count, followed, true, i + 1 == clean.arr.size(), budget); doc.arr.push_back(d); flags.arr.push_back(f); } }
	else if (clean.t == RT::Map) { doc.map.clear(); for (size_t i = 0; i < clean.map.size(); i++) { Val d, f; offend(s, clean.map[i].second, d, f, archId, count, followed, true, i + 1 == clean.map.size(), budget); doc.map.emplace_back(clean.map[i].first, d); flags.map.emplace_back(clean.map[i].first, f); } }
}
bool untouched(const Val& loaded, const Val& sentinel) {   // an offended position: the whole subtree must still be the sentinel (arrays may legally be cleared to empty)
	if (loaded.t != sentinel.t) return false;
	switch (sentinel.t) { case RT::Int: return loaded.i == sentinel.i; case RT::UInt: return loaded.u == sentinel.u; case RT::F64: return loaded.d == sentinel.d; case RT::Bool: return loaded.b == sentinel.b; case RT::Str: case RT::Bin: return loaded.s == sentinel.s;
	case RT::Arr: if (loaded.arr.size() != sentinel.arr.size()) return false; for (size_t i = 0; i < loaded.arr.size(); i++) if (!untouched(loaded.arr[i], sentinel.arr[i])) return false; return true;
	case RT::Map: if (loaded.map.size() != sentinel.map.size()) return false; for (size_t i = 0; i < loaded.map.size(); i++) if (!untouched(loaded.map[i].second, sentinel.map[i].second)) return false; return true; default: return true; }
}
const char* compare(const Val& clean, const Val& flags, const Val& loaded, const Val& sentinel, std::string path, std::string& where) {
	if (flags.fmt == 1) { if (!untouched(loaded, sentinel)) { where = path; return "the target of a skipped value was modified"; } return nullptr; }
	if (loaded.t != clean.t) { where = path; return "kind of a loaded value changed"; }
	switch (clean.t) {
	case RT::Arr: if (loaded.arr.size() != clean.arr.size()) { where = vf::cat(path, " size ", loaded.arr.size(), " want ", clean.arr.size()); return "a sequence changed its length because an element was skipped"; }
		for (size_t i = 0; i < clean.arr.size(); i++) if (auto r = compare(clean.arr[i], flags.arr[i], loaded.arr[i], sentinel.arr[i], vf::cat(path, "/", i), where)) return r; return nullptr;
	case RT::Map: for (size_t i = 0; i < clean.map.size(); i++) if (auto r = compare(clean.map[i].second, flags.map[i].second, loaded.map[i].second, sentinel.map[i].second, path + "/" + clean.map[i].first.s, where)) return r; return nullptr;
	default: if (!refmp::same(loaded, clean)) { where = vf::cat(path, " got ", refmp::show(loaded), " want ", refmp::show(clean)); return "a value that was not offended is loaded differently (neighbour disturbed)"; } return nullptr;
	}
}

template <class A> void run_dyn(vf::Ctx& c, int archId) {
	g_hasExt = false; g_allowExt = true; struct Reset { ~Reset() { g_allowExt = false; } } reset;
	Val clean = gen_tree(c.src, 3, archId); if (clean.t != RT::Arr && clean.t != RT::Map) clean = refmp::mkArr({ clean, gen_leaf(c.src, archId), gen_leaf(c.src, archId) });
	if (archId == XML && clean.t == RT::Arr) clean = refmp::mkMap({ { refmp::mkStr("root"), clean } });
	Val doc, flags; size_t count = 0; bool followed = false; offend(c.src, clean, doc, flags, archId, count, followed, false, true, 1 + c.src.draw(6));
	const Val env = archId == XML ? refmp::mkMap({ { refmp::mkStr("t"), doc }, { refmp::mkStr("z"), refmp::mkStr("sentinel") } }) : refmp::mkArr({ doc, refmp::mkStr("sentinel") });
	const Val envClean = archId == XML ? refmp::mkMap({ { refmp::mkStr("t"), clean }, { refmp::mkStr("z"), refmp::mkStr("sentinel") } }) : refmp::mkArr({ clean, refmp::mkStr("sentinel") });
	Cfg mem; std::string bytes; Outcome so;
	if (archId == MSGPACK && (g_hasExt || c.src.chance(1, 4))) { refmp::encode(bytes, env, [&](size_t n) -> size_t { return n <= 1 ? 0 : c.src.draw(n); }); c.label("reference-encoder"); }   // any legal width, ext values
	else so = dyn::save<A>(env, bytes, mem);
	if (!so.ok()) c.fail("saving the document failed", so.str());
	Cfg cfg; cfg.stream = c.src.coin(); cfg.streamKind = cfg.stream ? gen_stream_kind(c.src, archId == MSGPACK) : 0; cfg.chunk = 1 + c.src.draw(40);
	cfg.opt.mismatchedTypesPolicy = MismatchedTypesPolicy::Skip; cfg.opt.overflowNumberPolicy = OverflowNumberPolicy::Skip;
	c.nontrivial = followed; c.label(vf::cat("offences=", count > 3 ? 4 : count)); if (followed) c.label("offence-followed-by-more-data");
	c.describe(vf::cat(arch_name(archId), " ", refmp::show(doc).substr(0, 260), " offences=", count, " ", cfg.str()));
	Val target = sentinel_of(envClean); dyn::LoadLog lg; Outcome lo = dyn::load<A>(target, bytes, cfg, &lg);
	const std::string d = vf::cat(arch_name(archId), " clean=", refmp::show(clean).substr(0, 260), " doc=", refmp::show(doc).substr(0, 260), " [", cfg.str(), "] bytes=", archId == MSGPACK ? vf::hex(bytes.substr(0, 160)) : bytes.substr(0, 300), " => ", lo.str(), " loaded=", refmp::show(target).substr(0, 260));
	if (!lo.ok()) c.fail("loading with the Skip policies ended in an exception", d);
	Val flagsEnv = Val(); flagsEnv.t = env.t; Val fz; fz.t = RT::Str; if (archId == XML) { flagsEnv.map.emplace_back(refmp::mkStr("t"), flags); flagsEnv.map.emplace_back(refmp::mkStr("z"), fz); } else { flagsEnv.arr.push_back(flags); flagsEnv.arr.push_back(fz); }
	std::string where; if (const char* e = compare(envClean, flagsEnv, target, sentinel_of(envClean), "", where)) c.fail(e, vf::cat("at ", where, " | ", d));
	if (lg.arraysLong) c.fail("an array scope still had elements after all expected ones were read", d);
}

// typed object with Required validators on every field
using TpNs = std::chrono::time_point<std::chrono::system_clock, std::chrono::nanoseconds>;
struct Rec {
	int64_t a = -1; std::string b = "<b>"; double cdbl = -1.5; std::vector<int64_t> d{ -9 }; bool e = false; uint32_t f = 77; TpNs g{ std::chrono::nanoseconds(42) };
	template <class Ar> void Serialize(Ar& ar) { ar << KeyValue("a", a, Required()) << KeyValue("b", b, Required()) << KeyValue("c", cdbl, Required()) << KeyValue("d", d, Required()) << KeyValue("e", e, Required()) << KeyValue("f", f, Required()) << KeyValue("g", g, Required()); }
};
struct RecCsv {
	int64_t a = -1; std::string b = "<b>"; double cdbl = -1.5; std::vector<int64_t> d{ -1, -2, -3 }; bool e = false; uint32_t f = 77;
	template <class Ar> void Serialize(Ar& ar) { ar << KeyValue("a", a, Required()) << KeyValue("b", b, Required()) << KeyValue("c", cdbl, Required()) << KeyValue("e", e, Required()) << KeyValue("f", f, Required()); }
};
template <class A> void run_required(vf::Ctx& c, int archId) {
	const bool typed = archId == MSGPACK || archId == JSON;
	std::vector<std::pair<std::string, Val>> clean = { { "a", refmp::mkInt(-5 - static_cast<int64_t>(c.src.draw(1000))) }, { "b", refmp::mkStr("text" + std::to_string(c.src.draw(100))) }, { "c", refmp::mkF64(0.25 + static_cast<double>(c.src.draw(100))) },
		{ "d", refmp::mkArr({ refmp::mkInt(-1), refmp::mkInt(-2), refmp::mkInt(-3) }) }, { "e", archId == XML || archId == CSV ? refmp::mkStr("true") : refmp::mkBool(true) }, { "f", refmp::mkUInt(c.src.draw(100000)) } };
	if (archId != CSV) clean.push_back({ "g", archId == MSGPACK ? refmp::mkTs(1700000000, 5) : refmp::mkStr("2023-11-14T22:13:20.000000005Z") });   // a time point (binary timestamp in MessagePack, ISO text elsewhere)
	if (archId == CSV) clean.erase(clean.begin() + 3);
	std::set<std::string> offended; std::vector<std::pair<Val, Val>> m; bool followed = false;
	for (size_t i = 0; i < clean.size(); i++) { Val v = clean[i].second; if (c.src.chance(1, 3)) { const std::string& k = clean[i].first;
			if (k == "a") v = typed ? offending_value(c.src, RT::Int, archId) : refmp::mkStr("abc"); else if (k == "b") { if (archId == CSV) { m.push_back({ refmp::mkStr(k), v }); continue; } v = offending_value(c.src, RT::Str, archId); } else if (k == "c") v = typed ? offending_value(c.src, RT::F64, archId) : refmp::mkStr("x1.5"); else if (k == "d") v = offending_value(c.src, RT::Arr, archId);
			else if (k == "e") v = typed ? offending_value(c.src, RT::Bool, archId) : refmp::mkStr("maybe"); else if (k == "g") v = archId == MSGPACK ? (c.src.coin() ? refmp::mkTs(253402300799LL, 0) : refmp::mkStr("not a timestamp")) : refmp::mkStr(c.src.coin() ? "9999-12-31T23:59:59Z" : "2023-13-45T00:00:00Z"); else v = typed ? (c.src.coin() ? refmp::mkUInt(5000000000ull) : refmp::mkInt(-1)) : refmp::mkStr(c.src.coin() ? "5000000000" : "-1");
			if (archId == CSV && (v.t == RT::Arr || v.t == RT::Map)) v = refmp::mkStr("zzz");
			offended.insert(k); if (i + 1 < clean.size()) followed = true; }
		m.push_back({ refmp::mkStr(clean[i].first), v }); }
	std::string bytes; Cfg mem; Outcome so;
	if constexpr (std::is_same_v<A, CsvArchive>) { std::map<std::string, std::string> row; for (auto& kv : m) { const Val& v = kv.second; row[kv.first.s] = v.t == RT::Str ? v.s : v.t == RT::Int ? std::to_string(v.i) : v.t == RT::UInt ? std::to_string(v.u) : v.t == RT::F64 ? std::to_string(v.d) : "true"; } std::vector<std::map<std::string, std::string>> t{ row, row }; so = save<A>(t, bytes, mem); }
	else so = dyn::save<A>(refmp::mkMap(m), bytes, mem);
	if (!so.ok()) c.fail("saving the document failed", so.str());
	Cfg cfg; cfg.stream = c.src.coin(); cfg.opt.mismatchedTypesPolicy = MismatchedTypesPolicy::Skip; cfg.opt.overflowNumberPolicy = OverflowNumberPolicy::Skip;
	c.nontrivial = followed && !offended.empty(); c.describe(vf::cat(arch_name(archId), " required offended=", offended.size(), " ", refmp::show(refmp::mkMap(m)).substr(0, 200), " stream=", cfg.stream));
	Outcome lo; std::conditional_t<std::is_same_v<A, CsvArchive>, RecCsv, Rec> rec; std::vector<RecCsv> recs;
	if constexpr (std::is_same_v<A, CsvArchive>) lo = load<A>(recs, bytes, cfg); else lo = load<A>(rec, bytes, cfg);
	const std::string d = vf::cat(arch_name(archId), " doc=", archId == MSGPACK ? vf::hex(bytes.substr(0, 160)) : bytes.substr(0, 300), " offended=", offended.size(), " => ", lo.str());
	if (offended.empty()) { if (!lo.ok()) c.fail("a clean document does not load with the Skip policies", d); }
	else {
		if (lo.k != Outcome::Validation) c.fail("a skipped Required field does not produce a ValidationException", d);
		std::set<std::string> reported; for (auto& kv : lo.errors) { std::string p = kv.first; auto pos = p.find_last_of('/'); reported.insert(pos == std::string::npos ? p : p.substr(pos + 1)); if (kv.second.size() != 1 || kv.second[0] != "This field is required") c.fail("unexpected validation message for a skipped field", vf::cat(kv.first, ": ", kv.second.empty() ? "" : kv.second[0], " | ", d)); }
		if (reported != offended) { std::string r, o; for (auto& x : reported) r += x + " "; for (auto& x : offended) o += x + " "; c.fail("the Required validator fired for a different set of fields than the skipped ones", vf::cat("reported: ", r, " offended: ", o, " | ", d)); }
	}
	if (archId != CSV && (lo.ok() || lo.k == Outcome::Validation)) {   // untouched / loaded values of the partly loaded object
		auto has = [&](const char* k) { return offended.count(k) != 0; };
		if (has("a") ? rec.a != -1 : rec.a != clean[0].second.i) c.fail("field a: skipped target modified or neighbour disturbed", d);
		if (has("b") ? rec.b != "<b>" : rec.b != clean[1].second.s) c.fail("field b: skipped target modified or neighbour disturbed", d);
		if (has("c") ? rec.cdbl != -1.5 : rec.cdbl != clean[2].second.d) c.fail("field c: skipped target modified or neighbour disturbed", d);
		if (!has("d") && rec.d != std::vector<int64_t>{ -1, -2, -3 }) c.fail("field d: neighbour disturbed", d);
		if (has("f") ? rec.f != 77 : rec.f != clean[5].second.u) c.fail("field f: skipped target modified or neighbour disturbed", d);
		if constexpr (!std::is_same_v<A, CsvArchive>) if (has("g") ? rec.g != TpNs(std::chrono::nanoseconds(42)) : rec.g != TpNs(std::chrono::nanoseconds(1700000000000000005LL))) c.fail("field g: skipped target modified or neighbour disturbed", d);
	}
}

// typed sequences and tuples (the std adapters, not only the raw array scope): element i offended => element i keeps its previous value,
// every other element is loaded, the length is unchanged
template <class C> std::vector<int64_t> as_vec(const C& c) { return std::vector<int64_t>(c.begin(), c.end()); }
template <class A, class C> void run_int_seq(vf::Ctx& c, int archId, const char* name, size_t fixedN) {
	const size_t n = fixedN ? fixedN : 2 + c.src.draw(6); std::vector<int64_t> clean; for (size_t i = 0; i < n; i++) clean.push_back(-5 - static_cast<int64_t>(c.src.draw(100000)));
	std::vector<Val> doc; std::vector<bool> off(n, false); bool followed = false; for (size_t i = 0; i < n; i++) { if (c.src.chance(1, 3)) { off[i] = true; doc.push_back(offending_value(c.src, RT::Int, archId)); if (i + 1 < n) followed = true; } else doc.push_back(refmp::mkInt(clean[i])); }
	std::string bytes; Cfg mem; Outcome so = dyn::save<A>(archId == XML ? refmp::mkMap({ { refmp::mkStr("seq"), refmp::mkArr(doc) } }) : refmp::mkArr(doc), bytes, mem); if (!so.ok()) c.fail("saving the document failed", so.str());
	Cfg cfg; cfg.stream = c.src.coin(); cfg.opt.mismatchedTypesPolicy = MismatchedTypesPolicy::Skip; cfg.opt.overflowNumberPolicy = OverflowNumberPolicy::Skip;
	c.nontrivial = followed; c.describe(vf::cat(arch_name(archId), " ", name, " n=", n, " ", refmp::show(refmp::mkArr(doc)).substr(0, 200), " stream=", cfg.stream));
	C target{}; if constexpr (std::is_same_v<C, std::array<int64_t, 5>>) target.fill(-424242); else target.assign(n, -424242);
	Outcome lo; if (archId == XML) { lo = capture([&] { XmlWrap<C> w{ &target }; if (cfg.stream) { std::istringstream is(bytes); LoadObject<A>(w, is, cfg.opt); } else LoadObject<A>(w, bytes, cfg.opt); }); } else lo = load<A>(target, bytes, cfg);
	const std::vector<int64_t> got = as_vec(target); std::string gs; for (auto x : got) gs += std::to_string(x) + " ";
	const std::string d = vf::cat(arch_name(archId), " ", name, " doc=", archId == MSGPACK ? vf::hex(bytes.substr(0, 160)) : bytes.substr(0, 300), " stream=", cfg.stream, " => ", lo.str(), " loaded=[", gs, "]");
	if (!lo.ok()) c.fail("loading with the Skip policies ended in an exception", d);
	if (got.size() != n) c.fail("a sequence changed its length because an element was skipped", d);
	for (size_t i = 0; i < n; i++) { if (off[i] ? got[i] != -424242 : got[i] != clean[i]) c.fail(off[i] ? "the target of a skipped value was modified" : "a value that was not offended is loaded differently (neighbour disturbed)", vf::cat("element ", i, " | ", d)); }
}
// sequences of narrow numeric types (float, 8 / 16 / 32-bit integers): the offence is a NUMBER the element type cannot hold (a double beyond
// FLT_MAX for float; an integer beyond the limits, a negative one for unsigned, a huge or fractional double for integers)
template <class T> Val narrow_offence(vf::Src& s) {
	if constexpr (std::is_floating_point_v<T>) { static const double v[] = { 1e300, -1e300, 1e39, -1e39, 3.5e38, -1.7e308 }; return refmp::mkF64(v[s.draw(6)]); }
	else if constexpr (std::is_signed_v<T>) { switch (s.draw(4)) { case 0: return refmp::mkInt(static_cast<int64_t>(std::numeric_limits<T>::max()) + 1 + static_cast<int64_t>(s.draw(1000))); case 1: return refmp::mkInt(static_cast<int64_t>(std::numeric_limits<T>::min()) - 1 - static_cast<int64_t>(s.draw(1000))); case 2: return refmp::mkUInt((1ull << 63) + s.draw(1000)); default: return refmp::mkF64(s.coin() ? 1e30 : -1e30); } }
	else { switch (s.draw(3)) { case 0: return refmp::mkInt(-1 - static_cast<int64_t>(s.draw(1000))); case 1: return refmp::mkInt(static_cast<int64_t>(std::numeric_limits<T>::max()) + 1 + static_cast<int64_t>(s.draw(1000))); default: return refmp::mkF64(1e30); } }
}
template <class A, class T> void run_narrow_seq(vf::Ctx& c, int archId, const char* name) {
	const size_t n = 2 + c.src.draw(6); std::vector<T> clean(n); std::vector<Val> doc; std::vector<bool> off(n, false); bool followed = false;
	for (size_t i = 0; i < n; i++) {
		const int64_t v = 1 + static_cast<int64_t>(c.src.draw(100));
		if (c.src.chance(1, 3)) { off[i] = true; doc.push_back(narrow_offence<T>(c.src)); if (i + 1 < n) followed = true; }
		else if (std::is_floating_point_v<T> && (archId == MSGPACK || c.src.coin())) { clean[i] = static_cast<T>(static_cast<double>(v) + 0.5); doc.push_back(refmp::mkF64(static_cast<double>(v) + 0.5)); }
		else { clean[i] = static_cast<T>(v); doc.push_back(refmp::mkInt(v)); }
	}
	std::string bytes; const Val arr = refmp::mkArr(doc);
	if (archId == MSGPACK && c.src.coin()) { refmp::encode(bytes, arr, [&](size_t k) -> size_t { return k <= 1 ? 0 : c.src.draw(k); }); c.label("reference-encoder"); }
	else { Cfg mem; Outcome so = dyn::save<A>(arr, bytes, mem); if (!so.ok()) c.fail("saving the document failed", so.str()); }
	Cfg cfg; cfg.stream = c.src.coin(); cfg.streamKind = cfg.stream ? gen_stream_kind(c.src, archId == MSGPACK) : 0; cfg.chunk = 1 + c.src.draw(40); cfg.opt.mismatchedTypesPolicy = MismatchedTypesPolicy::Skip; cfg.opt.overflowNumberPolicy = OverflowNumberPolicy::Skip;
	c.nontrivial = followed; c.describe(vf::cat(arch_name(archId), " vector<", name, "> n=", n, " ", refmp::show(arr).substr(0, 200), " ", cfg.str()));
	std::vector<T> target(n, static_cast<T>(77)); Outcome lo = load<A>(target, bytes, cfg);
	std::string gs; for (auto x : target) gs += vf::cat(static_cast<double>(x), " ");
	const std::string d = vf::cat(arch_name(archId), " vector<", name, "> doc=", archId == MSGPACK ? vf::hex(bytes.substr(0, 160)) : bytes.substr(0, 300), " [", cfg.str(), "] => ", lo.str(), " loaded=[", gs, "]");
	if (!lo.ok()) c.fail("loading with the Skip policies ended in an exception", d);
	if (target.size() != n) c.fail("a sequence changed its length because an element was skipped", d);
	for (size_t i = 0; i < n; i++) { if (off[i] ? target[i] != static_cast<T>(77) : target[i] != clean[i]) c.fail(off[i] ? "the target of a skipped value was modified" : "a value that was not offended is loaded differently (neighbour disturbed)", vf::cat("element ", i, " | ", d)); }
}
template <class A> void run_narrow(vf::Ctx& c, int archId) {
	switch (c.src.draw(5)) { case 0: run_narrow_seq<A, float>(c, archId, "float"); break; case 1: run_narrow_seq<A, int8_t>(c, archId, "int8"); break; case 2: run_narrow_seq<A, uint16_t>(c, archId, "uint16"); break; case 3: run_narrow_seq<A, int32_t>(c, archId, "int32"); break; default: run_narrow_seq<A, uint32_t>(c, archId, "uint32"); break; }
}
// objects as elements of sets: every element is built afresh, so a skipped member must show the element type's own default, never what
// an earlier element left behind in a temporary of the loader
struct SetItem { int64_t id = -1; int64_t w = -424242; std::string s = "<s>"; double d = -0.5;
	template <class Ar> void Serialize(Ar& ar) { ar << KeyValue("id", id) << KeyValue("w", w) << KeyValue("s", s) << KeyValue("d", d); }
	bool operator<(const SetItem& o) const { return id < o.id; } bool operator==(const SetItem& o) const { return id == o.id; } };
struct SetItemHash { size_t operator()(const SetItem& x) const { return std::hash<int64_t>()(x.id); } };
template <class A, class C> void run_set_items(vf::Ctx& c, int archId, const char* name) {
	const size_t n = 2 + c.src.draw(5); std::vector<SetItem> want(n); std::vector<Val> doc; bool laterOffence = false;
	for (size_t i = 0; i < n; i++) {
		SetItem& x = want[i]; x.id = static_cast<int64_t>(i) * 10 + static_cast<int64_t>(c.src.draw(10)); x.w = 1000 + static_cast<int64_t>(c.src.draw(100000)); x.s = "s" + std::to_string(c.src.draw(1000)); x.d = 0.25 * static_cast<double>(1 + c.src.draw(1000));
		Val w = refmp::mkInt(x.w), sv = refmp::mkStr(x.s), dv = refmp::mkF64(x.d);
		if (c.src.chance(1, 3)) { w = offending_value(c.src, RT::Int, archId); x.w = -424242; if (i > 0) laterOffence = true; }
		if (c.src.chance(1, 5)) { dv = offending_value(c.src, RT::F64, archId); x.d = -0.5; if (i > 0) laterOffence = true; }
		doc.push_back(refmp::mkMap({ { refmp::mkStr("id"), refmp::mkInt(x.id) }, { refmp::mkStr("w"), w }, { refmp::mkStr("s"), sv }, { refmp::mkStr("d"), dv } }));
	}
	std::string bytes; Cfg mem; Outcome so = dyn::save<A>(refmp::mkArr(doc), bytes, mem); if (!so.ok()) c.fail("saving the document failed", so.str());
	Cfg cfg; cfg.stream = c.src.coin(); cfg.streamKind = cfg.stream ? gen_stream_kind(c.src, archId == MSGPACK) : 0; cfg.chunk = 1 + c.src.draw(40); cfg.opt.mismatchedTypesPolicy = MismatchedTypesPolicy::Skip; cfg.opt.overflowNumberPolicy = OverflowNumberPolicy::Skip;
	c.nontrivial = laterOffence; c.describe(vf::cat(arch_name(archId), " ", name, " n=", n, " ", refmp::show(refmp::mkArr(doc)).substr(0, 200), " ", cfg.str()));
	C target; Outcome lo = load<A>(target, bytes, cfg);
	std::vector<SetItem> got(target.begin(), target.end()); std::sort(got.begin(), got.end()); std::string gs; for (auto& x : got) gs += vf::cat("{", x.id, " ", x.w, " ", x.s, " ", x.d, "} ");
	const std::string d = vf::cat(arch_name(archId), " ", name, " doc=", refmp::show(refmp::mkArr(doc)).substr(0, 500), " [", cfg.str(), "] => ", lo.str(), " loaded=", gs);
	if (!lo.ok()) c.fail("loading with the Skip policies ended in an exception", d);
	if (got.size() != n) c.fail("a sequence changed its length because an element was skipped", d);
	for (size_t i = 0; i < n; i++) { const bool offended = want[i].w == -424242 || want[i].d == -0.5;
		if (got[i].id != want[i].id || got[i].s != want[i].s || got[i].w != want[i].w || got[i].d != want[i].d) c.fail(offended ? "the target of a skipped value was modified" : "a value that was not offended is loaded differently (neighbour disturbed)", vf::cat("element ", i, " | ", d)); }
}
// sets of plain integers: a skipped element has no previous value; whatever the loader inserts for it must be a value-initialised
// element, never an indeterminate one (recorded finding KF-67, repaired)
template <class A> void run_int_set(vf::Ctx& c, int archId) {
	const size_t n = 1 + c.src.draw(6); std::set<int64_t> clean; std::vector<Val> doc; bool any = false;
	for (size_t i = 0; i < n; i++) { if (c.src.chance(1, 3) || (i == 0 && c.src.coin())) { doc.push_back(offending_value(c.src, RT::Int, archId)); any = true; } else { const int64_t v = 1000 + static_cast<int64_t>(c.src.draw(100000)); clean.insert(v); doc.push_back(refmp::mkInt(v)); } }
	std::string bytes; Cfg mem; Outcome so = dyn::save<A>(refmp::mkArr(doc), bytes, mem); if (!so.ok()) c.fail("saving the document failed", so.str());
	Cfg cfg; cfg.stream = c.src.coin(); cfg.streamKind = cfg.stream ? gen_stream_kind(c.src, archId == MSGPACK) : 0; cfg.chunk = 1 + c.src.draw(40); cfg.opt.mismatchedTypesPolicy = MismatchedTypesPolicy::Skip; cfg.opt.overflowNumberPolicy = OverflowNumberPolicy::Skip;
	c.nontrivial = any; c.describe(vf::cat(arch_name(archId), " set<int64> n=", n, " ", refmp::show(refmp::mkArr(doc)).substr(0, 200), " ", cfg.str()));
	std::set<int64_t> target; Outcome lo = load<A>(target, bytes, cfg); std::string gs; for (auto x : target) gs += vf::cat(x, " ");
	const std::string d = vf::cat(arch_name(archId), " set<int64> doc=", refmp::show(refmp::mkArr(doc)).substr(0, 400), " [", cfg.str(), "] => ", lo.str(), " loaded={", gs, "}");
	if (!lo.ok()) c.fail("loading with the Skip policies ended in an exception", d);
	for (auto v : clean) if (!target.count(v)) c.fail("a value that was not offended is loaded differently (neighbour disturbed)", d);
	for (auto x : target) if (!clean.count(x) && x != 0) c.fail("the target of a skipped value was modified", vf::cat("the set holds ", x, ", which is neither a value of the document nor a value-initialised element | ", d));
}
template <class A> void run_sets(vf::Ctx& c, int archId) {
	if (c.src.chance(1, 3)) { run_int_set<A>(c, archId); return; }
	switch (c.src.draw(3)) { case 0: run_set_items<A, std::set<SetItem>>(c, archId, "set"); break; case 1: run_set_items<A, std::multiset<SetItem>>(c, archId, "multiset"); break; default: run_set_items<A, std::unordered_set<SetItem, SetItemHash>>(c, archId, "unordered_set"); }
}
// arrays longer than the 4096-element cap of the size estimate: elements behind the cap are appended one by one; a skipped one must still
// occupy its position (it keeps the sentinel or is value-initialised), the length is unchanged and the neighbours are loaded
template <class A, class C> void run_long_seq(vf::Ctx& c, int archId, const char* name) {
	const size_t n = 4090 + c.src.draw(20); std::vector<int64_t> clean(n); for (size_t i = 0; i < n; i++) clean[i] = -5 - static_cast<int64_t>(i);
	std::vector<Val> doc; std::vector<bool> off(n, false); for (size_t i = 0; i < n; i++) doc.push_back(refmp::mkInt(clean[i]));
	for (size_t k = 1 + c.src.draw(3); k > 0; k--) { const size_t i = c.src.chance(3, 4) ? std::min(n - 1, static_cast<size_t>(4090 + c.src.draw(16))) : c.src.draw(n); off[i] = true; doc[i] = offending_value(c.src, RT::Int, archId); }
	std::string bytes; Cfg mem; Outcome so = dyn::save<A>(refmp::mkArr(doc), bytes, mem); if (!so.ok()) c.fail("saving the document failed", so.str());
	Cfg cfg; cfg.stream = c.src.coin(); cfg.opt.mismatchedTypesPolicy = MismatchedTypesPolicy::Skip; cfg.opt.overflowNumberPolicy = OverflowNumberPolicy::Skip;
	std::string offs; for (size_t i = 0; i < n; i++) if (off[i]) offs += std::to_string(i) + " "; c.nontrivial = true; c.describe(vf::cat(arch_name(archId), " long ", name, " n=", n, " offended at ", offs, "stream=", cfg.stream));
	C target; if (c.src.coin()) target.assign(c.src.draw(3) == 0 ? n : c.src.draw(10), -424242);
	Outcome lo = load<A>(target, bytes, cfg); const std::vector<int64_t> got(target.begin(), target.end());
	const std::string d = vf::cat(arch_name(archId), " long ", name, " n=", n, " offended at ", offs, "stream=", cfg.stream, " => ", lo.str(), " loaded size=", got.size());
	if (!lo.ok()) c.fail("loading with the Skip policies ended in an exception", d);
	if (got.size() != n) c.fail("a sequence changed its length because an element was skipped", d);
	for (size_t i = 0; i < n; i++) { if (off[i] ? (got[i] != -424242 && got[i] != 0) : got[i] != clean[i]) c.fail(off[i] ? "the target of a skipped value was modified" : "a value that was not offended is loaded differently (neighbour disturbed)", vf::cat("element ", i, " = ", got[i], " | ", d)); }
}
template <class A> void run_tuple(vf::Ctx& c, int archId) {
	using Tup = std::tuple<int64_t, std::string, double, int64_t, bool>; const bool typed = archId == MSGPACK || archId == JSON;
	const Tup clean{ -5 - static_cast<int64_t>(c.src.draw(1000)), "text" + std::to_string(c.src.draw(100)), 0.25 + static_cast<double>(c.src.draw(100)), -7 - static_cast<int64_t>(c.src.draw(1000)), true };
	std::vector<Val> doc = { refmp::mkInt(std::get<0>(clean)), refmp::mkStr(std::get<1>(clean)), refmp::mkF64(std::get<2>(clean)), refmp::mkInt(std::get<3>(clean)), typed ? refmp::mkBool(true) : refmp::mkStr("true") };
	static const RT kinds[5] = { RT::Int, RT::Str, RT::F64, RT::Int, RT::Bool }; bool off[5] = { false, false, false, false, false }; bool followed = false;
	for (size_t i = 0; i < 5; i++) if (c.src.chance(1, 3)) { off[i] = true; Val v = offending_value(c.src, kinds[i], archId); if (!typed && kinds[i] == RT::Bool) v = refmp::mkStr("maybe"); doc[i] = v; if (i < 4) followed = true; }
	std::string bytes; Cfg mem; Outcome so = dyn::save<A>(archId == XML ? refmp::mkMap({ { refmp::mkStr("seq"), refmp::mkArr(doc) } }) : refmp::mkArr(doc), bytes, mem); if (!so.ok()) c.fail("saving the document failed", so.str());
	Cfg cfg; cfg.stream = c.src.coin(); cfg.opt.mismatchedTypesPolicy = MismatchedTypesPolicy::Skip; cfg.opt.overflowNumberPolicy = OverflowNumberPolicy::Skip;
	c.nontrivial = followed; c.describe(vf::cat(arch_name(archId), " tuple ", refmp::show(refmp::mkArr(doc)).substr(0, 200), " stream=", cfg.stream));
	Tup target{ -424242, "<sentinel>", -4242.5, -424242, false };
	Outcome lo; if (archId == XML) lo = capture([&] { XmlWrap<Tup> w{ &target }; if (cfg.stream) { std::istringstream is(bytes); LoadObject<A>(w, is, cfg.opt); } else LoadObject<A>(w, bytes, cfg.opt); }); else lo = load<A>(target, bytes, cfg);
	const std::string d = vf::cat(arch_name(archId), " tuple doc=", archId == MSGPACK ? vf::hex(bytes.substr(0, 160)) : bytes.substr(0, 300), " stream=", cfg.stream, " => ", lo.str(), " loaded=(", std::get<0>(target), ",", std::get<1>(target), ",", std::get<2>(target), ",", std::get<3>(target), ",", std::get<4>(target), ")");
	if (!lo.ok()) c.fail("loading with the Skip policies ended in an exception", d);
	auto chk = [&](bool ok, size_t i) { if (!ok) c.fail(off[i] ? "the target of a skipped value was modified" : "a value that was not offended is loaded differently (neighbour disturbed)", vf::cat("tuple element ", i, " | ", d)); };
	chk(off[0] ? std::get<0>(target) == -424242 : std::get<0>(target) == std::get<0>(clean), 0); chk(off[1] ? std::get<1>(target) == "<sentinel>" : std::get<1>(target) == std::get<1>(clean), 1); chk(off[2] ? std::get<2>(target) == -4242.5 : std::get<2>(target) == std::get<2>(clean), 2);
	chk(off[3] ? std::get<3>(target) == -424242 : std::get<3>(target) == std::get<3>(clean), 3); chk(off[4] ? std::get<4>(target) == false : std::get<4>(target) == true, 4);
}
template <class A> void run_typed_seq(vf::Ctx& c, int archId) {
	switch (c.src.draw(6)) {
	case 0: run_int_seq<A, std::vector<int64_t>>(c, archId, "vector", 0); break; case 1: run_int_seq<A, std::deque<int64_t>>(c, archId, "deque", 0); break; case 2: run_int_seq<A, std::list<int64_t>>(c, archId, "list", 0); break;
	case 3: run_int_seq<A, std::array<int64_t, 5>>(c, archId, "array<5>", 5); break; default: run_tuple<A>(c, archId);
	}
}

} // namespace

VF_PROPERTY(skip_typed_sequences_msgpack, 3, "typed std sequences (vector, deque, list, array<5> of int64) and tuple<int64,string,double,int64,bool> pre-filled with sentinels and loaded with the Skip policies from an array in which any subset of elements is replaced by a mismatching / out-of-range value: offended elements keep their sentinel, all others are loaded, the length is unchanged; memory and streams; non-trivial = an offended element is followed by another element") { run_typed_seq<MsgPackArchive>(c, MSGPACK); }
VF_PROPERTY(skip_typed_sequences_json, 3, "same through JSON") { run_typed_seq<JsonArchive>(c, JSON); }
VF_PROPERTY(skip_long_sequences, 1, "arrays of 4090..4109 integers (around the 4096-element cap of the size estimate) with 1..3 offences near the cap, loaded with the Skip policies through MessagePack and JSON into an empty, short or full vector / deque / list: length unchanged, neighbours loaded, the skipped position holds its previous or a value-initialised element; non-trivial = always") {
	const bool mp = c.src.coin();
	switch (c.src.draw(3)) { case 0: if (mp) run_long_seq<MsgPackArchive, std::vector<int64_t>>(c, MSGPACK, "vector"); else run_long_seq<JsonArchive, std::vector<int64_t>>(c, JSON, "vector"); break; case 1: if (mp) run_long_seq<MsgPackArchive, std::deque<int64_t>>(c, MSGPACK, "deque"); else run_long_seq<JsonArchive, std::deque<int64_t>>(c, JSON, "deque"); break; default: if (mp) run_long_seq<MsgPackArchive, std::list<int64_t>>(c, MSGPACK, "list"); else run_long_seq<JsonArchive, std::list<int64_t>>(c, JSON, "list"); }
}
VF_PROPERTY(skip_narrow_number_sequences_msgpack, 2, "vector<float / int8 / uint16 / int32 / uint32> pre-filled with a sentinel, loaded with the Skip policies from an array (library-written or reference-encoded in any legal width) in which any subset of elements is a number the element type cannot hold (double beyond FLT_MAX; integer beyond the limits or negative for unsigned; huge double for integers): offended elements keep the sentinel, all others are loaded, the length is unchanged; memory, streams and file; non-trivial = an offended element is followed by another element") { run_narrow<MsgPackArchive>(c, MSGPACK); }
VF_PROPERTY(skip_narrow_number_sequences_json, 1, "same through JSON") { run_narrow<JsonArchive>(c, JSON); }
VF_PROPERTY(skip_in_set_elements_msgpack, 2, "std::set / multiset / unordered_set of objects {id, w, s, d} loaded with the Skip policies from an array of objects in which the members w (int64) and d (double) of any subset of elements are replaced by a mismatching / out-of-range value: every element keeps the default of a freshly constructed element for its skipped members (nothing of an earlier element leaks through the loader's temporary), all other members are loaded; non-trivial = an offence in an element that is not the first") { run_sets<MsgPackArchive>(c, MSGPACK); }
VF_PROPERTY(skip_in_set_elements_json, 2, "same through JSON") { run_sets<JsonArchive>(c, JSON); }
VF_PROPERTY(skip_typed_sequences_xml, 2, "same through XML (the sequence is the member 'seq' of the root)") { run_typed_seq<XmlArchive>(c, XML); }
VF_PROPERTY(skip_dyn_msgpack, 5, "arbitrary tree (depth <= 3: arrays of scalars, arrays of objects, objects holding arrays, byte containers) with 1..6 values at any depth replaced by a certainly mismatching value (other scalar kind, string, array, object, out-of-range number), loaded with both Skip policies from memory and streams into a sentinel-filled target of the clean shape, followed by an envelope sentinel; non-trivial = an offence is followed by more data in the same array/object") { run_dyn<MsgPackArchive>(c, MSGPACK); }
VF_PROPERTY(skip_dyn_json, 4, "same through JSON") { run_dyn<JsonArchive>(c, JSON); }
VF_PROPERTY(skip_dyn_xml, 3, "same through XML (untyped text: offence = text that does not parse as the target type, or an element with children for a string target)") { run_dyn<XmlArchive>(c, XML); }
VF_PROPERTY(skip_required_msgpack, 2, "typed object with Required() on each of 6 fields (int64, string, double, vector, bool, uint32), any subset offended (other kind / out of range): ValidationException lists exactly the skipped fields with the default message; skipped targets keep their previous values, others are loaded; non-trivial = an offended field is followed by another field") { run_required<MsgPackArchive>(c, MSGPACK); }
VF_PROPERTY(skip_required_json, 2, "same through JSON") { run_required<JsonArchive>(c, JSON); }
VF_PROPERTY(skip_required_xml, 2, "same through XML") { run_required<XmlArchive>(c, XML); }
VF_PROPERTY(skip_required_csv, 2, "same through CSV cells (two rows)") { run_required<CsvArchive>(c, CSV); }

VF_MAIN("c05_skip")
