// C06 — MsgPack output is spec-conformant, compact, and readable by any decoder.
// Oracle: ref_msgpack strict decoder (independent, from the spec) + independently derived expected tree (to_ref) +
// minimal-format rule per node + memory output == stream output.
// Build with -DMODEL_GROUP=<0..2> (compile-time split only).
#include "common/model_types.h"
#include "common/to_ref.h"

using namespace arch;
using namespace mdl;
using refmp::Val; using RT = refmp::T;

namespace {

// size in bytes of the header (format byte + length / value bytes) the node used, and the minimal possible one
const char* minimal_violation(const Val& v, std::string& where) {
	const uint8_t f = v.fmt;
	auto intSize = [](uint8_t fm) -> size_t { if (fm <= 0x7f || fm >= 0xe0) return 1; switch (fm) { case 0xcc: case 0xd0: return 2; case 0xcd: case 0xd1: return 3; case 0xce: case 0xd2: return 5; default: return 9; } };
	switch (v.t) {
	case RT::UInt: if (intSize(f) != refmp::minimalIntSize(false, v.u)) { where = refmp::show(v); return "integer is not written in the most compact format"; } break;
	case RT::Int: if (intSize(f) != refmp::minimalIntSize(v.i < 0, static_cast<uint64_t>(v.i))) { where = refmp::show(v); return "integer is not written in the most compact format"; } break;
	case RT::Str: { const size_t n = v.s.size(); const bool ok = n < 32 ? (f & 0xe0) == 0xa0 : n < 256 ? f == 0xd9 : n < 65536 ? f == 0xda : f == 0xdb; if (!ok) { where = vf::cat("str len ", n, " fmt ", std::hex, +f); return "string header is not the most compact one"; } break; }
	case RT::Bin: { const size_t n = v.s.size(); const bool ok = n < 256 ? f == 0xc4 : n < 65536 ? f == 0xc5 : f == 0xc6; if (!ok) { where = vf::cat("bin len ", n, " fmt ", std::hex, +f); return "bin header is not the most compact one"; } break; }
	case RT::Arr: { const size_t n = v.arr.size(); const bool ok = n < 16 ? (f & 0xf0) == 0x90 : n < 65536 ? f == 0xdc : f == 0xdd; if (!ok) { where = vf::cat("array len ", n, " fmt ", std::hex, +f); return "array header is not the most compact one"; } for (auto& e : v.arr) if (auto r = minimal_violation(e, where)) return r; break; }
	case RT::Map: { const size_t n = v.map.size(); const bool ok = n < 16 ? (f & 0xf0) == 0x80 : n < 65536 ? f == 0xde : f == 0xdf; if (!ok) { where = vf::cat("map len ", n, " fmt ", std::hex, +f); return "map header is not the most compact one"; } for (auto& e : v.map) { if (auto r = minimal_violation(e.first, where)) return r; if (auto r = minimal_violation(e.second, where)) return r; } break; }
	case RT::Ts: { const bool fits32 = v.tsNs == 0 && v.tsSec >= 0 && v.tsSec <= 0xffffffffLL, fits64 = v.tsSec >= 0 && v.tsSec < (1LL << 34);
		const bool ok = fits32 ? f == 0xd6 : fits64 ? f == 0xd7 : f == 0xc7; if (!ok) { where = vf::cat(refmp::show(v), " fmt ", std::hex, +f); return "timestamp is not written in the most compact layout"; } break; }
	default: break;
	}
	return nullptr;
}
bool contains_ts96(const Val& v) {
	if (v.t == RT::Ts) return !(v.tsSec >= 0 && v.tsSec < (1LL << 34));
	for (auto& e : v.arr) if (contains_ts96(e)) return true;
	for (auto& e : v.map) if (contains_ts96(e.first) || contains_ts96(e.second)) return true;
	return false;
}

// full judgement of the bytes the library wrote for `value`
template <class T> const char* judge(vf::Ctx* c, const T& value, std::string& detail, bool* kf35 = nullptr) {
	std::string bytes, sbytes; Cfg mem, str; str.stream = true;
	Outcome so = save<MsgPackArchive>(value, bytes, mem);
	if (!so.ok()) { detail = "save: " + so.str(); return "saving a representable value to MsgPack failed"; }
	Outcome s2 = save<MsgPackArchive>(value, sbytes, str);
	detail = vf::cat(mdl::show(value), " -> ", vf::hex(bytes.substr(0, 160)), bytes.size() > 160 ? ".." : "");
	if (!s2.ok() || sbytes != bytes) { detail += " stream=" + vf::hex(sbytes.substr(0, 160)); return "stream output differs from memory output"; }
	const Val want = mdl::to_ref(value);
	Val got; bool strictOk = true; std::string err;
	try { got = refmp::Decoder::document(bytes); } catch (const refmp::IllFormed& e) { strictOk = false; err = e.what(); }
	auto matches = [&](const Val& g) { return unordered_kind<T>::value ? mdl::same_unordered(g, want) : refmp::same(g, want); };
	if (!strictOk || !matches(got)) {
		// recorded finding KF-35: the 96-bit timestamp is written seconds-first (the specification says nanoseconds-first)
		if (contains_ts96(want)) {
			try { Val q = refmp::Decoder::document(bytes, true); if (matches(q)) { if (kf35) *kf35 = true; if (c) c->label("excluded:KF-35-ts96-field-order"); std::string w; if (auto r = minimal_violation(q, w)) { detail += " @ " + w; return r; } return nullptr; } }
			catch (const refmp::IllFormed&) {}
		}
		if (!strictOk) { detail += " : " + err; return "output is not one well-formed MessagePack object"; }
		detail += vf::cat(" decoded=", refmp::show(got), " expected=", refmp::show(want)); return "an independent decoder recovers different data";
	}
	std::string w; if (auto r = minimal_violation(got, w)) { detail += " @ " + w; return r; }
	return nullptr;
}

template <class I> void sweep_int(vf::SweepCtx& c, const char* name) {
	for (long v = std::numeric_limits<I>::min(); v <= static_cast<long>(std::numeric_limits<I>::max()); v++) {
		if (c.skip(static_cast<uint64_t>(v - std::numeric_limits<I>::min()), [&] { return vf::cat(name, ":", v); })) continue;
		std::string d; const char* e = judge<I>(nullptr, static_cast<I>(v), d); c.evaluations++; c.nontrivial++;
		if (e) c.fail(e, vf::cat(name, ":", v), d);
		// the same value in the wider types
		if constexpr (std::is_signed_v<I>) { std::string d2; if (auto e2 = judge<int32_t>(nullptr, static_cast<int32_t>(v), d2)) c.fail(e2, vf::cat("int32:", v), d2); if (auto e3 = judge<int64_t>(nullptr, static_cast<int64_t>(v), d2)) c.fail(e3, vf::cat("int64:", v), d2); }
		else { std::string d2; if (auto e2 = judge<uint32_t>(nullptr, static_cast<uint32_t>(v), d2)) c.fail(e2, vf::cat("uint32:", v), d2); if (auto e3 = judge<uint64_t>(nullptr, static_cast<uint64_t>(v), d2)) c.fail(e3, vf::cat("uint64:", v), d2); }
		c.evaluations += 2;
	}
}

} // namespace

#if MODEL_GROUP < 0 || MODEL_GROUP == 0
VF_SWEEP(integers_8_16_bit, false, "exhaustive: every value of int8/uint8/int16/uint16/char (also as int32/int64 resp. uint32/uint64): one well-formed object, value recovered by the reference decoder, most compact format, stream == memory")
{
	sweep_int<int8_t>(c, "int8"); sweep_int<uint8_t>(c, "uint8"); sweep_int<int16_t>(c, "int16"); sweep_int<uint16_t>(c, "uint16");
	c.sample("int16:200 -> cc c8"); c.sample("int16:-129 -> d1 ff 7f");
}
VF_SWEEP(format_thresholds, false, "integers at 2^5, 2^7, 2^8, 2^15, 2^16, 2^31, 2^32, 2^63 +-2 in every integer type; strings, bin, arrays and maps of length 0,1,15,16,31,32,255,256,65535,65536")
{
	uint64_t idx = 0;
	for (int k : { 5, 7, 8, 15, 16, 31, 32, 63, 64 }) for (int dl = -2; dl <= 2; dl++) {
		if (c.skip(idx++, [&] { return vf::cat("2^", k, "+", dl); })) continue;
		const __int128 b = (static_cast<__int128>(1) << k) + dl; std::string d;
		auto one = [&](auto tag, __int128 x) { using I = decltype(tag); if (x < static_cast<__int128>(std::numeric_limits<I>::min()) || x > static_cast<__int128>(std::numeric_limits<I>::max())) return; c.evaluations++; c.nontrivial++; if (auto e = judge<I>(nullptr, static_cast<I>(x), d)) c.fail(e, vf::cat("2^", k, "+", dl), d); };
		for (__int128 x : { b, -b }) { one(int8_t{}, x); one(uint8_t{}, x); one(int16_t{}, x); one(uint16_t{}, x); one(int32_t{}, x); one(uint32_t{}, x); one(int64_t{}, x); one(uint64_t{}, x); }
	}
	for (size_t n : { size_t(0), size_t(1), size_t(15), size_t(16), size_t(31), size_t(32), size_t(255), size_t(256), size_t(65535), size_t(65536) }) {
		if (c.skip(idx++, [&] { return vf::cat("len", n); })) continue;
		std::string d; c.evaluations += 5; c.nontrivial++;
		if (auto e = judge(nullptr, std::string(n, 'a'), d)) c.fail(e, vf::cat("len", n), d);
		if (auto e = judge(nullptr, std::vector<uint8_t>(n, 7), d)) c.fail(e, vf::cat("len", n), d);
		if (auto e = judge(nullptr, std::vector<int>(n, 1), d)) c.fail(e, vf::cat("len", n), d);
		if (auto e = judge(nullptr, std::vector<bool>(n, true), d)) c.fail(e, vf::cat("len", n), d);
		std::map<int, int> m; for (size_t i = 0; i < n; i++) m[static_cast<int>(i)] = 1; if (auto e = judge(nullptr, m, d)) c.fail(e, vf::cat("len", n), d);
	}
	c.sample("2^31+0 as int64 -> ce 80 00 00 00"); c.sample("len 65536 string -> db 00 01 00 00 ...");
}
#endif

VF_PROPERTY(typed_value_bytes, 6, "typed model value (90 types: integers, floats incl. NaN payloads/Inf/subnormals, 4 string widths, enum, classes with base class (first, in the middle, two bases) and conditional member, chrono time points and durations incl. negative and sub-second, byte containers, every std container, maps with string/integer/float/enum/time-point keys, optional/pointers/pair/tuple) saved to MsgPack from memory and stream: decoded by the independent reference decoder, compared with the independently derived tree, every node in its most compact format; non-trivial = value sits on a format threshold, holds a negative or sub-second time, or a container header")
{
	const size_t lo = MODEL_GROUP < 0 ? 0 : group_first[MODEL_GROUP], hi = MODEL_GROUP < 0 ? group_first[3] : group_first[MODEL_GROUP + 1];
	const size_t idx = lo + c.src.draw(hi - lo);
	with_model(idx, [&](auto tag, const char* tname) { using T = typename decltype(tag)::type;
		GenCtx g = GenCtx::forArch(MSGPACK); g.maxLen = c.src.chance(1, 12) ? 40 : 6;
		T value = gen<T>(c.src, g);
		c.describe(vf::cat(tname, " ", mdl::show(value))); c.label(vf::cat("type=", tname));
		const Val want = mdl::to_ref(value);
		c.nontrivial = want.t == RT::Arr || want.t == RT::Map || want.t == RT::Ts || want.t == RT::Bin || (want.t == RT::Str && want.s.size() >= 31) || (refmp::isInteger(want) && (refmp::intValue(want) > 127 || refmp::intValue(want) < -32));
		std::string d; if (const char* e = judge<T>(&c, value, d)) c.fail(e, vf::cat(tname, " ", d));
	});
}

#if MODEL_GROUP < 0 || MODEL_GROUP == 0
// saving under non-default (loading) policies: a member or element that cannot be written must not be dropped silently, because the
// header of its parent was already counted - the outcome is an exception or a well-formed document with matching counts
namespace {
using TpHours = std::chrono::time_point<std::chrono::system_clock, std::chrono::duration<int64_t, std::ratio<3600>>>;
struct WithTimes { int a = 1; TpHours tp{}; std::chrono::duration<int64_t, std::ratio<86400>> days{}; int b = 2; std::vector<TpHours> list;
	template <class A> void Serialize(A& ar) { ar << KeyValue("a", a) << KeyValue("tp", tp) << KeyValue("days", days) << KeyValue("b", b) << KeyValue("list", list); } };
}
VF_PROPERTY(save_with_skip_policies, 1, "class with time points / durations whose values do not fit the binary timestamp (hours / days counts near the 64-bit limits) as members and as vector elements, saved with OverflowNumberPolicy::Skip and MismatchedTypesPolicy::Skip to memory and to a stream: either an exception, or one well-formed MessagePack object whose map and array headers match what follows; non-trivial = at least one value is unrepresentable")
{
	auto big = [&]() { return c.src.coin() ? INT64_MAX - static_cast<int64_t>(c.src.draw(1000)) : INT64_MIN + static_cast<int64_t>(c.src.draw(1000)); };
	WithTimes v; bool any = false; auto pick = [&]() { if (c.src.chance(1, 2)) { any = true; return big(); } return static_cast<int64_t>(c.src.draw(1000000)) - 500000; };
	v.tp = TpHours(TpHours::duration(pick())); v.days = std::chrono::duration<int64_t, std::ratio<86400>>(pick()); for (size_t n = c.src.draw(4); n > 0; n--) v.list.push_back(TpHours(TpHours::duration(pick())));
	Cfg cfg; cfg.stream = c.src.coin(); cfg.opt.overflowNumberPolicy = OverflowNumberPolicy::Skip; cfg.opt.mismatchedTypesPolicy = MismatchedTypesPolicy::Skip;
	c.nontrivial = any; c.describe(vf::cat("save with Skip policies tp=", v.tp.time_since_epoch().count(), " days=", v.days.count(), " list=", v.list.size(), " stream=", cfg.stream));
	std::string bytes; Outcome so = save<MsgPackArchive>(v, bytes, cfg);
	if (!so.ok()) { c.label("save-rejected"); return; }
	try { (void)refmp::Decoder::document(bytes, true); } catch (const std::exception& e) { c.fail("output is not one well-formed MessagePack object", vf::cat("saved under the Skip policies: ", e.what(), " bytes=", vf::hex(bytes.substr(0, 120)))); }
}
VF_PROPERTY(kf35_ts96_order, 1, "witness of KF-35")
{
	const int64_t secs = c.src.coin() ? -1 - static_cast<int64_t>(c.src.draw(1000000)) : (1LL << 34) + static_cast<int64_t>(c.src.draw(1000000));
	std::chrono::time_point<std::chrono::system_clock, std::chrono::seconds> tp{ std::chrono::seconds(secs) };
	c.describe(vf::cat("kf35 ", secs)); c.nontrivial = true;
	std::string d; bool kf = false; const char* e = judge(nullptr, tp, d, &kf);
	if (e) c.fail(e, d);
	if (kf) c.fail("KF-35: timestamp 96 is written seconds-first; the specification (and every other decoder) expects nanoseconds first", d);
}
#endif

int main(int argc, char** argv) {
	if (const char* e = refmp::selftest()) { fprintf(stderr, "ORACLE SELF-TEST FAILED: ref_msgpack %s\n", e); return 2; }
	return vf::engine_main(argc, argv, "c06_msgpack_write");
}
