// to_ref.h — the MessagePack data model a typed value must produce, derived independently from the type's meaning
// (declaration order of members, container iteration order, bin for byte containers, Timestamp for chrono types).
#pragma once
#include "models.h"

namespace mdl {
using refmp::Val;

template <class T> Val to_ref(const T& v);
namespace detail {
inline Val ts_from_ticks(__int128 count, __int128 num, __int128 den) {   // floor to seconds + nanoseconds in 0..999999999
	__int128 secs, frac = 0; if (den == 1) secs = count * num; else { secs = count / den; frac = count - secs * den; if (frac < 0) { secs -= 1; frac += den; } }
	return refmp::mkTs(static_cast<int64_t>(secs), static_cast<uint32_t>(frac * (1000000000 / den)));
}
template <class T, class = void> struct R;
template <> struct R<bool> { static Val f(const bool& v) { return refmp::mkBool(v); } };
template <class T> struct R<T, std::enable_if_t<std::is_integral_v<T> && !std::is_same_v<T, bool>>> { static Val f(const T& v) { if constexpr (std::is_signed_v<T>) return refmp::mkInt(v); else return refmp::mkUInt(v); } };
template <> struct R<float> { static Val f(const float& v) { return refmp::mkF32(v); } };
template <> struct R<double> { static Val f(const double& v) { return refmp::mkF64(v); } };
template <> struct R<std::string> { static Val f(const std::string& v) { return refmp::mkStr(v); } };
template <> struct R<std::u16string> { static Val f(const std::u16string& v) { Scalars t; refutf::dec16(v, t); return refmp::mkStr(refutf::enc8(t)); } };
template <> struct R<std::u32string> { static Val f(const std::u32string& v) { return refmp::mkStr(refutf::enc8(v)); } };
template <> struct R<std::wstring> { static Val f(const std::wstring& v) { return refmp::mkStr(refutf::enc8(Scalars(v.begin(), v.end()))); } };
template <> struct R<Color> { static Val f(const Color& v) { static const char* n[] = { "Red", "Green", "Blue", "Dark violet" }; return refmp::mkStr(n[static_cast<int>(v)]); } };
template <> struct R<Pt> { static Val f(const Pt& v) { return refmp::mkMap({ { refmp::mkStr("x"), refmp::mkInt(v.x) }, { refmp::mkStr("y"), refmp::mkInt(v.y) } }); } };
template <> struct R<External> { static Val f(const External& v) { return refmp::mkMap({ { refmp::mkStr("id"), refmp::mkInt(v.id) }, { refmp::mkStr("label"), mdl::to_ref(v.label) } }); } };
template <> struct R<DerivedLate> { static Val f(const DerivedLate& v) { return refmp::mkMap({ { refmp::mkStr("first"), refmp::mkInt(v.first) }, { refmp::mkStr("baseId"), refmp::mkInt(v.baseId) }, { refmp::mkStr("baseName"), refmp::mkStr(v.baseName) }, { refmp::mkStr("last"), refmp::mkStr(v.last) } }); } };
template <> struct R<TwoBases> { static Val f(const TwoBases& v) { return refmp::mkMap({ { refmp::mkStr("baseId"), refmp::mkInt(v.baseId) }, { refmp::mkStr("baseName"), refmp::mkStr(v.baseName) }, { refmp::mkStr("tag"), refmp::mkInt(v.tag) }, { refmp::mkStr("flag"), refmp::mkBool(v.flag) } }); } };
template <> struct R<LongKeys> { static Val f(const LongKeys& v) { return refmp::mkMap({ { refmp::mkStr(VF_KEY31), refmp::mkInt(v.a) }, { refmp::mkStr(VF_KEY32), refmp::mkInt(v.b) }, { refmp::mkStr(VF_KEY33), refmp::mkInt(v.c) }, { refmp::mkStr("s"), refmp::mkStr(v.s) } }); } };
template <> struct R<WithAttrs> { static Val f(const WithAttrs& v) { return refmp::mkMap({ { refmp::mkStr("id"), refmp::mkInt(v.id) }, { refmp::mkStr("ratio"), refmp::mkF64(v.ratio) }, { refmp::mkStr("weight"), refmp::mkF32(v.weight) }, { refmp::mkStr("label"), refmp::mkStr(v.label) }, { refmp::mkStr("flag"), refmp::mkBool(v.flag) }, { refmp::mkStr("big"), refmp::mkUInt(v.big) }, { refmp::mkStr("node"), refmp::mkF64(v.node) } }); } };
template <> struct R<EmptyKey> { static Val f(const EmptyKey& v) { return refmp::mkMap({ { refmp::mkStr("a"), refmp::mkInt(v.a) }, { refmp::mkStr(""), refmp::mkStr(v.s) }, { refmp::mkStr("z"), refmp::mkInt(v.z) } }); } };
template <> struct R<Derived> { static Val f(const Derived& v) {
	std::vector<std::pair<Val, Val>> m = { { refmp::mkStr("baseId"), refmp::mkInt(v.baseId) }, { refmp::mkStr("baseName"), refmp::mkStr(v.baseName) }, { refmp::mkStr("ratio"), refmp::mkF64(v.ratio) }, { refmp::mkStr("items"), mdl::to_ref(v.items) }, { refmp::mkStr("hasExtra"), refmp::mkBool(v.hasExtra) } };
	if (v.hasExtra) m.push_back({ refmp::mkStr("extra"), refmp::mkInt(v.extra) });
	m.push_back({ refmp::mkStr("origin"), mdl::to_ref(v.origin) }); return refmp::mkMap(m); } };
template <class Rp, class P> struct R<std::chrono::duration<Rp, P>> { static Val f(const std::chrono::duration<Rp, P>& v) { return ts_from_ticks(v.count(), P::num, P::den); } };
template <class D> struct R<std::chrono::time_point<std::chrono::system_clock, D>> { static Val f(const std::chrono::time_point<std::chrono::system_clock, D>& v) { return ts_from_ticks(v.time_since_epoch().count(), D::period::num, D::period::den); } };
template <class C> Val seq_ref(const C& c) { std::vector<Val> a; for (const auto& e : c) a.push_back(mdl::to_ref(e)); return refmp::mkArr(a); }
template <class C> Val bin_ref(const C& c) { std::string b; for (auto e : c) b.push_back(static_cast<char>(e)); return refmp::mkBin(b); }
template <class T, class A> struct R<std::vector<T, A>> { static Val f(const std::vector<T, A>& v) {
	if constexpr (std::is_same_v<T, char> || std::is_same_v<T, signed char> || std::is_same_v<T, unsigned char>) return bin_ref(v);
	else { std::vector<Val> a; for (size_t i = 0; i < v.size(); i++) { T e = v[i]; a.push_back(mdl::to_ref(e)); } return refmp::mkArr(a); } } };
template <class T> struct R<std::deque<T>> { static Val f(const std::deque<T>& v) { return seq_ref(v); } };
template <class T> struct R<std::list<T>> { static Val f(const std::list<T>& v) { return seq_ref(v); } };
template <class T> struct R<std::forward_list<T>> { static Val f(const std::forward_list<T>& v) { return seq_ref(v); } };
template <class T> struct R<std::set<T>> { static Val f(const std::set<T>& v) { return seq_ref(v); } };
template <class T> struct R<std::multiset<T>> { static Val f(const std::multiset<T>& v) { return seq_ref(v); } };
template <class T> struct R<std::unordered_set<T>> { static Val f(const std::unordered_set<T>& v) { return seq_ref(v); } };
template <class T> struct R<std::unordered_multiset<T>> { static Val f(const std::unordered_multiset<T>& v) { return seq_ref(v); } };
template <class T, size_t N> struct R<std::array<T, N>> { static Val f(const std::array<T, N>& v) { return seq_ref(v); } };
template <class T> struct R<std::valarray<T>> { static Val f(const std::valarray<T>& v) { std::vector<Val> a; for (size_t i = 0; i < v.size(); i++) a.push_back(mdl::to_ref(v[i])); return refmp::mkArr(a); } };
template <size_t N> struct R<std::bitset<N>> { static Val f(const std::bitset<N>& v) { std::vector<Val> a; for (size_t i = 0; i < N; i++) a.push_back(refmp::mkBool(v.test(i))); return refmp::mkArr(a); } };
template <class T> struct R<std::queue<T>> { static Val f(std::queue<T> q) { std::vector<Val> a; while (!q.empty()) { a.push_back(mdl::to_ref(q.front())); q.pop(); } return refmp::mkArr(a); } };
template <class T> struct R<std::stack<T>> { static Val f(std::stack<T> q) { std::vector<Val> a; while (!q.empty()) { a.insert(a.begin(), mdl::to_ref(q.top())); q.pop(); } return refmp::mkArr(a); } };
template <class T> struct R<std::priority_queue<T>> { static Val f(std::priority_queue<T> q) { std::vector<Val> a; while (!q.empty()) { a.push_back(mdl::to_ref(q.top())); q.pop(); } return refmp::mkArr(a); } };
// map keys: strings as str, integers as integers, floats as floats, time points as timestamps, enums by their registered name
template <class K> Val key_ref(const K& k) { return mdl::to_ref(k); }
template <class M> Val map_ref(const M& m) { std::vector<std::pair<Val, Val>> r; for (const auto& kv : m) r.push_back({ key_ref(kv.first), mdl::to_ref(kv.second) }); return refmp::mkMap(r); }
template <class M> Val multimap_ref(const M& m) { std::vector<Val> a; for (const auto& kv : m) a.push_back(refmp::mkMap({ { refmp::mkStr("key"), mdl::to_ref(kv.first) }, { refmp::mkStr("value"), mdl::to_ref(kv.second) } })); return refmp::mkArr(a); }
template <class K, class V> struct R<std::map<K, V>> { static Val f(const std::map<K, V>& v) { return map_ref(v); } };
template <class K, class V> struct R<std::unordered_map<K, V>> { static Val f(const std::unordered_map<K, V>& v) { return map_ref(v); } };
template <class K, class V> struct R<std::multimap<K, V>> { static Val f(const std::multimap<K, V>& v) { return multimap_ref(v); } };
template <class K, class V> struct R<std::unordered_multimap<K, V>> { static Val f(const std::unordered_multimap<K, V>& v) { return multimap_ref(v); } };
template <class A, class B> struct R<std::pair<A, B>> { static Val f(const std::pair<A, B>& v) { return refmp::mkMap({ { refmp::mkStr("key"), mdl::to_ref(v.first) }, { refmp::mkStr("value"), mdl::to_ref(v.second) } }); } };
template <class... Ts> struct R<std::tuple<Ts...>> { static Val f(const std::tuple<Ts...>& v) { std::vector<Val> a; std::apply([&](const auto&... e) { (a.push_back(mdl::to_ref(e)), ...); }, v); return refmp::mkArr(a); } };
template <class T> struct R<std::optional<T>> { static Val f(const std::optional<T>& v) { return v ? mdl::to_ref(*v) : refmp::mkNil(); } };
template <class T> struct R<std::unique_ptr<T>> { static Val f(const std::unique_ptr<T>& v) { return v ? mdl::to_ref(*v) : refmp::mkNil(); } };
template <class T> struct R<std::shared_ptr<T>> { static Val f(const std::shared_ptr<T>& v) { return v ? mdl::to_ref(*v) : refmp::mkNil(); } };
}
template <class T> Val to_ref(const T& v) { return detail::R<T>::f(v); }

// containers whose iteration order is unspecified: the array / map entries are compared as multisets
template <class T> struct unordered_kind : std::integral_constant<int, 0> {};
template <class T> struct unordered_kind<std::unordered_set<T>> : std::integral_constant<int, 1> {};
template <class T> struct unordered_kind<std::unordered_multiset<T>> : std::integral_constant<int, 1> {};
template <class K, class V> struct unordered_kind<std::unordered_map<K, V>> : std::integral_constant<int, 1> {};
template <class K, class V> struct unordered_kind<std::unordered_multimap<K, V>> : std::integral_constant<int, 1> {};
template <class T> struct unordered_kind<std::priority_queue<T>> : std::integral_constant<int, 1> {};   // heap order of the underlying vector

inline bool same_unordered(const Val& a, const Val& b) {   // top level entries in any order
	if (a.t != b.t) return false;
	if (a.t == refmp::T::Arr) { if (a.arr.size() != b.arr.size()) return false; std::vector<bool> used(b.arr.size(), false); for (auto& x : a.arr) { bool f = false; for (size_t i = 0; i < b.arr.size(); i++) if (!used[i] && refmp::same(x, b.arr[i])) { used[i] = f = true; break; } if (!f) return false; } return true; }
	if (a.t == refmp::T::Map) { if (a.map.size() != b.map.size()) return false; std::vector<bool> used(b.map.size(), false); for (auto& x : a.map) { bool f = false; for (size_t i = 0; i < b.map.size(); i++) if (!used[i] && refmp::same(x.first, b.map[i].first) && refmp::same(x.second, b.map[i].second)) { used[i] = f = true; break; } if (!f) return false; } return true; }
	return refmp::same(a, b);
}

} // namespace mdl
