// kf61.h - recognises the class of JSON number literals of recorded finding KF-61 (third-party RapidJSON 1.1.0, kParseFullPrecisionFlag).
#pragma once
#include <string>
#include <cstdlib>
namespace kf61 {
// RapidJSON 1.1.0 as installed mis-handles decimal literals whose magnitude is beyond the double range but passes its crude exponent check
// (assert / garbage value above ~1e308, out-of-bounds read of the cached-powers table or garbage below ~1e-324), and normalises a zero
// significand with an exponent through clz(0) (`0e-30`: undefined behaviour in DiyFp::Normalize, loads as 1.58e-30), as it does a significand
// of more than 20 digits that starts with 18446744073709551615 (rounded up, it wraps to 0: 184467440737095516155 loads as 16).  A failing process ends a
// libFuzzer campaign and kills a sanitizer-built harness, so the class is excluded by construction (and counted); the witnesses in
// replay/C02/KF-61-*.json run with VF_NO_EXCL=1 on every check.
inline bool literal(const std::string& doc) {
	static const bool off = getenv("VF_NO_EXCL") != nullptr; if (off) return false;
	std::string t; t.reserve(doc.size()); for (char ch : doc) if (ch) t.push_back(ch);   // ASCII text of UTF-16 / UTF-32 documents
	auto dig = [&](size_t i) { return i < t.size() && t[i] >= '0' && t[i] <= '9'; };
	for (size_t i = 0; i < t.size();) {
		if (!dig(i)) { i++; continue; }
		size_t j = i; long intDigits = 0, fracZeros = 0; bool lead = true, nonZero = false; std::string sig;
		while (dig(j)) { if (t[j] != '0') { lead = false; nonZero = true; } if (!lead) { intDigits++; sig.push_back(t[j]); } j++; }
		if (j < t.size() && t[j] == '.') { j++; bool zeros = intDigits == 0; while (dig(j)) { if (t[j] != '0') nonZero = true; if (zeros) { if (t[j] == '0') fracZeros++; else zeros = false; } if (!zeros) sig.push_back(t[j]); j++; } }
		if (sig.size() > 20 && sig.compare(0, 20, "18446744073709551615") == 0) return true;   // the 64-bit significand is rounded up from 2^64-1 and wraps to 0
		long exp = 0; bool hasExp = false;
		if (j < t.size() && (t[j] == 'e' || t[j] == 'E')) { size_t k = j + 1; bool neg = false; if (k < t.size() && (t[k] == '+' || t[k] == '-')) { neg = t[k] == '-'; k++; } long e = 0; bool any = false; while (dig(k)) { if (e < 100000) e = e * 10 + (t[k] - '0'); k++; any = true; } if (any) { exp = neg ? -e : e; j = k; hasExp = true; } }
		if (!nonZero && hasExp) return true;
		const long mag = (intDigits > 0 ? intDigits : -fracZeros) + exp;
		if (mag > 300 || mag < -300) return true;
		i = j;
	}
	return false;
}
}
