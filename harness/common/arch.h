// arch.h — shared scaffolding for archive harnesses: the four archives, configurations, custom stream buffers,
// and uniform outcome capture.
#pragma once
#include <sstream>
#include <string>
#include <optional>
#include <streambuf>
#include <istream>
#include <ostream>
#include <fstream>
#include <cstdio>
#include <unistd.h>
#include "bitserializer/bit_serializer.h"
#include "bitserializer/rapidjson_archive.h"
#include "bitserializer/pugixml_archive.h"
#include "bitserializer/csv_archive.h"
#include "bitserializer/msgpack_archive.h"
#include "../engine.h"

namespace arch {
using namespace BitSerializer;
using JsonArchive = Json::RapidJson::JsonArchive;
using XmlArchive = Xml::PugiXml::XmlArchive;
using CsvArchive = Csv::CsvArchive;
using MsgPackArchive = MsgPack::MsgPackArchive;

enum ArchId { MSGPACK = 0, JSON = 1, XML = 2, CSV = 3 };
inline const char* arch_name(int a) { static const char* n[] = { "msgpack", "json", "xml", "csv" }; return n[a]; }

// ---- stream buffers ---------------------------------------------------------------------------------------------------
// delivers at most `chunk` bytes per underflow (short reads), seekable
class ShortReadBuf : public std::streambuf {
public:
	ShortReadBuf(std::string data, size_t chunk) : mData(std::move(data)), mChunk(chunk ? chunk : 1) { setg(mData.data(), mData.data(), mData.data()); }
protected:
	int_type underflow() override {
		if (gptr() < egptr()) return traits_type::to_int_type(*gptr());
		size_t pos = static_cast<size_t>(egptr() - mData.data()); if (pos >= mData.size()) return traits_type::eof();
		size_t n = std::min(mChunk, mData.size() - pos); setg(mData.data(), mData.data() + pos, mData.data() + pos + n); return traits_type::to_int_type(*gptr());
	}
	pos_type seekoff(off_type off, std::ios_base::seekdir dir, std::ios_base::openmode) override {
		off_type base = dir == std::ios_base::beg ? 0 : dir == std::ios_base::cur ? static_cast<off_type>(gptr() - mData.data()) : static_cast<off_type>(mData.size());
		off_type p = base + off; if (p < 0 || p > static_cast<off_type>(mData.size())) return pos_type(off_type(-1));
		setg(mData.data(), mData.data() + p, mData.data() + p); return pos_type(p);
	}
	pos_type seekpos(pos_type p, std::ios_base::openmode m) override { return seekoff(off_type(p), std::ios_base::beg, m); }
private:
	std::string mData; size_t mChunk;
};
// same but not seekable
class NonSeekableBuf : public ShortReadBuf { public: using ShortReadBuf::ShortReadBuf; protected: pos_type seekoff(off_type, std::ios_base::seekdir, std::ios_base::openmode) override { return pos_type(off_type(-1)); } pos_type seekpos(pos_type, std::ios_base::openmode) override { return pos_type(off_type(-1)); } };

// ---- configuration ------------------------------------------------------------------------------------------------------
struct Cfg {
	bool stream = false; int streamKind = 0;   // 0 = stringstream, 1 = short-read seekable, 2 = non-seekable, 3 = file (SaveObjectToFile / LoadObjectFromFile)
	size_t chunk = 7;
	SerializationOptions opt;
	std::string str() const {
		return vf::cat(stream ? "stream" : "mem", stream ? vf::cat("/k", streamKind, "/c", chunk) : "", " enc=", static_cast<int>(opt.streamOptions.encoding), " bom=", opt.streamOptions.writeBom, " fmt=", opt.formatOptions.enableFormat,
			opt.formatOptions.enableFormat ? vf::cat("(", static_cast<int>(opt.formatOptions.paddingChar), "x", opt.formatOptions.paddingCharNum, ")") : "", " sep=", static_cast<int>(opt.valuesSeparator),
			" ovf=", static_cast<int>(opt.overflowNumberPolicy), " mis=", static_cast<int>(opt.mismatchedTypesPolicy), " utf=", static_cast<int>(opt.utfEncodingErrorPolicy), " maxErr=", opt.maxValidationErrors);
	}
};
inline void gen_policies(vf::Src& s, SerializationOptions& o) {
	o.overflowNumberPolicy = s.coin() ? OverflowNumberPolicy::Skip : OverflowNumberPolicy::ThrowError;
	o.mismatchedTypesPolicy = s.coin() ? MismatchedTypesPolicy::Skip : MismatchedTypesPolicy::ThrowError;
}
// kind of stream: stringstream, short-read seekable, non-seekable (only where the reader need not seek: the text archives read the whole stream), file
inline int gen_stream_kind(vf::Src& s, bool seekRequired) { int k = static_cast<int>(s.draw(4)); return (k == 2 && seekRequired) ? 3 : k; }
// scratch file of this process (forked children get their own)
inline std::string scratch_file() { const char* d = getenv("TMPDIR"); return vf::cat(d && *d ? d : "/tmp", "/vf_scratch_", static_cast<long>(getpid()), ".dat"); }
struct ScratchFile { std::string path = scratch_file(); ~ScratchFile() { std::remove(path.c_str()); } };
// output configuration for text archives (encoding/BOM/format) and stream-vs-memory
inline Cfg gen_cfg(vf::Src& s, int archId, bool allowStream = true) {
	Cfg c; c.stream = allowStream && s.coin(); c.streamKind = c.stream ? gen_stream_kind(s, archId == MSGPACK) : 0; c.chunk = 1 + s.draw(40);
	if (archId != MSGPACK) {
		if (c.stream) { c.opt.streamOptions.encoding = static_cast<Convert::Utf::UtfType>(s.draw(5)); c.opt.streamOptions.writeBom = s.coin(); }
		if (archId == JSON || archId == XML) { c.opt.formatOptions.enableFormat = s.coin(); if (c.opt.formatOptions.enableFormat) { c.opt.formatOptions.paddingChar = s.coin() ? ' ' : '\t'; c.opt.formatOptions.paddingCharNum = static_cast<uint16_t>(archId == XML ? 1 + s.draw(8) : s.draw(9)); } }   // XML asserts a non-empty indent (documented precondition)
		if (archId == CSV) { static const char seps[] = { ',', ';', '\t', ' ', '|' }; c.opt.valuesSeparator = seps[s.draw(5)]; }
	}
	return c;
}

// ---- outcome capture ------------------------------------------------------------------------------------------------------
struct Outcome {
	enum K { Ok, SerEx, Validation, StdEx, Unknown } k = Ok;
	SerializationErrorCode code = SerializationErrorCode::ParsingError; std::string what; ValidationMap errors;
	bool ok() const { return k == Ok; }
	std::string str() const { switch (k) { case Ok: return "ok"; case SerEx: return vf::cat("SerializationException(", Convert::ToString(code), "): ", what); case Validation: return vf::cat("ValidationException[", errors.size(), "]"); case StdEx: return "std::exception: " + what; default: return "non-std exception"; } }
	// coarse category for differential comparison
	std::string category() const { switch (k) { case Ok: return "ok"; case SerEx: return Convert::ToString(code); case Validation: return "validation"; case StdEx: return "std"; default: return "unknown"; } }
};
template <class F> Outcome capture(F&& f) {
	Outcome o;
	try { f(); }
	catch (const ValidationException& e) { o.k = Outcome::Validation; o.code = e.GetErrorCode(); o.errors = e.GetValidationErrors(); o.what = e.what(); }
	catch (const SerializationException& e) { o.k = Outcome::SerEx; o.code = e.GetErrorCode(); o.what = e.what(); }
	catch (const std::exception& e) { o.k = Outcome::StdEx; o.what = e.what(); }
	catch (const vf::Failure&) { throw; }
	catch (const vf::Discard&) { throw; }
	catch (...) { o.k = Outcome::Unknown; }
	return o;
}

// ---- save / load through the public API under a configuration ----------------------------------------------------------------
template <class A, class T> Outcome save(const T& value, std::string& bytes, const Cfg& c) {
	return capture([&] {
		if (c.stream && c.streamKind == 3) {
			// file medium, second use of the path: the file already holds longer stale content, overwrite = true must replace it entirely
			ScratchFile f; { std::ofstream pre(f.path, std::ios::binary | std::ios::trunc); pre << std::string(2048 + 40 * c.chunk, 'Z'); }
			SaveObjectToFile<A>(const_cast<T&>(value), f.path, c.opt, true);
			std::ifstream in(f.path, std::ios::binary); std::ostringstream os; os << in.rdbuf(); bytes = os.str();
		}
		else if (c.stream) { std::ostringstream os; SaveObject<A>(const_cast<T&>(value), os, c.opt); bytes = os.str(); }
		else { bytes.clear(); SaveObject<A>(const_cast<T&>(value), bytes, c.opt); }
	});
}
template <class A, class T> Outcome load(T& value, const std::string& bytes, const Cfg& c) {
	return capture([&] {
		if (!c.stream) { LoadObject<A>(value, bytes, c.opt); return; }
		if (c.streamKind == 0) { std::istringstream is(bytes); LoadObject<A>(value, is, c.opt); }
		else if (c.streamKind == 1) { ShortReadBuf b(bytes, c.chunk); std::istream is(&b); LoadObject<A>(value, is, c.opt); }
		else if (c.streamKind == 3) { ScratchFile f; { std::ofstream out(f.path, std::ios::binary | std::ios::trunc); out.write(bytes.data(), static_cast<std::streamsize>(bytes.size())); } LoadObjectFromFile<A>(value, f.path, c.opt); }
		else { NonSeekableBuf b(bytes, c.chunk); std::istream is(&b); LoadObject<A>(value, is, c.opt); }
	});
}

} // namespace arch
