// model_types.h — the list of typed models (index, type, compile-time group) shared by the round-trip and conformance harnesses.
#pragma once
#include "models.h"

namespace mdl {
namespace ch = std::chrono;
template <class T> struct Tag { using type = T; };
using VecInt = std::vector<int>; using VecStr = std::vector<std::string>; using VecBool = std::vector<bool>; using VecPt = std::vector<Pt>; using VecVecInt = std::vector<std::vector<int>>; using Bytes = std::vector<uint8_t>; using Chars = std::vector<char>; using VecBytes = std::vector<std::vector<uint8_t>>;
using VecOptInt = std::vector<std::optional<int>>; using VecDbl = std::vector<double>; using VecU16 = std::vector<std::u16string>;
using A3 = std::array<int, 3>; using A2Str = std::array<std::string, 2>;
using MapSI = std::map<std::string, int>; using MapIS = std::map<int, std::string>; using MapDbl = std::map<double, int>; using MapU64 = std::map<uint64_t, Pt>; using MapU64I = std::map<uint64_t, int>; using MapI64S = std::map<int64_t, std::string>; using MapI8 = std::map<int8_t, int>; using MapEnum = std::map<Color, int>; using MapWs = std::map<std::wstring, int>; using MapU16 = std::map<std::u16string, std::string>;
using MapSVec = std::map<std::string, std::vector<int>>; using MapSMap = std::map<std::string, std::map<std::string, int>>; using MapFloat = std::map<float, std::string>;
using TpS = ch::time_point<ch::system_clock, ch::seconds>; using TpMs = ch::time_point<ch::system_clock, ch::milliseconds>; using TpNs = ch::time_point<ch::system_clock, ch::nanoseconds>; using TpUs = ch::time_point<ch::system_clock, ch::microseconds>; using TpMin = ch::time_point<ch::system_clock, ch::duration<int32_t, std::ratio<60>>>;
using MapTp = std::map<TpS, int>; using MMapIS = std::multimap<int, std::string>; using MMapSS = std::multimap<std::string, int>; using UMapSI = std::unordered_map<std::string, int>; using UMapIS = std::unordered_map<int, std::string>; using UMMapIS = std::unordered_multimap<int, std::string>;
using PairIS = std::pair<int, std::string>; using PairSP = std::pair<std::string, Pt>; using TupISD = std::tuple<int, std::string, double>; using TupNested = std::tuple<bool, std::vector<int>, Pt>;
using DurDays = ch::duration<int64_t, std::ratio<86400>>; using DurH32 = ch::duration<int32_t, std::ratio<3600>>;
using OptVec = std::optional<std::vector<int>>; using UPtrVec = std::unique_ptr<std::vector<std::string>>; using SPtrMap = std::shared_ptr<std::map<std::string, int>>;

// (index, type, group)
#define MODEL_TYPES(X) \
	X(0, bool, 0) X(1, int8_t, 0) X(2, uint8_t, 0) X(3, int16_t, 0) X(4, uint16_t, 0) X(5, int32_t, 0) X(6, uint32_t, 0) X(7, int64_t, 0) X(8, uint64_t, 0) X(9, float, 0) X(10, double, 0) X(11, char, 0) \
	X(12, std::string, 0) X(13, std::u16string, 0) X(14, std::u32string, 0) X(15, std::wstring, 0) X(16, Color, 0) X(17, Pt, 0) X(18, Derived, 0) X(19, External, 0) \
	X(20, TpS, 0) X(21, TpMs, 0) X(22, TpNs, 0) X(23, TpUs, 0) X(24, TpMin, 0) X(25, ch::seconds, 0) X(26, ch::milliseconds, 0) X(27, ch::nanoseconds, 0) X(28, DurDays, 0) X(29, DurH32, 0) \
	X(30, VecInt, 1) X(31, VecStr, 1) X(32, VecBool, 1) X(33, VecPt, 1) X(34, VecVecInt, 1) X(35, Bytes, 1) X(36, Chars, 1) X(37, VecBytes, 1) X(38, VecOptInt, 1) X(39, VecDbl, 1) X(40, VecU16, 1) \
	X(41, std::deque<int>, 1) X(42, std::list<std::string>, 1) X(43, std::forward_list<int>, 1) X(44, A3, 1) X(45, A2Str, 1) X(46, std::valarray<double>, 1) X(47, std::bitset<9>, 1) X(48, std::set<int>, 1) X(49, std::multiset<int>, 1) \
	X(50, std::unordered_set<std::string>, 1) X(51, std::unordered_multiset<int>, 1) X(52, std::queue<int>, 1) X(53, std::stack<std::string>, 1) X(54, std::priority_queue<int>, 1) X(55, std::set<std::string>, 1) \
	X(56, MapSI, 2) X(57, MapIS, 2) X(58, MapDbl, 2) X(59, MapU64, 2) X(60, MapI8, 2) X(61, MapEnum, 2) X(62, MapWs, 2) X(63, MapU16, 2) X(64, MapSVec, 2) X(65, MapSMap, 2) X(66, MapFloat, 2) X(67, MapTp, 2) \
	X(68, MMapIS, 2) X(69, MMapSS, 2) X(70, UMapSI, 2) X(71, UMapIS, 2) X(72, UMMapIS, 2) X(73, PairIS, 2) X(74, PairSP, 2) X(75, TupISD, 2) X(76, TupNested, 2) \
	X(77, std::optional<int>, 2) X(78, std::optional<std::string>, 2) X(79, std::optional<Pt>, 2) X(80, OptVec, 2) X(81, std::unique_ptr<Pt>, 2) X(82, std::unique_ptr<int>, 2) X(83, UPtrVec, 2) X(84, std::shared_ptr<std::string>, 2) X(85, SPtrMap, 2) X(86, std::shared_ptr<Derived>, 2) X(87, DerivedLate, 2) X(88, TwoBases, 2) X(89, std::vector<DerivedLate>, 2) X(90, LongKeys, 2) X(91, EmptyKey, 2) X(92, MapU64I, 2) X(93, MapI64S, 2) X(94, WithAttrs, 2) X(95, std::vector<WithAttrs>, 2)

constexpr size_t group_first[] = { 0, 30, 56, 96 };

#ifndef MODEL_GROUP
#define MODEL_GROUP -1
#endif
template <class F> void with_model(size_t idx, F&& f) {
	switch (idx) {
#define X(i, T, g) case i: if constexpr (MODEL_GROUP < 0 || g == MODEL_GROUP) { f(Tag<T>{}, #T); } break;
		MODEL_TYPES(X)
#undef X
	default: break;
	}
}

} // namespace mdl
