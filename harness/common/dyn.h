// dyn.h — an arbitrary-shape value tree (refmp::Val) serialized through the PUBLIC scope API of any archive, the way
// types/std/*.h are written.  The library has no type introspection, so loading is schema-driven: the target is the
// shape of the expected tree; arrays are loaded IsEnd()-driven (like the library's own container loops) and the number
// of elements actually delivered is recorded.  Each level is guarded by the library's own can_serialize_* traits.
#pragma once
#include "arch.h"
#include "../ref/ref_msgpack.h"
#include "bitserializer/types/std/vector.h"
#include "bitserializer/types/std/chrono.h"

namespace dyn {
using namespace BitSerializer;
using refmp::Val; using RT = refmp::T;
struct Unsupported : std::logic_error { Unsupported() : std::logic_error("dyn: kind unsupported at this level of this archive") {} };

struct LoadLog { size_t arraysShort = 0, arraysLong = 0, notLoaded = 0; std::vector<std::string> notes; };
inline LoadLog*& log_ptr() { static LoadLog* p = nullptr; return p; }

// the shape of a tree: same structure, zeroed leaves (what a program knows about the document it expects)
inline Val shape(const Val& n) {
	Val r; r.t = n.t; if (n.t == RT::Ext) r.extType = n.extType;
	for (auto& c : n.arr) r.arr.push_back(shape(c));
	for (auto& kv : n.map) r.map.emplace_back(kv.first, shape(kv.second));   // keys are part of the schema
	return r;
}

template <class A> bool SerializeDyn(A& a, Val& n);
template <class A, class K> bool SerializeDyn(A& a, K&& key, Val& n);

namespace detail {
template <class A, class T> bool leaf(A& a, T& v) {
	if constexpr (std::is_same_v<T, std::string>) { if constexpr (can_serialize_value_v<A, typename A::string_view_type>) return Serialize(a, v); else throw Unsupported(); }
	else if constexpr (std::is_same_v<T, BitSerializer::Detail::CBinTimestamp>) { if constexpr (can_serialize_value_v<A, T>) return a.SerializeValue(v); else throw Unsupported(); }
	else { if constexpr (can_serialize_value_v<A, T>) return Serialize(a, v); else throw Unsupported(); }
}
template <class A, class K, class T> bool leafk(A& a, K&& key, T& v) {
	if constexpr (std::is_same_v<T, std::string>) { if constexpr (can_serialize_value_with_key_v<A, typename A::string_view_type, K>) return Serialize(a, key, v); else throw Unsupported(); }
	else if constexpr (std::is_same_v<T, BitSerializer::Detail::CBinTimestamp>) { if constexpr (can_serialize_value_with_key_v<A, T, K>) return a.SerializeValue(key, v); else throw Unsupported(); }
	else { if constexpr (can_serialize_value_with_key_v<A, T, K>) return Serialize(a, key, v); else throw Unsupported(); }
}
template <class Sc> void array_body(Sc& sc, Val& n) {
	if constexpr (Sc::IsLoading()) {
		size_t i = 0;
		for (; i < n.arr.size() && !sc.IsEnd(); i++) if (!SerializeDyn(sc, n.arr[i]) && log_ptr()) log_ptr()->notLoaded++;
		if (log_ptr()) { if (i < n.arr.size()) { log_ptr()->arraysShort++; log_ptr()->notes.push_back(vf::cat("array delivered ", i, " of ", n.arr.size(), " elements")); } if (!sc.IsEnd()) { log_ptr()->arraysLong++; log_ptr()->notes.push_back("array has more elements than expected"); } }
		n.arr.resize(i);
	}
	else for (auto& c : n.arr) SerializeDyn(sc, c);
}
template <class Sc> void object_body(Sc& sc, Val& n) {
	for (auto& kv : n.map) {
		bool ok = false;
		switch (kv.first.t) {
		case RT::Str: ok = SerializeDyn(sc, kv.first.s, kv.second); break;
		case RT::Int: if constexpr (Sc::is_binary) ok = SerializeDyn(sc, kv.first.i, kv.second); else throw Unsupported(); break;
		case RT::UInt: if constexpr (Sc::is_binary) ok = SerializeDyn(sc, kv.first.u, kv.second); else throw Unsupported(); break;
		case RT::F64: if constexpr (Sc::is_binary) ok = SerializeDyn(sc, kv.first.d, kv.second); else throw Unsupported(); break;
		case RT::F32: if constexpr (Sc::is_binary) ok = SerializeDyn(sc, kv.first.f, kv.second); else throw Unsupported(); break;
		case RT::Ts: if constexpr (Sc::is_binary) { BitSerializer::Detail::CBinTimestamp ts(kv.first.tsSec, static_cast<int32_t>(kv.first.tsNs)); ok = SerializeDyn(sc, ts, kv.second); } else throw Unsupported(); break;
		default: throw Unsupported();
		}
		if (Sc::IsLoading() && !ok && log_ptr()) { log_ptr()->notLoaded++; kv.second.fmt = 0xc1; }   // mark "not loaded"
	}
}
}

template <class A> bool SerializeDyn(A& a, Val& n) {
	switch (n.t) {
	case RT::Nil: { std::nullptr_t z = nullptr; return detail::leaf(a, z); }
	case RT::Bool: return detail::leaf(a, n.b);
	case RT::Int: return detail::leaf(a, n.i);
	case RT::UInt: return detail::leaf(a, n.u);
	case RT::F32: return detail::leaf(a, n.f);
	case RT::F64: return detail::leaf(a, n.d);
	case RT::Str: return detail::leaf(a, n.s);
	case RT::Bin: { if constexpr (can_serialize_array_v<A>) { std::vector<char> b(n.s.begin(), n.s.end()); bool r = Serialize(a, b); n.s.assign(b.begin(), b.end()); return r; } else throw Unsupported(); }
	case RT::Ts: { BitSerializer::Detail::CBinTimestamp ts(n.tsSec, static_cast<int32_t>(n.tsNs)); bool r = detail::leaf(a, ts); n.tsSec = ts.Seconds; n.tsNs = static_cast<uint32_t>(ts.Nanoseconds); return r; }
	case RT::Arr: if constexpr (can_serialize_array_v<A>) { auto sc = a.OpenArrayScope(n.arr.size()); if (!sc) return false; detail::array_body(*sc, n); return true; } else throw Unsupported();
	case RT::Map: if constexpr (can_serialize_object_v<A>) { auto sc = a.OpenObjectScope(n.map.size()); if (!sc) return false; detail::object_body(*sc, n); return true; } else throw Unsupported();
	default: throw Unsupported();
	}
}
template <class A, class K> bool SerializeDyn(A& a, K&& key, Val& n) {
	switch (n.t) {
	case RT::Nil: { std::nullptr_t z = nullptr; return detail::leafk(a, key, z); }
	case RT::Bool: return detail::leafk(a, key, n.b);
	case RT::Int: return detail::leafk(a, key, n.i);
	case RT::UInt: return detail::leafk(a, key, n.u);
	case RT::F32: return detail::leafk(a, key, n.f);
	case RT::F64: return detail::leafk(a, key, n.d);
	case RT::Str: return detail::leafk(a, key, n.s);
	case RT::Bin: { if constexpr (can_serialize_array_with_key_v<A, K>) { std::vector<char> b(n.s.begin(), n.s.end()); bool r = Serialize(a, key, b); n.s.assign(b.begin(), b.end()); return r; } else throw Unsupported(); }
	case RT::Ts: { BitSerializer::Detail::CBinTimestamp ts(n.tsSec, static_cast<int32_t>(n.tsNs)); bool r = detail::leafk(a, key, ts); n.tsSec = ts.Seconds; n.tsNs = static_cast<uint32_t>(ts.Nanoseconds); return r; }
	case RT::Arr: if constexpr (can_serialize_array_with_key_v<A, K>) { auto sc = a.OpenArrayScope(key, n.arr.size()); if (!sc) return false; detail::array_body(*sc, n); return true; } else throw Unsupported();
	case RT::Map: if constexpr (can_serialize_object_with_key_v<A, K>) { auto sc = a.OpenObjectScope(key, n.map.size()); if (!sc) return false; detail::object_body(*sc, n); return true; } else throw Unsupported();
	default: throw Unsupported();
	}
}

// A serializable wrapper so that SaveObject / LoadObject can be used on a tree.
struct Root { Val* n; };
} // namespace dyn

namespace BitSerializer {
// the root of a Dyn tree is dispatched by hand: LoadObject/SaveObject call Serialize(archive, value) for class types
template <class A> bool Serialize(A& a, dyn::Root& r) { return dyn::SerializeDyn(a, *r.n); }
}

namespace dyn {
template <class A> arch::Outcome save(const Val& tree, std::string& bytes, const arch::Cfg& cfg) { Val copy = tree; Root r{ &copy }; return arch::save<A>(r, bytes, cfg); }
template <class A> arch::Outcome load(Val& target, const std::string& bytes, const arch::Cfg& cfg, LoadLog* log = nullptr) { Root r{ &target }; log_ptr() = log; auto o = arch::load<A>(r, bytes, cfg); log_ptr() = nullptr; return o; }
} // namespace dyn
