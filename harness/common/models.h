// models.h — typed model values instantiating the library's own templates: generators (from vf::Src draws),
// deep equality (floats bitwise, any NaN == any NaN), short rendering, and the independently derived MessagePack tree.
#pragma once
#include <array>
#include <atomic>
#include <bitset>
#include <chrono>
#include <deque>
#include <forward_list>
#include <list>
#include <map>
#include <memory>
#include <optional>
#include <queue>
#include <set>
#include <stack>
#include <tuple>
#include <unordered_map>
#include <unordered_set>
#include <valarray>
#include <vector>
#include <cmath>
#include "arch.h"
#include "../ref/ref_utf.h"
#include "../ref/ref_msgpack.h"
#include "bitserializer/types/std/array.h"
#include "bitserializer/types/std/atomic.h"
#include "bitserializer/types/std/bitset.h"
#include "bitserializer/types/std/chrono.h"
#include "bitserializer/types/std/ctime.h"
#include "bitserializer/types/std/deque.h"
#include "bitserializer/types/std/forward_list.h"
#include "bitserializer/types/std/list.h"
#include "bitserializer/types/std/map.h"
#include "bitserializer/types/std/memory.h"
#include "bitserializer/types/std/optional.h"
#include "bitserializer/types/std/pair.h"
#include "bitserializer/types/std/queue.h"
#include "bitserializer/types/std/set.h"
#include "bitserializer/types/std/stack.h"
#include "bitserializer/types/std/tuple.h"
#include "bitserializer/types/std/unordered_map.h"
#include "bitserializer/types/std/unordered_set.h"
#include "bitserializer/types/std/valarray.h"
#include "bitserializer/types/std/vector.h"

namespace mdl {
using namespace BitSerializer;
using refutf::Scalars;

// ---- user types ------------------------------------------------------------------------------------------------------
enum class Color { Red, Green, Blue, DarkViolet };
REGISTER_ENUM(Color, { { Color::Red, "Red" }, { Color::Green, "Green" }, { Color::Blue, "Blue" }, { Color::DarkViolet, "Dark violet" } })

struct Pt {
	int x = 0; int y = 0;
	template <class A> void Serialize(A& a) { a << KeyValue("x", x) << KeyValue("y", y); }
	bool operator==(const Pt& o) const { return x == o.x && y == o.y; }
	bool operator<(const Pt& o) const { return std::tie(x, y) < std::tie(o.x, o.y); }
};
struct Base {
	int baseId = 0; std::string baseName;
	template <class A> void Serialize(A& a) { a << KeyValue("baseId", baseId) << KeyValue("baseName", baseName); }
};
struct Derived : Base {   // base class via BaseObject + a conditional member + nested containers
	double ratio = 0; std::vector<int> items; bool hasExtra = false; int extra = 0; Pt origin;
	template <class A> void Serialize(A& a) {
		a << BaseObject<Base>(*this) << KeyValue("ratio", ratio) << KeyValue("items", items) << KeyValue("hasExtra", hasExtra);
		if (hasExtra) a << KeyValue("extra", extra);
		a << KeyValue("origin", origin);
	}
};
struct Base2 { int64_t tag = 0; template <class A> void Serialize(A& a) { a << KeyValue("tag", tag); } };
struct DerivedLate : Base {   // own members before and after the base class (field counting must not depend on where BaseObject stands)
	int first = 0; std::string last;
	template <class A> void Serialize(A& a) { a << KeyValue("first", first) << BaseObject<Base>(*this) << KeyValue("last", last); }
};
struct TwoBases : Base, Base2 {   // two base classes
	bool flag = false;
	template <class A> void Serialize(A& a) { a << BaseObject<Base>(*this) << BaseObject<Base2>(*this) << KeyValue("flag", flag); }
};
// member names (string literals) at the fixstr / str8 threshold: 31, 32 and 33 bytes
#define VF_KEY31 "key_of_exactly_31_bytes_abcdefg"
#define VF_KEY32 "key_of_exactly_32_bytes_abcdefgh"
#define VF_KEY33 "key_of_exactly_33_bytes_abcdefghi"
struct LongKeys { int a = 0, b = 0, c = 0; std::string s;
	template <class A> void Serialize(A& ar) { ar << KeyValue(VF_KEY31, a) << KeyValue(VF_KEY32, b) << KeyValue(VF_KEY33, c) << KeyValue("s", s); } };
struct EmptyKey { int a = 0; std::string s; int z = 0;   // the empty string as a member name (not an XML Name: excluded for XML like the other non-Name keys, KF-44)
	template <class A> void Serialize(A& ar) { ar << KeyValue("a", a) << KeyValue("", s) << KeyValue("z", z); } };
struct WithAttrs { int id = 0; double ratio = 0; float weight = 0; std::string label; bool flag = false; uint64_t big = 0; double node = 0;   // XML: the first six are attributes of the element; elsewhere plain members
	template <class A> void Serialize(A& ar) {
		if constexpr (BitSerializer::can_serialize_attribute_v<A>) { ar << BitSerializer::AttributeValue("id", id) << BitSerializer::AttributeValue("ratio", ratio) << BitSerializer::AttributeValue("weight", weight) << BitSerializer::AttributeValue("label", label) << BitSerializer::AttributeValue("flag", flag) << BitSerializer::AttributeValue("big", big) << KeyValue("node", node); }
		else { ar << KeyValue("id", id) << KeyValue("ratio", ratio) << KeyValue("weight", weight) << KeyValue("label", label) << KeyValue("flag", flag) << KeyValue("big", big) << KeyValue("node", node); } } };
struct External { int64_t id = 0; std::u16string label; };   // serialized by a global SerializeObject
template <class A> void SerializeObject(A& a, External& v) { a << KeyValue("id", v.id) << KeyValue("label", v.label); }

// ---- generation context ------------------------------------------------------------------------------------------------
struct GenCtx {
	int archId = arch::MSGPACK;
	bool xmlText = false;        // XML 1.0 Char only, no CR (KF-13), not empty / not blank-only (KF-13)
	bool finiteOnly = false;     // JSON: NaN/Inf make the save fail loudly (accepted outcome, but uninteresting in bulk)
	bool noEmptyContainers = false;   // KF-12 (XML), KF-14 (CSV)
	bool noNulls = false;        // where "null" is indistinguishable from "absent / empty" (XML)
	bool noNulChar = false;      // BOM-less text streams: U+0000 inside the detection window makes the encoding undecidable (soundness rule 1)
	size_t maxLen = 6;
	static GenCtx forArch(int a) { GenCtx g; g.archId = a; if (a == arch::XML) { g.xmlText = g.noEmptyContainers = g.noNulls = true; } if (a == arch::JSON) g.finiteOnly = true; if (a == arch::CSV) { g.noEmptyContainers = true; } return g; }
};

inline char32_t gen_cp(vf::Src& s, const GenCtx& g) {
	for (;;) {
		char32_t c;
		switch (s.draw(10)) {
		case 0: case 1: case 2: case 3: c = static_cast<char32_t>(s.range(0x20, 0x7E)); break;
		case 4: c = static_cast<char32_t>(s.range(0xA0, 0x7FF)); break;
		case 5: c = static_cast<char32_t>(s.range(0x800, 0xFFFD)); break;
		case 6: c = static_cast<char32_t>(s.range(0x10000, 0x10FFFF)); break;
		case 7: { static const char32_t m[] = { '"', '\\', ',', ';', '\t', '|', '<', '>', '&', '\'', '\r', '\n', ' ', '/', ':', '=', '{', '}', '[', ']' }; c = m[s.draw(20)]; break; }
		case 8: { static const char32_t m[] = { 0x0, 0x1, 0x1F, 0x7F, 0x80, 0x85, 0xFEFF, 0xFFFE, 0xFFFF, 0x2028, 0xD7FF, 0xE000, 0x10000, 0x10FFFF, 0x2610, 0xFFFD }; c = m[s.draw(16)]; break; }
		default: c = static_cast<char32_t>(s.range(0x410, 0x44F)); break;
		}
		if (c >= 0xD800 && c <= 0xDFFF) continue;
		if (g.noNulChar && c == 0) continue;
		if (g.xmlText) { const bool xmlChar = c == 0x9 || c == 0xA || (c >= 0x20 && c <= 0xD7FF) || (c >= 0xE000 && c <= 0xFFFD) || c >= 0x10000; if (!xmlChar) continue; }
		return c;
	}
}
inline Scalars gen_text(vf::Src& s, const GenCtx& g, size_t maxLen = 12) {
	size_t n = s.len(maxLen); Scalars t; for (size_t i = 0; i < n; i++) t.push_back(gen_cp(s, g));
	if (g.xmlText) {   // KF-13: pugixml drops empty / whitespace-only text (and nothing else: leading and trailing blanks around visible text survive)
		auto blank = [](char32_t c) { return c == ' ' || c == '\t' || c == '\n' || c == '\r'; };
		bool allBlank = true; for (char32_t c : t) if (!blank(c)) allBlank = false;
		if (allBlank) t.insert(t.begin() + static_cast<long>(s.draw(t.size() + 1)), U'x');
	}
	return t;
}
inline std::string gen_key(vf::Src& s, const GenCtx& g, size_t idx) {   // unique by construction (suffix idx), NUL-free; XML: a Name
	std::string k;
	if (g.archId == arch::XML || s.coin()) { static const char* names[] = { "k", "key", "Name", "_id", "a.b", "x-y", "Ключ" }; k = names[s.draw(g.archId == arch::XML ? 7 : 7)]; }
	else { Scalars t; size_t n = 1 + s.draw(5); for (size_t i = 0; i < n; i++) { char32_t c = gen_cp(s, g); if (c == 0) c = U'0'; t.push_back(c); } k = refutf::enc8(t); if (g.archId == arch::CSV) for (auto& ch : k) if (ch == '\r' || ch == '\n') ch = '_'; }
	return k + std::to_string(idx);
}

// ---- generators ----------------------------------------------------------------------------------------------------------
template <class T, class = void> struct G;
template <class T> T gen(vf::Src& s, const GenCtx& g) { return G<T>::make(s, g); }

template <> struct G<bool> { static bool make(vf::Src& s, const GenCtx&) { return s.coin(); } };
template <class T> struct G<T, std::enable_if_t<std::is_integral_v<T> && !std::is_same_v<T, bool> && !std::is_same_v<T, char16_t> && !std::is_same_v<T, char32_t> && !std::is_same_v<T, wchar_t>>> { static T make(vf::Src& s, const GenCtx&) { return s.integer<T>(); } };
template <class T> struct G<T, std::enable_if_t<std::is_floating_point_v<T>>> {
	static T make(vf::Src& s, const GenCtx& g) {
		using U = std::conditional_t<sizeof(T) == 4, uint32_t, uint64_t>; T x;
		switch (s.draw(7)) {
		case 0: { U b = static_cast<U>(s.draw(0)); memcpy(&x, &b, sizeof(T)); break; }
		case 1: x = static_cast<T>(static_cast<long long>(s.draw(2001)) - 1000) / static_cast<T>(8); break;
		case 2: { const T sp[] = { T(0), -T(0), std::numeric_limits<T>::min(), std::numeric_limits<T>::denorm_min(), std::numeric_limits<T>::max(), std::numeric_limits<T>::lowest(), std::numeric_limits<T>::epsilon(), T(0.1), T(1) / 3, T(1e15), T(-2.5e-7), std::numeric_limits<T>::infinity(), -std::numeric_limits<T>::infinity(), std::numeric_limits<T>::quiet_NaN() }; x = sp[s.draw(14)]; break; }
		case 3: x = static_cast<T>(s.integer<int64_t>()); break;
		case 4: x = static_cast<T>(std::ldexp(static_cast<double>(1 + s.draw(1 << 20)), static_cast<int>(s.range(-60, 40)))); break;
		default: x = static_cast<T>(static_cast<long long>(s.draw(200001)) - 100000) / static_cast<T>(1000); break;
		}
		if (g.finiteOnly && !std::isfinite(x)) x = static_cast<T>(0.25);
		return x;
	}
};
template <> struct G<std::string> { static std::string make(vf::Src& s, const GenCtx& g) { return refutf::enc8(gen_text(s, g)); } };
template <> struct G<std::u16string> { static std::u16string make(vf::Src& s, const GenCtx& g) { return refutf::enc16(gen_text(s, g)); } };
template <> struct G<std::u32string> { static std::u32string make(vf::Src& s, const GenCtx& g) { return gen_text(s, g); } };
template <> struct G<std::wstring> { static std::wstring make(vf::Src& s, const GenCtx& g) { auto t = gen_text(s, g); return std::wstring(t.begin(), t.end()); } };
template <> struct G<Color> { static Color make(vf::Src& s, const GenCtx&) { return static_cast<Color>(s.draw(4)); } };
template <> struct G<Pt> { static Pt make(vf::Src& s, const GenCtx&) { return Pt{ s.integer<int>(), s.integer<int>() }; } };
template <> struct G<External> { static External make(vf::Src& s, const GenCtx& g) { External e; e.id = s.integer<int64_t>(); e.label = gen<std::u16string>(s, g); return e; } };
template <class R, class P> struct G<std::chrono::duration<R, P>> {
	static std::chrono::duration<R, P> make(vf::Src& s, const GenCtx&) {
		// durations travel as MsgPack timestamps (int64 seconds) or ISO text: keep whole seconds within int64
		__int128 lo = std::numeric_limits<R>::min(), hi = std::numeric_limits<R>::max();
		if (P::num > 1) { const __int128 l2 = static_cast<__int128>(INT64_MIN) / P::num + 1, h2 = static_cast<__int128>(INT64_MAX) / P::num - 1; if (l2 > lo) lo = l2; if (h2 < hi) hi = h2; }
		__int128 c; switch (s.draw(5)) { case 0: c = s.integer<R>(); break; case 1: c = lo + static_cast<__int128>(s.draw(1000)); break; case 2: c = hi - static_cast<__int128>(s.draw(1000)); break; case 3: c = static_cast<__int128>(static_cast<int64_t>(s.draw(200001)) - 100000); break; default: c = static_cast<R>(s.draw(0)); break; }
		if (c < lo) c = lo; if (c > hi) c = hi; return std::chrono::duration<R, P>(static_cast<R>(c));
	}
};
template <class D> struct G<std::chrono::time_point<std::chrono::system_clock, D>> {
	static std::chrono::time_point<std::chrono::system_clock, D> make(vf::Src& s, const GenCtx& g) {
		using R = typename D::rep; D d = gen<D>(s, g);
		// recorded findings KF-27 / KF-33: stay one day away from the lowest value of the type
		const __int128 perDay = static_cast<__int128>(86400) * D::period::den / D::period::num; const __int128 lo = static_cast<__int128>(std::numeric_limits<R>::min()) + (perDay > 0 ? perDay : 1);
		if (static_cast<__int128>(d.count()) < lo) d = D(static_cast<R>(lo));
		return std::chrono::time_point<std::chrono::system_clock, D>(d);
	}
};
template <class T> size_t gen_count(vf::Src& s, const GenCtx& g) { size_t n = s.len(g.maxLen); if (n == 0 && g.noEmptyContainers) n = 1; return n; }
template <class T, class A> struct G<std::vector<T, A>> { static std::vector<T, A> make(vf::Src& s, const GenCtx& g) { std::vector<T, A> v; size_t n = gen_count<T>(s, g); for (size_t i = 0; i < n; i++) v.push_back(gen<T>(s, g)); return v; } };
template <class T> struct G<std::deque<T>> { static std::deque<T> make(vf::Src& s, const GenCtx& g) { std::deque<T> v; size_t n = gen_count<T>(s, g); for (size_t i = 0; i < n; i++) v.push_back(gen<T>(s, g)); return v; } };
template <class T> struct G<std::list<T>> { static std::list<T> make(vf::Src& s, const GenCtx& g) { std::list<T> v; size_t n = gen_count<T>(s, g); for (size_t i = 0; i < n; i++) v.push_back(gen<T>(s, g)); return v; } };
template <class T> struct G<std::forward_list<T>> { static std::forward_list<T> make(vf::Src& s, const GenCtx& g) { std::forward_list<T> v; size_t n = gen_count<T>(s, g); for (size_t i = 0; i < n; i++) v.push_front(gen<T>(s, g)); return v; } };
template <class T> struct G<std::valarray<T>> { static std::valarray<T> make(vf::Src& s, const GenCtx& g) { size_t n = gen_count<T>(s, g); std::valarray<T> v(n); for (size_t i = 0; i < n; i++) v[i] = gen<T>(s, g); return v; } };
template <class T, size_t N> struct G<std::array<T, N>> { static std::array<T, N> make(vf::Src& s, const GenCtx& g) { std::array<T, N> v; for (auto& e : v) e = gen<T>(s, g); return v; } };
template <size_t N> struct G<std::bitset<N>> { static std::bitset<N> make(vf::Src& s, const GenCtx&) { std::bitset<N> b; for (size_t i = 0; i < N; i++) b.set(i, s.coin()); return b; } };
template <class T> struct G<std::set<T>> { static std::set<T> make(vf::Src& s, const GenCtx& g) { std::set<T> v; size_t n = gen_count<T>(s, g); for (size_t i = 0; i < n; i++) v.insert(gen<T>(s, g)); return v; } };
template <class T> struct G<std::multiset<T>> { static std::multiset<T> make(vf::Src& s, const GenCtx& g) { std::multiset<T> v; size_t n = gen_count<T>(s, g); for (size_t i = 0; i < n; i++) { T x = gen<T>(s, g); v.insert(x); if (s.chance(1, 3)) v.insert(x); } return v; } };
template <class T> struct G<std::unordered_set<T>> { static std::unordered_set<T> make(vf::Src& s, const GenCtx& g) { std::unordered_set<T> v; size_t n = gen_count<T>(s, g); for (size_t i = 0; i < n; i++) v.insert(gen<T>(s, g)); return v; } };
template <class T> struct G<std::unordered_multiset<T>> { static std::unordered_multiset<T> make(vf::Src& s, const GenCtx& g) { std::unordered_multiset<T> v; size_t n = gen_count<T>(s, g); for (size_t i = 0; i < n; i++) { T x = gen<T>(s, g); v.insert(x); if (s.chance(1, 3)) v.insert(x); } return v; } };
// map keys: strings are unique NUL-free keys; XML cannot carry keys that are not Names (KF-44), so non-string keys are generated for MsgPack / JSON only
template <class K> K gen_map_key(vf::Src& s, const GenCtx& g, size_t idx) {
	if constexpr (std::is_same_v<K, std::string>) return gen_key(s, g, idx);
	else if constexpr (std::is_same_v<K, std::u16string>) { Scalars t; refutf::dec8(gen_key(s, g, idx), t); return refutf::enc16(t); }
	else if constexpr (std::is_same_v<K, std::wstring>) { Scalars t; refutf::dec8(gen_key(s, g, idx), t); return std::wstring(t.begin(), t.end()); }
	else if constexpr (std::is_floating_point_v<K>) { K x = static_cast<K>(static_cast<long long>(s.draw(20001)) - 10000) / static_cast<K>(4) + static_cast<K>(idx * 100000); return x; }
	else return gen<K>(s, g);
}
template <class M> M gen_map(vf::Src& s, const GenCtx& g, bool multi) {
	M m; size_t n = s.len(g.maxLen); if (n == 0 && g.noEmptyContainers) n = 1;
	for (size_t i = 0; i < n; i++) { auto k = gen_map_key<typename M::key_type>(s, g, i); auto v = gen<typename M::mapped_type>(s, g); m.emplace(k, v); if (multi && s.chance(1, 3)) m.emplace(k, gen<typename M::mapped_type>(s, g)); }
	return m;
}
template <class K, class V> struct G<std::map<K, V>> { static std::map<K, V> make(vf::Src& s, const GenCtx& g) { return gen_map<std::map<K, V>>(s, g, false); } };
template <class K, class V> struct G<std::unordered_map<K, V>> { static std::unordered_map<K, V> make(vf::Src& s, const GenCtx& g) { return gen_map<std::unordered_map<K, V>>(s, g, false); } };
template <class K, class V> struct G<std::multimap<K, V>> { static std::multimap<K, V> make(vf::Src& s, const GenCtx& g) { return gen_map<std::multimap<K, V>>(s, g, true); } };
template <class K, class V> struct G<std::unordered_multimap<K, V>> { static std::unordered_multimap<K, V> make(vf::Src& s, const GenCtx& g) { return gen_map<std::unordered_multimap<K, V>>(s, g, true); } };
template <class A, class B> struct G<std::pair<A, B>> { static std::pair<A, B> make(vf::Src& s, const GenCtx& g) { A a = gen<A>(s, g); return { a, gen<B>(s, g) }; } };
template <class... Ts> struct G<std::tuple<Ts...>> { static std::tuple<Ts...> make(vf::Src& s, const GenCtx& g) { return std::tuple<Ts...>{ gen<Ts>(s, g)... }; } };
template <class T> struct G<std::optional<T>> { static std::optional<T> make(vf::Src& s, const GenCtx& g) { if (!g.noNulls && s.chance(1, 3)) return std::nullopt; return gen<T>(s, g); } };
template <class T> struct G<std::unique_ptr<T>> { static std::unique_ptr<T> make(vf::Src& s, const GenCtx& g) { if (!g.noNulls && s.chance(1, 3)) return nullptr; return std::make_unique<T>(gen<T>(s, g)); } };
template <class T> struct G<std::shared_ptr<T>> { static std::shared_ptr<T> make(vf::Src& s, const GenCtx& g) { if (!g.noNulls && s.chance(1, 3)) return nullptr; return std::make_shared<T>(gen<T>(s, g)); } };
template <class T> struct G<std::queue<T>> { static std::queue<T> make(vf::Src& s, const GenCtx& g) { std::queue<T> q; size_t n = gen_count<T>(s, g); for (size_t i = 0; i < n; i++) q.push(gen<T>(s, g)); return q; } };
template <class T> struct G<std::stack<T>> { static std::stack<T> make(vf::Src& s, const GenCtx& g) { std::stack<T> q; size_t n = gen_count<T>(s, g); for (size_t i = 0; i < n; i++) q.push(gen<T>(s, g)); return q; } };
template <class T> struct G<std::priority_queue<T>> { static std::priority_queue<T> make(vf::Src& s, const GenCtx& g) { std::priority_queue<T> q; size_t n = gen_count<T>(s, g); for (size_t i = 0; i < n; i++) q.push(gen<T>(s, g)); return q; } };
template <> struct G<Base> { static Base make(vf::Src& s, const GenCtx& g) { Base b; b.baseId = s.integer<int>(); b.baseName = gen<std::string>(s, g); return b; } };
template <> struct G<DerivedLate> { static DerivedLate make(vf::Src& s, const GenCtx& g) { DerivedLate d; static_cast<Base&>(d) = gen<Base>(s, g); d.first = s.integer<int>(); d.last = gen<std::string>(s, g); return d; } };
template <> struct G<TwoBases> { static TwoBases make(vf::Src& s, const GenCtx& g) { TwoBases d; static_cast<Base&>(d) = gen<Base>(s, g); d.tag = s.integer<int64_t>(); d.flag = s.coin(); return d; } };
template <> struct G<WithAttrs> { static WithAttrs make(vf::Src& s, const GenCtx& g) { WithAttrs d; d.id = s.integer<int>(); d.ratio = gen<double>(s, g); d.weight = gen<float>(s, g); d.label = gen<std::string>(s, g); d.flag = s.coin(); d.big = s.integer<uint64_t>(); d.node = gen<double>(s, g); return d; } };
template <> struct G<EmptyKey> { static EmptyKey make(vf::Src& s, const GenCtx& g) { EmptyKey d; d.a = s.integer<int>(); d.s = gen<std::string>(s, g); d.z = s.integer<int>(); return d; } };
template <> struct G<LongKeys> { static LongKeys make(vf::Src& s, const GenCtx& g) { LongKeys d; d.a = s.integer<int>(); d.b = s.integer<int>(); d.c = s.integer<int>(); d.s = gen<std::string>(s, g); return d; } };
template <> struct G<Derived> { static Derived make(vf::Src& s, const GenCtx& g) { Derived d; static_cast<Base&>(d) = gen<Base>(s, g); d.ratio = gen<double>(s, g); d.items = gen<std::vector<int>>(s, g); d.hasExtra = s.coin(); d.extra = d.hasExtra ? s.integer<int>() : 0; d.origin = gen<Pt>(s, g); return d; } };

// ---- deep equality ----------------------------------------------------------------------------------------------------------
template <class T> bool eq(const T& a, const T& b);
namespace detail {
template <class T, class = void> struct E { static bool eq(const T& a, const T& b) { return a == b; } };
template <class T> struct E<T, std::enable_if_t<std::is_floating_point_v<T>>> { static bool eq(const T& a, const T& b) { if (std::isnan(a) && std::isnan(b)) return true; return std::memcmp(&a, &b, sizeof(T)) == 0; } };
template <class C> bool seq_eq(const C& a, const C& b) { auto i = std::begin(a), j = std::begin(b); for (; i != std::end(a) && j != std::end(b); ++i, ++j) if (!mdl::eq(*i, *j)) return false; return i == std::end(a) && j == std::end(b); }
template <class T, class A> struct E<std::vector<T, A>> { static bool eq(const std::vector<T, A>& a, const std::vector<T, A>& b) { if (a.size() != b.size()) return false; for (size_t i = 0; i < a.size(); i++) if (!mdl::eq<T>(a[i], b[i])) return false; return true; } };
template <class T> struct E<std::deque<T>> { static bool eq(const std::deque<T>& a, const std::deque<T>& b) { return seq_eq(a, b); } };
template <class T> struct E<std::list<T>> { static bool eq(const std::list<T>& a, const std::list<T>& b) { return seq_eq(a, b); } };
template <class T> struct E<std::forward_list<T>> { static bool eq(const std::forward_list<T>& a, const std::forward_list<T>& b) { return seq_eq(a, b); } };
template <class T> struct E<std::valarray<T>> { static bool eq(const std::valarray<T>& a, const std::valarray<T>& b) { if (a.size() != b.size()) return false; for (size_t i = 0; i < a.size(); i++) if (!mdl::eq(a[i], b[i])) return false; return true; } };
template <class T, size_t N> struct E<std::array<T, N>> { static bool eq(const std::array<T, N>& a, const std::array<T, N>& b) { return seq_eq(a, b); } };
template <class K, class V> struct E<std::map<K, V>> { static bool eq(const std::map<K, V>& a, const std::map<K, V>& b) { return seq_eq(a, b); } };
template <class K, class V> struct E<std::multimap<K, V>> { static bool eq(const std::multimap<K, V>& a, const std::multimap<K, V>& b) { return seq_eq(a, b); } };
template <class A, class B> struct E<std::pair<A, B>> { static bool eq(const std::pair<A, B>& a, const std::pair<A, B>& b) { return mdl::eq(a.first, b.first) && mdl::eq(a.second, b.second); } };
template <class... Ts> struct E<std::tuple<Ts...>> { template <size_t... I> static bool each(const std::tuple<Ts...>& a, const std::tuple<Ts...>& b, std::index_sequence<I...>) { return (mdl::eq(std::get<I>(a), std::get<I>(b)) && ...); } static bool eq(const std::tuple<Ts...>& a, const std::tuple<Ts...>& b) { return each(a, b, std::index_sequence_for<Ts...>{}); } };
template <class T> struct E<std::optional<T>> { static bool eq(const std::optional<T>& a, const std::optional<T>& b) { return a.has_value() == b.has_value() && (!a || mdl::eq(*a, *b)); } };
template <class T> struct E<std::unique_ptr<T>> { static bool eq(const std::unique_ptr<T>& a, const std::unique_ptr<T>& b) { return static_cast<bool>(a) == static_cast<bool>(b) && (!a || mdl::eq(*a, *b)); } };
template <class T> struct E<std::shared_ptr<T>> { static bool eq(const std::shared_ptr<T>& a, const std::shared_ptr<T>& b) { return static_cast<bool>(a) == static_cast<bool>(b) && (!a || mdl::eq(*a, *b)); } };
template <class T> struct E<std::atomic<T>> { static bool eq(const std::atomic<T>& a, const std::atomic<T>& b) { return mdl::eq(a.load(), b.load()); } };
template <class T> struct E<std::queue<T>> { static bool eq(std::queue<T> a, std::queue<T> b) { while (!a.empty() && !b.empty()) { if (!mdl::eq(a.front(), b.front())) return false; a.pop(); b.pop(); } return a.empty() && b.empty(); } };
template <class T> struct E<std::stack<T>> { static bool eq(std::stack<T> a, std::stack<T> b) { while (!a.empty() && !b.empty()) { if (!mdl::eq(a.top(), b.top())) return false; a.pop(); b.pop(); } return a.empty() && b.empty(); } };
template <class T> struct E<std::priority_queue<T>> { static bool eq(std::priority_queue<T> a, std::priority_queue<T> b) { while (!a.empty() && !b.empty()) { if (!mdl::eq(a.top(), b.top())) return false; a.pop(); b.pop(); } return a.empty() && b.empty(); } };
template <> struct E<Base> { static bool eq(const Base& a, const Base& b) { return a.baseId == b.baseId && a.baseName == b.baseName; } };
template <> struct E<DerivedLate> { static bool eq(const DerivedLate& a, const DerivedLate& b) { return E<Base>::eq(a, b) && a.first == b.first && a.last == b.last; } };
template <> struct E<TwoBases> { static bool eq(const TwoBases& a, const TwoBases& b) { return E<Base>::eq(a, b) && a.tag == b.tag && a.flag == b.flag; } };
template <> struct E<WithAttrs> { static bool eq(const WithAttrs& a, const WithAttrs& b) { return a.id == b.id && mdl::eq(a.ratio, b.ratio) && mdl::eq(a.weight, b.weight) && a.label == b.label && a.flag == b.flag && a.big == b.big && mdl::eq(a.node, b.node); } };
template <> struct E<EmptyKey> { static bool eq(const EmptyKey& a, const EmptyKey& b) { return a.a == b.a && a.s == b.s && a.z == b.z; } };
template <> struct E<LongKeys> { static bool eq(const LongKeys& a, const LongKeys& b) { return a.a == b.a && a.b == b.b && a.c == b.c && a.s == b.s; } };
template <> struct E<Derived> { static bool eq(const Derived& a, const Derived& b) { return E<Base>::eq(a, b) && mdl::eq(a.ratio, b.ratio) && a.items == b.items && a.hasExtra == b.hasExtra && a.extra == b.extra && a.origin == b.origin; } };
template <> struct E<External> { static bool eq(const External& a, const External& b) { return a.id == b.id && a.label == b.label; } };
}
template <class T> bool eq(const T& a, const T& b) { return detail::E<T>::eq(a, b); }

// ---- short rendering for descriptions ------------------------------------------------------------------------------------------
template <class T> std::string show(const T& v);
namespace detail {
inline std::string bytes_show(const std::string& s) { std::string r = "\""; for (unsigned char c : s.substr(0, 40)) { if (c >= 32 && c < 127 && c != '"' && c != '\\') r.push_back(static_cast<char>(c)); else { char b[8]; snprintf(b, sizeof b, "\\x%02x", c); r += b; } } if (s.size() > 40) r += ".."; return r + "\""; }
template <class T, class = void> struct Sh { static std::string show(const T&) { return "?"; } };
template <> struct Sh<bool> { static std::string show(const bool& v) { return v ? "true" : "false"; } };
template <class T> struct Sh<T, std::enable_if_t<std::is_integral_v<T> && !std::is_same_v<T, bool>>> { static std::string show(const T& v) { return std::to_string(v); } };
template <class T> struct Sh<T, std::enable_if_t<std::is_floating_point_v<T>>> { static std::string show(const T& v) { char b[48]; snprintf(b, sizeof b, sizeof(T) == 4 ? "%.9gf" : "%.17g", static_cast<double>(v)); return b; } };
template <> struct Sh<std::string> { static std::string show(const std::string& v) { return bytes_show(v); } };
template <> struct Sh<std::u16string> { static std::string show(const std::u16string& v) { Scalars t; refutf::dec16(v, t); return "u16" + bytes_show(refutf::enc8(t)); } };
template <> struct Sh<std::u32string> { static std::string show(const std::u32string& v) { return "u32" + bytes_show(refutf::enc8(v)); } };
template <> struct Sh<std::wstring> { static std::string show(const std::wstring& v) { return "w" + bytes_show(refutf::enc8(Scalars(v.begin(), v.end()))); } };
template <> struct Sh<Color> { static std::string show(const Color& v) { return "Color#" + std::to_string(static_cast<int>(v)); } };
template <> struct Sh<Pt> { static std::string show(const Pt& v) { return vf::cat("Pt(", v.x, ",", v.y, ")"); } };
template <> struct Sh<External> { static std::string show(const External& v) { return vf::cat("Ext(", v.id, ",", mdl::show(v.label), ")"); } };
template <> struct Sh<Base> { static std::string show(const Base& v) { return vf::cat("Base(", v.baseId, ",", bytes_show(v.baseName), ")"); } };
template <> struct Sh<DerivedLate> { static std::string show(const DerivedLate& v) { return vf::cat("DerivedLate(", v.first, ",", v.baseId, ",", bytes_show(v.baseName), ",", bytes_show(v.last), ")"); } };
template <> struct Sh<TwoBases> { static std::string show(const TwoBases& v) { return vf::cat("TwoBases(", v.baseId, ",", bytes_show(v.baseName), ",", v.tag, ",", v.flag, ")"); } };
template <> struct Sh<WithAttrs> { static std::string show(const WithAttrs& v) { return vf::cat("WithAttrs(", v.id, ",", mdl::show(v.ratio), ",", mdl::show(v.weight), ",", bytes_show(v.label), ",", v.flag, ",", v.big, ",", mdl::show(v.node), ")"); } };
template <> struct Sh<EmptyKey> { static std::string show(const EmptyKey& v) { return vf::cat("EmptyKey(", v.a, ",", bytes_show(v.s), ",", v.z, ")"); } };
template <> struct Sh<LongKeys> { static std::string show(const LongKeys& v) { return vf::cat("LongKeys(", v.a, ",", v.b, ",", v.c, ",", bytes_show(v.s), ")"); } };
template <> struct Sh<Derived> { static std::string show(const Derived& v) { return vf::cat("Derived(", v.baseId, ",", bytes_show(v.baseName), ",", v.ratio, ",n=", v.items.size(), ",", v.hasExtra, ",", v.extra, ",", v.origin.x, ")"); } };
template <class R, class P> struct Sh<std::chrono::duration<R, P>> { static std::string show(const std::chrono::duration<R, P>& v) { return vf::cat("dur<", P::num, "/", P::den, ">(", v.count(), ")"); } };
template <class D> struct Sh<std::chrono::time_point<std::chrono::system_clock, D>> { static std::string show(const std::chrono::time_point<std::chrono::system_clock, D>& v) { return vf::cat("tp<", D::period::num, "/", D::period::den, ">(", v.time_since_epoch().count(), ")"); } };
template <class C> std::string seq_show(const C& c) { std::string r = "["; size_t n = 0; for (auto& e : c) { if (n) r += ","; if (n++ >= 6) { r += ".."; break; } r += mdl::show(e); } return r + "]"; }
template <class T, class A> struct Sh<std::vector<T, A>> { static std::string show(const std::vector<T, A>& v) { std::string r = "["; for (size_t i = 0; i < v.size() && i < 6; i++) { if (i) r += ","; T e = v[i]; r += mdl::show(e); } if (v.size() > 6) r += ",.."; return r + "]"; } };
template <class T> struct Sh<std::deque<T>> { static std::string show(const std::deque<T>& v) { return seq_show(v); } };
template <class T> struct Sh<std::list<T>> { static std::string show(const std::list<T>& v) { return seq_show(v); } };
template <class T> struct Sh<std::forward_list<T>> { static std::string show(const std::forward_list<T>& v) { return seq_show(v); } };
template <class T> struct Sh<std::set<T>> { static std::string show(const std::set<T>& v) { return seq_show(v); } };
template <class T> struct Sh<std::multiset<T>> { static std::string show(const std::multiset<T>& v) { return seq_show(v); } };
template <class T> struct Sh<std::unordered_set<T>> { static std::string show(const std::unordered_set<T>& v) { return vf::cat("uset(n=", v.size(), ")"); } };
template <class T> struct Sh<std::unordered_multiset<T>> { static std::string show(const std::unordered_multiset<T>& v) { return vf::cat("umset(n=", v.size(), ")"); } };
template <class T, size_t N> struct Sh<std::array<T, N>> { static std::string show(const std::array<T, N>& v) { return seq_show(v); } };
template <class T> struct Sh<std::valarray<T>> { static std::string show(const std::valarray<T>& v) { return vf::cat("valarray(n=", v.size(), ")"); } };
template <size_t N> struct Sh<std::bitset<N>> { static std::string show(const std::bitset<N>& v) { return v.to_string(); } };
template <class K, class V> struct Sh<std::map<K, V>> { static std::string show(const std::map<K, V>& v) { return seq_show(v); } };
template <class K, class V> struct Sh<std::multimap<K, V>> { static std::string show(const std::multimap<K, V>& v) { return seq_show(v); } };
template <class K, class V> struct Sh<std::unordered_map<K, V>> { static std::string show(const std::unordered_map<K, V>& v) { return vf::cat("umap(n=", v.size(), ")"); } };
template <class K, class V> struct Sh<std::unordered_multimap<K, V>> { static std::string show(const std::unordered_multimap<K, V>& v) { return vf::cat("ummap(n=", v.size(), ")"); } };
template <class A, class B> struct Sh<std::pair<A, B>> { static std::string show(const std::pair<A, B>& v) { return "(" + mdl::show(v.first) + ":" + mdl::show(v.second) + ")"; } };
template <class... Ts> struct Sh<std::tuple<Ts...>> { static std::string show(const std::tuple<Ts...>& v) { std::string r = "<"; std::apply([&](auto&... e) { ((r += mdl::show(e) + ";"), ...); }, v); return r + ">"; } };
template <class T> struct Sh<std::optional<T>> { static std::string show(const std::optional<T>& v) { return v ? "opt(" + mdl::show(*v) + ")" : "nullopt"; } };
template <class T> struct Sh<std::unique_ptr<T>> { static std::string show(const std::unique_ptr<T>& v) { return v ? "uptr(" + mdl::show(*v) + ")" : "nullptr"; } };
template <class T> struct Sh<std::shared_ptr<T>> { static std::string show(const std::shared_ptr<T>& v) { return v ? "sptr(" + mdl::show(*v) + ")" : "nullptr"; } };
template <class T> struct Sh<std::queue<T>> { static std::string show(const std::queue<T>& v) { return vf::cat("queue(n=", v.size(), ")"); } };
template <class T> struct Sh<std::stack<T>> { static std::string show(const std::stack<T>& v) { return vf::cat("stack(n=", v.size(), ")"); } };
template <class T> struct Sh<std::priority_queue<T>> { static std::string show(const std::priority_queue<T>& v) { return vf::cat("pqueue(n=", v.size(), ")"); } };
}
template <class T> std::string show(const T& v) { return detail::Sh<T>::show(v); }

// ---- "interesting" features of a value (for the non-trivial rule) -----------------------------------------------------------------
struct Features { bool nonAscii = false, emptyContainer = false, nested = false, numericExtreme = false, null = false, longFloat = false; bool any() const { return nonAscii || emptyContainer || nested || numericExtreme || null || longFloat; } };
template <class T> void features(const T& v, Features& f, int depth = 0);
namespace detail {
template <class T, class = void> struct F { static void f(const T&, Features&, int) {} };
template <class T> struct F<T, std::enable_if_t<std::is_integral_v<T> && !std::is_same_v<T, bool>>> { static void f(const T& v, Features& x, int) { if (v == std::numeric_limits<T>::min() || v == std::numeric_limits<T>::max()) x.numericExtreme = true; } };
template <class T> struct F<T, std::enable_if_t<std::is_floating_point_v<T>>> { static void f(const T& v, Features& x, int) { if (!std::isfinite(v) || std::fabs(v) == std::numeric_limits<T>::max() || (v != 0 && std::fabs(v) < std::numeric_limits<T>::min())) x.numericExtreme = true; char b[48]; snprintf(b, sizeof b, "%.17g", static_cast<double>(v)); if (strlen(b) >= 17) x.longFloat = true; } };
template <class C> struct F<std::basic_string<C>> { static void f(const std::basic_string<C>& v, Features& x, int) { for (auto c : v) if (static_cast<uint32_t>(c) >= 0x80 || static_cast<uint32_t>(c) < 0x20) x.nonAscii = true; if (v.empty()) x.emptyContainer = true; } };
template <class C> void cont_f(const C& c, Features& x, int d) { if (std::begin(c) == std::end(c)) x.emptyContainer = true; if (d > 0) x.nested = true; for (auto& e : c) mdl::features(e, x, d + 1); }
template <class T, class A> struct F<std::vector<T, A>> { static void f(const std::vector<T, A>& v, Features& x, int d) { if (v.empty()) x.emptyContainer = true; if (d > 0) x.nested = true; for (size_t i = 0; i < v.size(); i++) { T e = v[i]; mdl::features(e, x, d + 1); } } };
template <class T> struct F<std::deque<T>> { static void f(const std::deque<T>& v, Features& x, int d) { cont_f(v, x, d); } };
template <class T> struct F<std::list<T>> { static void f(const std::list<T>& v, Features& x, int d) { cont_f(v, x, d); } };
template <class T> struct F<std::set<T>> { static void f(const std::set<T>& v, Features& x, int d) { cont_f(v, x, d); } };
template <class K, class V> struct F<std::map<K, V>> { static void f(const std::map<K, V>& v, Features& x, int d) { cont_f(v, x, d); } };
template <class K, class V> struct F<std::multimap<K, V>> { static void f(const std::multimap<K, V>& v, Features& x, int d) { cont_f(v, x, d); } };
template <class K, class V> struct F<std::unordered_map<K, V>> { static void f(const std::unordered_map<K, V>& v, Features& x, int d) { cont_f(v, x, d); } };
template <class A, class B> struct F<std::pair<A, B>> { static void f(const std::pair<A, B>& v, Features& x, int d) { mdl::features(v.first, x, d); mdl::features(v.second, x, d); } };
template <class... Ts> struct F<std::tuple<Ts...>> { static void f(const std::tuple<Ts...>& v, Features& x, int d) { std::apply([&](auto&... e) { (mdl::features(e, x, d + 1), ...); }, v); } };
template <class T> struct F<std::optional<T>> { static void f(const std::optional<T>& v, Features& x, int d) { if (!v) x.null = true; else mdl::features(*v, x, d); } };
template <class T> struct F<std::unique_ptr<T>> { static void f(const std::unique_ptr<T>& v, Features& x, int d) { if (!v) x.null = true; else mdl::features(*v, x, d); } };
template <class T> struct F<std::shared_ptr<T>> { static void f(const std::shared_ptr<T>& v, Features& x, int d) { if (!v) x.null = true; else mdl::features(*v, x, d); } };
template <> struct F<DerivedLate> { static void f(const DerivedLate& v, Features& x, int d) { x.nested = true; mdl::features(v.baseName, x, d + 1); mdl::features(v.last, x, d + 1); } };
template <> struct F<TwoBases> { static void f(const TwoBases& v, Features& x, int d) { x.nested = true; mdl::features(v.baseName, x, d + 1); } };
template <> struct F<WithAttrs> { static void f(const WithAttrs& v, Features& x, int d) { x.nested = true; mdl::features(v.label, x, d + 1); mdl::features(v.ratio, x, d + 1); mdl::features(v.weight, x, d + 1); mdl::features(v.node, x, d + 1); } };
template <> struct F<EmptyKey> { static void f(const EmptyKey& v, Features& x, int d) { x.nested = true; mdl::features(v.s, x, d + 1); } };
template <> struct F<LongKeys> { static void f(const LongKeys& v, Features& x, int d) { x.nested = true; mdl::features(v.s, x, d + 1); } };
template <> struct F<Derived> { static void f(const Derived& v, Features& x, int d) { x.nested = true; mdl::features(v.baseName, x, d + 1); mdl::features(v.ratio, x, d + 1); mdl::features(v.items, x, d + 1); } };
template <> struct F<External> { static void f(const External& v, Features& x, int d) { mdl::features(v.label, x, d + 1); mdl::features(v.id, x, d + 1); } };
}
template <class T> void features(const T& v, Features& f, int depth) { detail::F<T>::f(v, f, depth); }

} // namespace mdl
