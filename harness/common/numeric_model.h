// numeric_model.h — reference model of "numbers load exactly or are reported per policy" (C04), written from the property
// statement and the documented policies; exact arithmetic in __int128 / long double.  No library code.
#pragma once
#include <cstdint>
#include <cmath>
#include <cstring>
#include <limits>
#include <string>
#include <type_traits>

namespace nummodel {
using i128 = __int128;

struct Num {   // a source value: its kind and mathematical value
	enum K { Bool, Int, F32, F64 } k = Int; bool b = false; i128 i = 0; float f = 0; double d = 0;
	template <class S> static Num of(S v) { Num n; if constexpr (std::is_same_v<S, bool>) { n.k = Bool; n.b = v; } else if constexpr (std::is_integral_v<S>) { n.k = Int; n.i = v; } else if constexpr (std::is_same_v<S, float>) { n.k = F32; n.f = v; } else { n.k = F64; n.d = v; } return n; }
	bool isFloat() const { return k == F32 || k == F64; }
	double asDouble() const { return k == F32 ? static_cast<double>(f) : d; }
	std::string str() const { char b2[64]; switch (k) { case Bool: return b ? "true" : "false"; case F32: snprintf(b2, sizeof b2, "%.9gf", static_cast<double>(f)); return b2; case F64: snprintf(b2, sizeof b2, "%.17g", d); return b2;
		default: { bool neg = i < 0; unsigned __int128 u = neg ? static_cast<unsigned __int128>(-(i + 1)) + 1 : static_cast<unsigned __int128>(i); std::string s; do { s.insert(s.begin(), static_cast<char>('0' + static_cast<int>(u % 10))); u /= 10; } while (u); return neg ? "-" + s : s; } } }
};

// what may legitimately happen when the source is delivered into target type T
template <class T> struct Expect {
	bool value = false;      // "loaded with `v` (or `v2`)" is acceptable
	bool overflow = false;   // "reported via the overflow policy" is acceptable
	bool mismatch = false;   // "reported via the mismatched-types policy" is acceptable
	T v{}, v2{};             // acceptable values (v2 == v unless two neighbours are acceptable)
	bool anyNan = false;     // value acceptable iff it is a NaN
};
template <class T> bool same_bits(T a, T b) { return std::memcmp(&a, &b, sizeof(T)) == 0; }

// exact: typed carriers (direct conversion, MsgPack, JSON numbers): integer -> float must be exact or reported (rounded also accepted)
// viaDouble: the carrier hands floating targets a double first (JSON): float targets may get either neighbour of the exact value
template <class T> Expect<T> expect(const Num& s, bool viaDouble = false, bool typedArchive = false) {
	Expect<T> e; using L = std::numeric_limits<T>;
	// A value of another kind (bool / integer / floating point) than the target may always be handed to the mismatched-types policy:
	// typed archives differ in which cross-kind conversions they implement (MsgPack: integer -> float is a mismatch, JSON converts it).
	const bool crossKind = std::is_same_v<T, bool> ? s.k != Num::Bool : std::is_integral_v<T> ? s.k != Num::Int : !s.isFloat();
	if (crossKind && typedArchive) e.mismatch = true;
	if constexpr (std::is_same_v<T, bool>) {
		if (s.k == Num::Bool) { e.value = true; e.v = e.v2 = s.b; }
		else if (s.k == Num::Int) { if (s.i == 0 || s.i == 1) { e.value = true; e.v = e.v2 = s.i == 1; } else e.overflow = true; }
		else e.mismatch = true;
	}
	else if constexpr (std::is_integral_v<T>) {
		if (s.k == Num::Bool) { e.value = true; e.v = e.v2 = static_cast<T>(s.b ? 1 : 0); }
		else if (s.k == Num::Int) { if (s.i >= static_cast<i128>(L::min()) && s.i <= static_cast<i128>(L::max())) { e.value = true; e.v = e.v2 = static_cast<T>(s.i); } else e.overflow = true; }
		else e.mismatch = true;     // floating source into an integer target is "another kind" (pinned: Convert::To<int>(12345.0) throws invalid_argument)
	}
	else {
		if (s.k == Num::Bool) { e.value = true; e.v = e.v2 = static_cast<T>(s.b ? 1 : 0); }
		else if (s.k == Num::Int) {
			// nearest representable (round-to-nearest-even through long double is exact for |i| < 2^64, then one rounding)
			const long double x = static_cast<long double>(s.i); const T r = static_cast<T>(x);
			e.value = true; e.v = e.v2 = r;
			if (static_cast<long double>(r) != x) { e.overflow = true; if (viaDouble && sizeof(T) == 4) { const T dn = std::nextafter(r, -L::infinity()), up = std::nextafter(r, L::infinity()); e.v2 = static_cast<long double>(r) > x ? dn : up; } }   // not exact: rounded or reported
		}
		else {
			const double x = s.asDouble();
			if (std::isnan(x)) { e.value = true; e.anyNan = true; e.overflow = true; }                    // same class, or reported
			else if (std::isinf(x)) { e.value = true; e.v = e.v2 = static_cast<T>(x); e.overflow = true; }
			else if (sizeof(T) == 8 || s.k == Num::F32) { e.value = true; e.v = e.v2 = static_cast<T>(x); }   // exact
			else {
				const long double ax = std::fabs(static_cast<long double>(x)), mx = static_cast<long double>(L::max());
				const long double half = static_cast<long double>(std::ldexp(1.0, 127 - 24));   // half ulp at FLT_MAX
				if (ax > mx) { e.overflow = true; if (ax <= mx + half) { e.value = true; e.v = e.v2 = x < 0 ? -L::max() : L::max(); } }
				else { e.value = true; e.v = e.v2 = static_cast<T>(x); if (x != 0 && std::fabs(e.v) < L::min()) e.overflow = true; }   // underflow: rounded subnormal/zero, or reported
			}
		}
	}
	return e;
}
template <class T> bool value_ok(const Expect<T>& e, T got) {
	if (!e.value) return false;
	if constexpr (std::is_floating_point_v<T>) { if (e.anyNan) return std::isnan(got); if (got == 0 && e.v == 0) return std::signbit(got) == std::signbit(e.v); }
	return same_bits(got, e.v) || same_bits(got, e.v2);
}

inline const char* selftest() {
	{ auto e = expect<int8_t>(Num::of<int>(127)); if (!e.value || e.v != 127 || e.overflow) return "int8 127"; }
	{ auto e = expect<int8_t>(Num::of<int>(128)); if (e.value || !e.overflow) return "int8 128"; }
	{ auto e = expect<uint8_t>(Num::of<int>(-1)); if (e.value || !e.overflow) return "uint8 -1"; }
	{ auto e = expect<float>(Num::of<int>(16777217)); if (!e.value || e.v != 16777216.0f || !e.overflow) return "float 2^24+1"; }
	{ auto e = expect<float>(Num::of<int>(16777216)); if (!e.value || e.overflow) return "float 2^24"; }
	{ auto e = expect<int>(Num::of<double>(5.0)); if (!e.mismatch || e.value) return "int <- 5.0"; }
	{ auto e = expect<float>(Num::of<double>(1e39)); if (e.value || !e.overflow) return "float <- 1e39"; }
	{ auto e = expect<float>(Num::of<double>(0.1)); if (!e.value || e.v != 0.1f) return "float <- 0.1"; }
	{ auto e = expect<bool>(Num::of<int>(2)); if (e.value || !e.overflow) return "bool <- 2"; }
	{ auto e = expect<double>(Num::of<uint64_t>(UINT64_MAX)); if (!e.value || e.v != 18446744073709551616.0 || !e.overflow) return "double <- u64 max"; }
	return nullptr;
}

} // namespace nummodel
