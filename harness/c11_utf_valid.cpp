// C11 — transcoding valid Unicode between UTF-8/16/32 is exact and reversible.
// Oracle: ref_utf (independent, from the Unicode standard).  Domain: every scalar value
// (exhaustive sweep) and generated scalar sequences; every encoder class, both policies,
// Transcode() and Convert::To between the four C++ string types.
#include "engine.h"
#include "ref/ref_utf.h"
#include "bitserializer/convert.h"
#include <list>
#include <deque>
#include <sstream>
#include <iterator>

using namespace BitSerializer;
using namespace BitSerializer::Convert::Utf;
using refutf::Scalars;

namespace {

struct Mismatch { std::string what; };

template <class S> std::string units(const S& s) { std::string r; char b[16]; for (auto c : s) { snprintf(b, sizeof b, "%X ", static_cast<unsigned>(static_cast<std::make_unsigned_t<typename S::value_type>>(c))); r += b; } return r; }

// Expected output of class E (by width and byte order) for scalars, as the library's string type.
template <class TOut> TOut ref_native(const Scalars& s) {
	using C = typename TOut::value_type;
	if constexpr (sizeof(C) == 1) { auto e = refutf::enc8(s); return TOut(e.begin(), e.end()); }
	else if constexpr (sizeof(C) == 2) { auto e = refutf::enc16(s); return TOut(e.begin(), e.end()); }
	else { return TOut(s.begin(), s.end()); }
}
template <class S> S swapped(S s) {
	using C = typename S::value_type;
	if constexpr (sizeof(C) == 2) { for (auto& u : s) u = static_cast<C>(static_cast<char16_t>((static_cast<char16_t>(u) >> 8) | (static_cast<char16_t>(u) << 8))); }
	else if constexpr (sizeof(C) == 4) { for (auto& u : s) { uint32_t x = static_cast<uint32_t>(u); u = static_cast<C>(((x >> 24) & 0xFF) | ((x >> 8) & 0xFF00) | ((x << 8) & 0xFF0000) | (x << 24)); } }
	return s;
}

// Run  TUtf::Decode(input in TUtf's byte order) -> native TOut  and compare with the reference.
template <class TUtf, class TIn, class TOut>
void check_decode(const Scalars& s, const char* name, UtfEncodingErrorPolicy pol, const TOut& prefix) {
	TIn in = ref_native<TIn>(s);
	if constexpr (sizeof(typename TIn::value_type) > 1) { if (TUtf::endianness != Memory::Endian::native) in = swapped(in); }
	TOut out = prefix;
	auto r = TUtf::Decode(in.cbegin(), in.cend(), out, pol);
	TOut want = prefix + ref_native<TOut>(s);
	if (r.ErrorCode != UtfEncodingErrorCode::Success) throw Mismatch{ vf::cat(name, ": error code ", static_cast<int>(r.ErrorCode)) };
	if (r.InvalidSequencesCount != 0) throw Mismatch{ vf::cat(name, ": InvalidSequencesCount=", r.InvalidSequencesCount) };
	if (r.Iterator != in.cend()) throw Mismatch{ vf::cat(name, ": iterator not at end") };
	if (out != want) throw Mismatch{ vf::cat(name, ": output ", units(out), "!= expected ", units(want)) };
}
// Run  TUtf::Encode(native TIn) -> TOut in TUtf's byte order.
template <class TUtf, class TIn, class TOut>
void check_encode(const Scalars& s, const char* name, UtfEncodingErrorPolicy pol, const TOut& prefixNative) {
	TIn in = ref_native<TIn>(s);
	TOut prefix = prefixNative;
	if constexpr (sizeof(typename TOut::value_type) > 1) { if (TUtf::endianness != Memory::Endian::native) prefix = swapped(prefix); }
	TOut out = prefix;
	auto r = TUtf::Encode(in.cbegin(), in.cend(), out, pol);
	TOut tail = ref_native<TOut>(s);
	if constexpr (sizeof(typename TOut::value_type) > 1) { if (TUtf::endianness != Memory::Endian::native) tail = swapped(tail); }
	TOut want = prefix + tail;
	if (r.ErrorCode != UtfEncodingErrorCode::Success) throw Mismatch{ vf::cat(name, ": error code ", static_cast<int>(r.ErrorCode)) };
	if (r.InvalidSequencesCount != 0) throw Mismatch{ vf::cat(name, ": InvalidSequencesCount=", r.InvalidSequencesCount) };
	if (r.Iterator != in.cend()) throw Mismatch{ vf::cat(name, ": iterator not at end") };
	if (out != want) throw Mismatch{ vf::cat(name, ": output ", units(out), "!= expected ", units(want)) };
}
template <class TIn, class TOut>
void check_transcode(const Scalars& s, const char* name, UtfEncodingErrorPolicy pol, const TOut& prefix) {
	TIn in = ref_native<TIn>(s); TOut out = prefix;
	auto r = Transcode(std::basic_string_view<typename TIn::value_type>(in), out, pol);
	TOut want = prefix + ref_native<TOut>(s);
	if (!r || r.InvalidSequencesCount != 0) throw Mismatch{ vf::cat(name, ": not success") };
	if (r.Iterator != std::basic_string_view<typename TIn::value_type>(in).cend()) throw Mismatch{ vf::cat(name, ": iterator not at end") };
	if (out != want) throw Mismatch{ vf::cat(name, ": output ", units(out), "!= expected ", units(want)) };
}

// All direct operations of the five encoder classes (the 20 ordered pairs are compositions of these).
unsigned all_ops(const Scalars& s, UtfEncodingErrorPolicy pol, bool withPrefix) {
	const std::string p8 = withPrefix ? "x" : ""; const std::u16string p16 = withPrefix ? u"x" : u""; const std::u32string p32 = withPrefix ? U"x" : U"";
	unsigned n = 0;
#define OP(call) do { call; ++n; } while (0)
	OP((check_decode<Utf8, std::string, std::u16string>(s, "Utf8::Decode->16", pol, p16)));
	OP((check_decode<Utf8, std::string, std::u32string>(s, "Utf8::Decode->32", pol, p32)));
	OP((check_encode<Utf8, std::u16string, std::string>(s, "Utf8::Encode<-16", pol, p8)));
	OP((check_encode<Utf8, std::u32string, std::string>(s, "Utf8::Encode<-32", pol, p8)));
	OP((check_decode<Utf16Le, std::u16string, std::string>(s, "Utf16Le::Decode->8", pol, p8)));
	OP((check_decode<Utf16Le, std::u16string, std::u16string>(s, "Utf16Le::Decode->16", pol, p16)));
	OP((check_decode<Utf16Le, std::u16string, std::u32string>(s, "Utf16Le::Decode->32", pol, p32)));
	OP((check_decode<Utf16Be, std::u16string, std::string>(s, "Utf16Be::Decode->8", pol, p8)));
	OP((check_decode<Utf16Be, std::u16string, std::u16string>(s, "Utf16Be::Decode->16", pol, p16)));
	OP((check_decode<Utf16Be, std::u16string, std::u32string>(s, "Utf16Be::Decode->32", pol, p32)));
	OP((check_encode<Utf16Le, std::string, std::u16string>(s, "Utf16Le::Encode<-8", pol, p16)));
	OP((check_encode<Utf16Le, std::u16string, std::u16string>(s, "Utf16Le::Encode<-16", pol, p16)));
	OP((check_encode<Utf16Le, std::u32string, std::u16string>(s, "Utf16Le::Encode<-32", pol, p16)));
	OP((check_encode<Utf16Be, std::string, std::u16string>(s, "Utf16Be::Encode<-8", pol, p16)));
	OP((check_encode<Utf16Be, std::u16string, std::u16string>(s, "Utf16Be::Encode<-16", pol, p16)));
	OP((check_encode<Utf16Be, std::u32string, std::u16string>(s, "Utf16Be::Encode<-32", pol, p16)));
	OP((check_decode<Utf32Le, std::u32string, std::string>(s, "Utf32Le::Decode->8", pol, p8)));
	OP((check_decode<Utf32Le, std::u32string, std::u16string>(s, "Utf32Le::Decode->16", pol, p16)));
	OP((check_decode<Utf32Le, std::u32string, std::u32string>(s, "Utf32Le::Decode->32", pol, p32)));
	OP((check_decode<Utf32Be, std::u32string, std::string>(s, "Utf32Be::Decode->8", pol, p8)));
	OP((check_decode<Utf32Be, std::u32string, std::u16string>(s, "Utf32Be::Decode->16", pol, p16)));
	OP((check_decode<Utf32Be, std::u32string, std::u32string>(s, "Utf32Be::Decode->32", pol, p32)));
	OP((check_encode<Utf32Le, std::string, std::u32string>(s, "Utf32Le::Encode<-8", pol, p32)));
	OP((check_encode<Utf32Le, std::u16string, std::u32string>(s, "Utf32Le::Encode<-16", pol, p32)));
	OP((check_encode<Utf32Le, std::u32string, std::u32string>(s, "Utf32Le::Encode<-32", pol, p32)));
	OP((check_encode<Utf32Be, std::string, std::u32string>(s, "Utf32Be::Encode<-8", pol, p32)));
	OP((check_encode<Utf32Be, std::u16string, std::u32string>(s, "Utf32Be::Encode<-16", pol, p32)));
	OP((check_encode<Utf32Be, std::u32string, std::u32string>(s, "Utf32Be::Encode<-32", pol, p32)));
	OP((check_transcode<std::string, std::u16string>(s, "Transcode 8->16", pol, p16)));
	OP((check_transcode<std::string, std::u32string>(s, "Transcode 8->32", pol, p32)));
	OP((check_transcode<std::u16string, std::string>(s, "Transcode 16->8", pol, p8)));
	OP((check_transcode<std::u16string, std::u32string>(s, "Transcode 16->32", pol, p32)));
	OP((check_transcode<std::u32string, std::string>(s, "Transcode 32->8", pol, p8)));
	OP((check_transcode<std::u32string, std::u16string>(s, "Transcode 32->16", pol, p16)));
	OP((check_transcode<std::string, std::string>(s, "Transcode 8->8", pol, p8)));
	OP((check_transcode<std::u16string, std::u16string>(s, "Transcode 16->16", pol, p16)));
	OP((check_transcode<std::u32string, std::u32string>(s, "Transcode 32->32", pol, p32)));
#undef OP
	return n;
}

template <class TIn, class TOut> void check_convert_to(const Scalars& s, const char* name) {
	TIn in = ref_native<TIn>(s);
	TOut out = Convert::To<TOut>(in);
	if (out != ref_native<TOut>(s)) throw Mismatch{ vf::cat(name, ": output ", units(out), "!= expected ", units(ref_native<TOut>(s))) };
	TIn back = Convert::To<TIn>(out);
	if (back != in) throw Mismatch{ vf::cat(name, ": round trip differs") };
}
void all_convert_to(const Scalars& s) {
	check_convert_to<std::string, std::u16string>(s, "To<u16string>(string)");
	check_convert_to<std::string, std::u32string>(s, "To<u32string>(string)");
	check_convert_to<std::string, std::wstring>(s, "To<wstring>(string)");
	check_convert_to<std::u16string, std::string>(s, "To<string>(u16string)");
	check_convert_to<std::u16string, std::u32string>(s, "To<u32string>(u16string)");
	check_convert_to<std::u16string, std::wstring>(s, "To<wstring>(u16string)");
	check_convert_to<std::u32string, std::string>(s, "To<string>(u32string)");
	check_convert_to<std::u32string, std::u16string>(s, "To<u16string>(u32string)");
	check_convert_to<std::u32string, std::wstring>(s, "To<wstring>(u32string)");
	check_convert_to<std::wstring, std::string>(s, "To<string>(wstring)");
	check_convert_to<std::wstring, std::u16string>(s, "To<u16string>(wstring)");
	check_convert_to<std::wstring, std::u32string>(s, "To<u32string>(wstring)");
}

char32_t gen_scalar(vf::Src& src) {
	switch (src.draw(9)) {
	case 0: return static_cast<char32_t>(src.range(0x20, 0x7E));
	case 1: return static_cast<char32_t>(src.range(0x80, 0x7FF));
	case 2: { char32_t c = static_cast<char32_t>(src.range(0x800, 0xFFFF)); return (c >= 0xD800 && c <= 0xDFFF) ? static_cast<char32_t>(c - 0x800) : c; }
	case 3: return static_cast<char32_t>(src.range(0x10000, 0x10FFFF));
	case 4: { const char32_t sp[] = { 0x0, 0x7F, 0x80, 0x7FF, 0x800, 0xD7FF, 0xE000, 0xFFFD, 0xFFFE, 0xFFFF, 0x10000, 0x10FFFF, 0xFEFF, 0x2610, 0xFFFE0000 >> 16 }; return sp[src.draw(15)]; }
	case 5: return static_cast<char32_t>(src.range(0, 0x1F));
	default: return static_cast<char32_t>(src.range(0x20, 0x7E));
	}
}

} // namespace

VF_SWEEP(all_scalars_all_ops, false, "exhaustive: each of the 1,112,064 Unicode scalar values alone (and appended to a non-empty output) through all 37 direct Decode/Encode/Transcode operations of the five encoder classes under both error policies, compared with ref_utf; every case is distinct and counts as non-trivial (the quantifier names each scalar)")
{
	for (uint32_t cp = 0; cp <= 0x10FFFF; cp++) {
		if (cp >= 0xD800 && cp <= 0xDFFF) continue;
		if (c.skip(cp, [&] { return vf::cat("U+", std::hex, cp); })) continue;
		Scalars s(1, static_cast<char32_t>(cp));
		try {
			unsigned n = all_ops(s, UtfEncodingErrorPolicy::Skip, false);
			n += all_ops(s, UtfEncodingErrorPolicy::ThrowError, true);
			c.evaluations += n; c.nontrivial += 1;
		}
		catch (const Mismatch& m) { c.fail("transcode-mismatch", vf::cat("U+", std::hex, cp), m.what); }
		catch (const std::exception& e) { c.fail("exception-on-valid-input", vf::cat("U+", std::hex, cp), e.what()); }
		if (cp == 0x41 || cp == 0x3A9 || cp == 0x20AC || cp == 0x1F600) c.sample(vf::cat("U+", std::hex, cp, " x 74 operations"));
	}
	c.labels["scalars"] = c.nontrivial;
}

VF_PROPERTY(sequences_all_ops, 3, "generated scalar sequences of length 0..4096 mixing 1/2/3/4-byte classes, U+0000, U+FFFF, U+10FFFF, U+FEFF, appended to empty/non-empty outputs, both policies, all 37 operations + Convert::To between string/u16string/u32string/wstring; non-trivial = sequence holds code points of >= 2 UTF-8 length classes")
{
	size_t n = c.src.len(4096);
	Scalars s; unsigned classes = 0;
	for (size_t i = 0; i < n; i++) { char32_t cp = gen_scalar(c.src); s.push_back(cp); classes |= 1u << refutf::utf8_len(cp); }
	bool prefix = c.src.coin(); auto pol = c.src.coin() ? UtfEncodingErrorPolicy::ThrowError : UtfEncodingErrorPolicy::Skip;
	c.nontrivial = __builtin_popcount(classes) >= 2;
	c.describe(vf::cat("len=", n, " prefix=", prefix, " pol=", static_cast<int>(pol), " ", refutf::show(s.substr(0, 40)), " h=", vf::hash_bytes(s.data(), s.size() * 4)));
	c.label(vf::cat("classes=", __builtin_popcount(classes)));
	if (n > 256) c.label("len>256");
	try { all_ops(s, pol, prefix); all_convert_to(s); }
	catch (const Mismatch& m) { c.fail("transcode-mismatch", m.what); }
	catch (const std::exception& e) { c.fail("exception-on-valid-input", e.what()); }
}

// A single-pass source in the manner of std::istreambuf_iterator: copies share the position, so a range can be walked once only.
template <class T> struct SinglePass {
	using iterator_category = std::input_iterator_tag; using value_type = T; using difference_type = std::ptrdiff_t; using pointer = const T*; using reference = const T&;
	struct State { const T* p; const T* e; }; State* st = nullptr;
	SinglePass() = default; explicit SinglePass(State* s) : st(s) {}
	reference operator*() const { return *st->p; }
	SinglePass& operator++() { ++st->p; return *this; }
	SinglePass operator++(int) { SinglePass r = *this; ++st->p; return r; }   // as with istreambuf_iterator, the copy moves on too
	bool at_end() const { return st == nullptr || st->p == st->e; }
	friend bool operator==(const SinglePass& a, const SinglePass& b) { return a.at_end() == b.at_end(); }
	friend bool operator!=(const SinglePass& a, const SinglePass& b) { return !(a == b); }
};

// The same operation from four kinds of source range: raw pointers, std::list, std::deque, single-pass.
template <class TUtf, bool Dec, class TIn, class TOut>
void check_from_ranges(const Scalars& s, const char* name, UtfEncodingErrorPolicy pol, const TOut& prefixNative, unsigned kind, bool srcSwapped, bool outSwapped) {
	using CI = typename TIn::value_type;
	TIn in = ref_native<TIn>(s); if (srcSwapped) in = swapped(in);
	TOut prefix = prefixNative, tail = ref_native<TOut>(s); if (outSwapped) { prefix = swapped(prefix); tail = swapped(tail); }
	TOut out = prefix; const TOut want = prefix + tail;
	auto verify = [&](const auto& r, bool atEnd) {
		if (r.ErrorCode != UtfEncodingErrorCode::Success) throw Mismatch{ vf::cat(name, ": error code ", static_cast<int>(r.ErrorCode)) };
		if (r.InvalidSequencesCount != 0) throw Mismatch{ vf::cat(name, ": InvalidSequencesCount=", r.InvalidSequencesCount) };
		if (!atEnd) throw Mismatch{ vf::cat(name, ": iterator not at end") };
		if (out != want) throw Mismatch{ vf::cat(name, ": output ", units(out), "!= expected ", units(want)) };
	};
	auto run = [&](auto b, auto e) { if constexpr (Dec) return TUtf::Decode(b, e, out, pol); else return TUtf::Encode(b, e, out, pol); };
	switch (kind) {
	case 0: { const CI* b = in.data(); const CI* e = in.data() + in.size(); auto r = run(b, e); verify(r, r.Iterator == e); break; }
	case 1: { std::list<CI> l(in.begin(), in.end()); auto r = run(l.cbegin(), l.cend()); verify(r, r.Iterator == l.cend()); break; }
	case 2: { std::deque<CI> l(in.begin(), in.end()); auto r = run(l.cbegin(), l.cend()); verify(r, r.Iterator == l.cend()); break; }
	default: { typename SinglePass<CI>::State st{ in.data(), in.data() + in.size() }; auto r = run(SinglePass<CI>(&st), SinglePass<CI>()); verify(r, r.Iterator == SinglePass<CI>()); break; }
	}
}

VF_PROPERTY(sequences_other_source_ranges, 2, "the Decode/Encode operations of the five encoder classes are templates over the source iterator: generated scalar sequences (length 0..600, all planes) supplied as raw pointers, std::list, std::deque and as a single-pass input range (the kind std::istreambuf_iterator gives; UTF-8 sources also through a real std::istreambuf_iterator<char>), appended to empty/non-empty outputs, both policies; non-trivial = a non-contiguous or single-pass source holding code points of >= 2 UTF-8 length classes")
{
	size_t n = c.src.len(600); Scalars s; unsigned classes = 0;
	for (size_t i = 0; i < n; i++) { char32_t cp = gen_scalar(c.src); s.push_back(cp); classes |= 1u << refutf::utf8_len(cp); }
	const bool prefix = c.src.coin(); const auto pol = c.src.coin() ? UtfEncodingErrorPolicy::ThrowError : UtfEncodingErrorPolicy::Skip; const unsigned kind = static_cast<unsigned>(c.src.draw(5));
	const std::string p8 = prefix ? "x\xC3\xA9" : ""; const std::u16string p16 = prefix ? u"xé" : u""; const std::u32string p32 = prefix ? U"xé" : U"";
	static const char* kinds[] = { "pointers", "list", "deque", "single-pass", "istreambuf" };
	c.nontrivial = kind != 0 && __builtin_popcount(classes) >= 2; c.label(kinds[kind]);
	c.describe(vf::cat("source=", kinds[kind], " len=", n, " prefix=", prefix, " pol=", static_cast<int>(pol), " ", refutf::show(s.substr(0, 40)), " h=", vf::hash_bytes(s.data(), s.size() * 4)));
	constexpr bool le = Memory::Endian::native == Memory::Endian::little;
	try {
		if (kind == 4) {
			const std::string in = ref_native<std::string>(s);
			{ std::istringstream is(in); std::u16string out = p16; auto r = Utf8::Decode(std::istreambuf_iterator<char>(is), std::istreambuf_iterator<char>(), out, pol); if (!r || r.InvalidSequencesCount || r.Iterator != std::istreambuf_iterator<char>() || out != p16 + ref_native<std::u16string>(s)) throw Mismatch{ vf::cat("Utf8::Decode->16 from istreambuf_iterator: output ", units(out)) }; }
			{ std::istringstream is(in); std::u32string out = p32; auto r = Utf8::Decode(std::istreambuf_iterator<char>(is), std::istreambuf_iterator<char>(), out, pol); if (!r || r.InvalidSequencesCount || r.Iterator != std::istreambuf_iterator<char>() || out != p32 + ref_native<std::u32string>(s)) throw Mismatch{ vf::cat("Utf8::Decode->32 from istreambuf_iterator: output ", units(out)) }; }
			{ std::istringstream is(in); const std::u16string bp = le ? swapped(p16) : p16, bt = le ? swapped(ref_native<std::u16string>(s)) : ref_native<std::u16string>(s); std::u16string out = bp; auto r = Utf16Be::Encode(std::istreambuf_iterator<char>(is), std::istreambuf_iterator<char>(), out, pol); if (!r || r.InvalidSequencesCount || r.Iterator != std::istreambuf_iterator<char>() || out != bp + bt) throw Mismatch{ vf::cat("Utf16Be::Encode<-8 from istreambuf_iterator: output ", units(out)) }; }
			{ std::istringstream is(in); const std::u32string bp = le ? p32 : swapped(p32), bt = le ? ref_native<std::u32string>(s) : swapped(ref_native<std::u32string>(s)); std::u32string out = bp; auto r = Utf32Le::Encode(std::istreambuf_iterator<char>(is), std::istreambuf_iterator<char>(), out, pol); if (!r || r.InvalidSequencesCount || r.Iterator != std::istreambuf_iterator<char>() || out != bp + bt) throw Mismatch{ vf::cat("Utf32Le::Encode<-8 from istreambuf_iterator: output ", units(out)) }; }
			return;
		}
#define RG(U, D, I, O, P, SS, OS) check_from_ranges<U, D, I, O>(s, #U "::" #D " " #I "->" #O, pol, P, kind, SS, OS)
		RG(Utf8, true, std::string, std::u16string, p16, false, false); RG(Utf8, true, std::string, std::u32string, p32, false, false);
		RG(Utf8, false, std::u16string, std::string, p8, false, false); RG(Utf8, false, std::u32string, std::string, p8, false, false);
		RG(Utf16Le, true, std::u16string, std::string, p8, !le, false); RG(Utf16Le, true, std::u16string, std::u16string, p16, !le, false); RG(Utf16Le, true, std::u16string, std::u32string, p32, !le, false);
		RG(Utf16Be, true, std::u16string, std::string, p8, le, false); RG(Utf16Be, true, std::u16string, std::u16string, p16, le, false); RG(Utf16Be, true, std::u16string, std::u32string, p32, le, false);
		RG(Utf16Le, false, std::string, std::u16string, p16, false, !le); RG(Utf16Le, false, std::u16string, std::u16string, p16, false, !le); RG(Utf16Le, false, std::u32string, std::u16string, p16, false, !le);
		RG(Utf16Be, false, std::string, std::u16string, p16, false, le); RG(Utf16Be, false, std::u16string, std::u16string, p16, false, le); RG(Utf16Be, false, std::u32string, std::u16string, p16, false, le);
		RG(Utf32Le, true, std::u32string, std::string, p8, !le, false); RG(Utf32Le, true, std::u32string, std::u16string, p16, !le, false); RG(Utf32Le, true, std::u32string, std::u32string, p32, !le, false);
		RG(Utf32Be, true, std::u32string, std::string, p8, le, false); RG(Utf32Be, true, std::u32string, std::u16string, p16, le, false); RG(Utf32Be, true, std::u32string, std::u32string, p32, le, false);
		RG(Utf32Le, false, std::string, std::u32string, p32, false, !le); RG(Utf32Le, false, std::u16string, std::u32string, p32, false, !le); RG(Utf32Le, false, std::u32string, std::u32string, p32, false, !le);
		RG(Utf32Be, false, std::string, std::u32string, p32, false, le); RG(Utf32Be, false, std::u16string, std::u32string, p32, false, le); RG(Utf32Be, false, std::u32string, std::u32string, p32, false, le);
#undef RG
	}
	catch (const Mismatch& m) { c.fail("transcode-mismatch", m.what); }
	catch (const std::exception& e) { c.fail("exception-on-valid-input", e.what()); }
}

int main(int argc, char** argv) {
	if (const char* e = refutf::selftest()) { fprintf(stderr, "ORACLE SELF-TEST FAILED: %s\n", e); return 2; }
	return vf::engine_main(argc, argv, "c11_utf_valid");
}
