// C17 — validation reports exactly the failing fields and rules, after a full load.
// A typed object (flat fields, a nested object, an array of objects, a map of objects) whose every field carries a runtime-chosen
// list of 0..3 validators out of {Required, Range, MinSize, MaxSize, Email, PhoneNumber, custom functors/lambda} with default or
// custom messages is loaded from a generated document in which each field is present (values at / just inside / just outside every
// bound), absent, null or mismatched-and-skipped, under maxValidationErrors in {0,1,2,3,...}.  Oracle: a small reference model of the
// documented rules (it never calls the library validators) that predicts, in load order, the failing fields and their messages.
#include "common/dyn.h"
#include "bitserializer/types/std/map.h"
#include "bitserializer/types/std/vector.h"
#include "bitserializer/types/std/tuple.h"
#include "bitserializer/types/std/optional.h"
#include "bitserializer/types/std/array.h"
#include "bitserializer/types/std/deque.h"
#include <tuple>
#include <optional>
#include <array>
#include <deque>
#include <map>
#include <set>
#include <cstdio>
#include <algorithm>

using namespace arch;
using refmp::Val; using RT = refmp::T;

enum class C17Color { Red, Green, Blue };
REGISTER_ENUM(C17Color, { { C17Color::Red, "Red" }, { C17Color::Green, "Green" }, { C17Color::Blue, "Blue" } })

namespace {

enum VK { VRequired, VRange, VMinSize, VMaxSize, VEmail, VPhone, VCustomLoaded, VCustomRequired };
struct VSpec {
	int kind = VRequired; bool custom = false; std::string msg; double lo = 0, hi = 0; size_t n = 0, pmin = 7, pmax = 15; bool plus = true;
	std::string str() const { static const char* k[] = { "Required", "Range", "MinSize", "MaxSize", "Email", "Phone", "CustomLoaded", "CustomRequired" };
		std::string r = k[kind]; if (kind == VRange) r += vf::cat("(", lo, ",", hi, ")"); if (kind == VMinSize || kind == VMaxSize) r += vf::cat("(", n, ")"); if (kind == VPhone) r += vf::cat("(", pmin, ",", pmax, ",", plus, ")"); if (custom) r += "[msg]"; return r; }
};
using Slots = std::vector<VSpec>;
struct Spec { std::map<std::string, Slots> f; bool lambda = false;
	const VSpec* get(const char* key, size_t i) const { auto it = f.find(key); return it == f.end() || i >= it->second.size() ? nullptr : &it->second[i]; } };
const Spec* g_spec = nullptr;
bool g_calm = false;   // generator mode of the current case: few validators, mostly present values (so that "nothing fails" is well represented)

// the "custom" predicate shared by the functor and the model: what a loaded value looks like to it
template <class T> bool custom_pred(const T& v);
template <> bool custom_pred(const int32_t& v) { return v % 2 != 0; }
template <> bool custom_pred(const uint8_t& v) { return v % 2 != 0; }
template <> bool custom_pred(const double& v) { return v < 0; }
template <> bool custom_pred(const std::string& v) { return v.size() % 2 != 0; }
template <> bool custom_pred(const std::vector<int32_t>& v) { return v.size() % 2 != 0; }

struct Slot {
	const VSpec* s;
	template <class T> std::optional<std::string> operator()(const T& v, bool loaded) const {
		if (!s) return std::nullopt;
		const char* m = s->custom ? s->msg.c_str() : nullptr;
		switch (s->kind) {
		case VRequired: return s->custom ? Required(m)(v, loaded) : Required()(v, loaded);
		case VRange: if constexpr (std::is_arithmetic_v<T>) return Range<T>(static_cast<T>(s->lo), static_cast<T>(s->hi), m)(v, loaded); break;
		case VMinSize: if constexpr (has_size_v<T>) return MinSize(s->n, m)(v, loaded); break;
		case VMaxSize: if constexpr (has_size_v<T>) return MaxSize(s->n, m)(v, loaded); break;
		case VEmail: if constexpr (std::is_same_v<T, std::string>) return s->custom ? Email(m)(v, loaded) : Email()(v, loaded); break;
		case VPhone: if constexpr (std::is_same_v<T, std::string>) return PhoneNumber(s->pmin, s->pmax, s->plus, m)(v, loaded); break;
		case VCustomLoaded: if constexpr (std::is_arithmetic_v<T> || std::is_same_v<T, std::string> || std::is_same_v<T, std::vector<int32_t>>) { if (loaded && custom_pred(v)) return s->msg; } else { if (loaded) return s->msg; } return std::nullopt;
		case VCustomRequired: if (!loaded) return s->msg; return std::nullopt;
		}
		return std::nullopt;
	}
};
#define SLOTS(key) Slot{ g_spec->get(key, 0) }, Slot{ g_spec->get(key, 1) }, Slot{ g_spec->get(key, 2) }

struct Inner {
	int32_t q = -77; std::string r = "<r>";
	template <class A> void Serialize(A& a) { a << KeyValue("q", q, SLOTS("q")) << KeyValue("r", r, SLOTS("r")); }
};
struct Rec {
	int32_t i = -77; double d = -77.5; std::string s = "<s>"; std::vector<int32_t> v{ -7, -7 }; std::string e = "<e>"; std::string p = "<p>"; uint8_t u = 77;
	Inner in; std::vector<Inner> arr; std::map<std::string, Inner> mp; C17Color col = C17Color::Blue; std::string at = "<at>";
	template <class A> void Serialize(A& a) {
		const bool lam = g_spec->lambda;
		if constexpr (can_serialize_attribute_v<A>) a << AttributeValue("at", at, SLOTS("at"));   // XML only: a validated attribute
		a << KeyValue("i", i, SLOTS("i"), [lam](const int32_t& val, bool loaded) -> std::optional<std::string> { if (lam && loaded && val == 13) return "unlucky"; return std::nullopt; })
		  << KeyValue("d", d, SLOTS("d")) << KeyValue("s", s, SLOTS("s")) << KeyValue("v", v, SLOTS("v")) << KeyValue("e", e, SLOTS("e")) << KeyValue("p", p, SLOTS("p")) << KeyValue("u", u, SLOTS("u"))
		  << KeyValue("in", in, SLOTS("in")) << KeyValue("arr", arr, SLOTS("arr")) << KeyValue("mp", mp, SLOTS("mp")) << KeyValue("col", col, SLOTS("col"));
	}
};
struct RecCsv {
	int32_t i = -77; double d = -77.5; std::string s = "<s>"; std::string e = "<e>"; std::string p = "<p>"; uint8_t u = 77;
	template <class A> void Serialize(A& a) {
		const bool lam = g_spec->lambda;
		a << KeyValue("i", i, SLOTS("i"), [lam](const int32_t& val, bool loaded) -> std::optional<std::string> { if (lam && loaded && val == 13) return "unlucky"; return std::nullopt; })
		  << KeyValue("d", d, SLOTS("d")) << KeyValue("s", s, SLOTS("s")) << KeyValue("e", e, SLOTS("e")) << KeyValue("p", p, SLOTS("p")) << KeyValue("u", u, SLOTS("u"));
	}
};

// ---- reference model -------------------------------------------------------------------------------------------------------
struct Facts { bool loaded = false; double num = 0; size_t size = 0; bool pred = false; bool emailValid = false; bool phoneDefect = false, phonePlus = false; size_t phoneDigits = 0; };
std::string fmt_num(double v) { char b[64]; std::snprintf(b, sizeof b, "%.10g", v); return b; }
// expected message; a leading '~' means "any message starting with the rest"
std::optional<std::string> model(const VSpec& s, const Facts& f) {
	switch (s.kind) {
	case VRequired: if (!f.loaded) return s.custom ? s.msg : "This field is required"; return std::nullopt;
	case VRange: if (f.loaded && (f.num < s.lo || f.num > s.hi)) return s.custom ? s.msg : "Value must be between " + fmt_num(s.lo) + " and " + fmt_num(s.hi); return std::nullopt;
	case VMinSize: if (f.loaded && f.size < s.n) return s.custom ? s.msg : vf::cat("The minimum size of this field should be ", s.n); return std::nullopt;
	case VMaxSize: if (f.loaded && f.size > s.n) return s.custom ? s.msg : vf::cat("The maximum size of this field should be not greater than ", s.n); return std::nullopt;
	case VEmail: if (f.loaded && !f.emailValid) return s.custom ? s.msg : "Invalid email address"; return std::nullopt;
	case VPhone: if (f.loaded && (f.phoneDefect || (s.plus && !f.phonePlus) || f.phoneDigits < s.pmin || f.phoneDigits > s.pmax)) return s.custom ? s.msg : "~Invalid phone number"; return std::nullopt;
	case VCustomLoaded: if (f.loaded && f.pred) return s.msg; return std::nullopt;
	default: if (!f.loaded) return s.msg; return std::nullopt;
	}
}
struct Expected { std::vector<std::pair<std::string, std::vector<std::string>>> fails; };   // in load order
void eval_field(Expected& ex, const std::string& path, const char* key, const Facts& f, const Spec& sp) {
	std::vector<std::string> msgs; auto it = sp.f.find(key);
	if (it != sp.f.end()) for (auto& s : it->second) if (auto m = model(s, f)) msgs.push_back(*m);
	if (sp.lambda && std::string(key) == "i" && f.loaded && f.num == 13) msgs.push_back("unlucky");
	if (!msgs.empty()) ex.fails.emplace_back(path, msgs);
}

size_t choose(vf::Src& s, std::initializer_list<size_t> l) { return *(l.begin() + s.draw(l.size())); }
// ---- generators ------------------------------------------------------------------------------------------------------------
const char* kMsgs[] = { "custom message A", "msg-B", "Поле обязательно", "C!" };
VSpec gen_vspec(vf::Src& s, const std::vector<int>& kinds, bool isU8, bool isDouble) {
	VSpec v; v.kind = kinds[s.draw(kinds.size())]; v.custom = s.chance(2, 5); v.msg = vf::cat(kMsgs[s.draw(4)], "#", s.draw(4));
	if (v.kind == VCustomLoaded || v.kind == VCustomRequired) v.custom = true;
	if (v.kind == VRange) { if (isU8) { v.lo = static_cast<double>(s.draw(256)); v.hi = static_cast<double>(s.draw(256)); } else if (isDouble) { v.lo = (static_cast<double>(s.draw(400)) - 200) / 4; v.hi = (static_cast<double>(s.draw(400)) - 200) / 4; } else { v.lo = static_cast<double>(s.draw(100)) - 50; v.hi = static_cast<double>(s.draw(100)) - 50; }
		if (v.lo > v.hi && s.chance(19, 20)) std::swap(v.lo, v.hi); }
	if (v.kind == VMinSize || v.kind == VMaxSize) v.n = s.draw(7);
	if (v.kind == VPhone) { v.pmin = 1 + s.draw(12); v.pmax = v.pmin + (s.chance(1, 4) ? 0 : s.draw(8)); v.plus = s.coin(); if (s.chance(1, 3)) { v.pmin = 7; v.pmax = 15; v.plus = true; } }
	return v;
}
Slots gen_slots(vf::Src& s, const std::vector<int>& kinds, bool isU8 = false, bool isDouble = false) {
	Slots r; size_t n = g_calm ? choose(s, { 0, 0, 0, 0, 0, 1 }) : choose(s, { 0, 0, 0, 1, 1, 1, 2, 3 }); for (size_t i = 0; i < n; i++) r.push_back(gen_vspec(s, kinds, isU8, isDouble)); return r;
}
// value near a bound of one of the Range validators of the field (or anywhere)
double near_bound(vf::Src& s, const Slots& sl, double lo, double hi, double step) {
	std::vector<double> c; for (auto& v : sl) if (v.kind == VRange) for (double b : { v.lo, v.hi }) for (double d : { -step, 0.0, step }) c.push_back(b + d);
	double r = !c.empty() && s.chance(1, 2) ? c[s.draw(c.size())] : lo + step * static_cast<double>(s.draw(static_cast<uint64_t>((hi - lo) / step) + 1));
	return r < lo ? lo : r > hi ? hi : r;
}
size_t near_size(vf::Src& s, const Slots& sl, size_t maxLen) {
	std::vector<size_t> c; for (auto& v : sl) if (v.kind == VMinSize || v.kind == VMaxSize) { if (v.n) c.push_back(v.n - 1); c.push_back(v.n); c.push_back(v.n + 1); }
	return !c.empty() && s.chance(1, 2) ? c[s.draw(c.size())] : s.draw(maxLen + 1);
}
std::string letters(vf::Src& s, size_t n, bool digitsToo = false) { std::string r; for (size_t i = 0; i < n; i++) { uint64_t k = s.draw(digitsToo && i ? 36 : 26); r.push_back(k < 26 ? static_cast<char>('a' + k) : static_cast<char>('0' + (k - 26))); } return r; }
// e-mail by construction: (text, valid under the documented rules); digit-leading labels are never produced (RFC 1123 allows, the library documents "cannot")
std::pair<std::string, bool> gen_email(vf::Src& s, bool textSafe) {
	static const std::string atext = textSafe ? "abcXYZ019!#$%'*+-/=?^_`{|}~" : "abcXYZ019!#$%&'*+-/=?^_`{|}~";
	auto localAtom = [&](size_t n) { std::string r; for (size_t i = 0; i < n; i++) r.push_back(atext[s.draw(atext.size())]); return r; };
	auto label = [&](size_t n) { std::string r; for (size_t i = 0; i < n; i++) { if (i == 0) r.push_back(static_cast<char>((s.coin() ? 'a' : 'A') + s.draw(26))); else if (i + 1 < n && s.chance(1, 6)) r.push_back('-'); else { uint64_t k = s.draw(36); r.push_back(k < 26 ? static_cast<char>('a' + k) : static_cast<char>('0' + (k - 26))); } } return r; };
	std::string local = localAtom(1 + s.draw(6)); for (size_t k = s.draw(3); k > 0; k--) local += "." + localAtom(1 + s.draw(4));
	std::string domain = label(1 + s.draw(8)); for (size_t k = s.draw(4); k > 0; k--) domain += "." + label(1 + s.draw(6));
	switch (s.draw(34)) {
	case 0: return { local + domain, false };                                   // no '@'
	case 1: return { "@" + domain, false };                                     // empty local part
	case 2: return { local + "@", false };                                      // empty domain
	case 3: return { "." + local + "@" + domain, false };                        // leading dot
	case 4: return { local + ".@" + domain, false };                             // trailing dot of the local part
	case 5: return { local + ".." + localAtom(1) + "@" + domain, false };        // consecutive dots
	case 6: return { local + "@" + domain + ".", false };                        // trailing dot of the domain
	case 7: return { local + "@." + domain, false };                             // domain starts with a dot
	case 8: return { local + "@" + domain + "..com", false };                    // consecutive dots in the domain
	case 9: return { local + "@-" + domain, false };                             // label starts with a hyphen
	case 10: return { local + "@" + domain + "-.com", false };                   // label ends with a hyphen
	case 11: return { local + " x@" + domain, false };                           // blank in the local part
	case 12: return { local + "@" + domain + "_x.com", false };                  // character not allowed in a domain
	case 13: return { local + "@" + domain + "@" + domain, false };              // second '@'
	case 14: { size_t n = 63 + s.draw(3); std::string l; while (l.size() < n) l.push_back(atext[s.draw(atext.size())]); return { l + "@" + domain, n <= 64 }; }   // local-part length 63..65 (limit 64)
	case 15: { size_t n = 62 + s.draw(3); return { local + "@" + label(n) + ".org", n <= 63 }; }                                                              // label length 62..64 (limit 63)
	case 16: { size_t last = 62 + s.draw(3); std::string d = label(63) + "." + label(63) + "." + label(63) + "." + label(last); return { local + "@" + d, last <= 63 }; }   // domain 254..256 (limit 255), last label 62..64 (limit 63)
	default: return { local + "@" + domain, true };
	}
}
struct Phone { std::string text; bool defect = false, plus = false; size_t digits = 0; };
Phone gen_phone(vf::Src& s, const Slots& sl) {
	Phone p; size_t target = 1 + s.draw(20);
	std::vector<size_t> c; for (auto& v : sl) if (v.kind == VPhone) { if (v.pmin > 1) c.push_back(v.pmin - 1); c.push_back(v.pmin); c.push_back(v.pmax); c.push_back(v.pmax + 1); }
	if (!c.empty() && s.chance(4, 5)) target = c[s.draw(c.size())];
	p.plus = s.chance(3, 4); if (p.plus) p.text = "+";
	const uint64_t defect = s.chance(1, 4) ? 1 + s.draw(7) : 0;
	bool paren = false, parenUsed = false; size_t inParen = 0;
	for (size_t i = 0; i < target; i++) {
		const bool afterDigit = !p.text.empty() && p.text.back() >= '0' && p.text.back() <= '9';
		if (afterDigit && !paren && s.chance(1, 5)) p.text += s.coin() ? " " : (s.coin() ? "-" : " - ");   // separators only between digits
		else if (afterDigit && i + 2 < target && !paren && !parenUsed && s.chance(1, 6)) { p.text += " ("; paren = true; parenUsed = true; inParen = 0; }
		p.text.push_back(static_cast<char>('0' + s.draw(10))); p.digits++;
		if (paren && ++inParen >= 2 && s.coin()) { p.text += i + 1 == target ? ")" : ") "; paren = false; }
	}
	if (paren) { p.text += ")"; }
	switch (defect) {
	case 1: p.text += "x"; p.defect = true; break;                                        // invalid character
	case 2: p.text += "-"; p.defect = true; break;                                        // dash at the end
	case 3: p.text += "(" ; p.defect = true; break;                                       // unclosed parenthesis
	case 4: p.text += ")"; p.defect = true; break;                                        // closing without opening
	case 5: p.text = (p.plus ? "+-" : "-") + p.text.substr(p.plus ? 1 : 0); p.defect = true; break;   // dash before the first digit
	case 6: p.text += "5+5"; p.digits += 2; p.defect = true; break;                        // plus in the middle
	case 7: p.text += " ((1)"; p.digits += 1; p.defect = true; break;                      // nested parentheses
	default: break;
	}
	return p;
}

enum St { Present, Absent, Null, Mismatch };
St gen_state(vf::Src& s, bool allowNull) { if (g_calm && s.chance(9, 10)) return Present; const uint64_t k = s.draw(20); if (k < 15) return Present; if (k < 17) return Absent; if (k < 18) return allowNull ? Null : Absent; return Mismatch; }

struct InnerDoc { St q = Present, r = Present; int32_t qv = 0; std::string rv; };
struct Doc {
	St st[10]; int32_t i = 0; double d = 0; std::string s; std::vector<int32_t> v; std::string e; bool eValid = false; Phone p; int u = 0;
	InnerDoc in; std::vector<InnerDoc> arr; std::vector<std::pair<std::string, InnerDoc>> mp;
};
const char* kKeys[10] = { "i", "d", "s", "v", "e", "p", "u", "in", "arr", "mp" };

InnerDoc gen_inner(vf::Src& s, const Spec& sp, bool allowNull) {
	InnerDoc r; r.q = gen_state(s, allowNull); r.r = gen_state(s, allowNull);
	static const Slots none; auto sl = [&](const char* k) -> const Slots& { auto it = sp.f.find(k); return it == sp.f.end() ? none : it->second; };
	r.qv = static_cast<int32_t>(near_bound(s, sl("q"), -60, 60, 1)); r.rv = letters(s, near_size(s, sl("r"), 8)); return r;
}
Val inner_val(const InnerDoc& d, vf::Src& s, int archId) {
	std::vector<std::pair<Val, Val>> m; const bool typed = archId == MSGPACK || archId == JSON;
	auto mis = [&](bool forInt) { return forInt ? refmp::mkStr("abc") : (typed ? (s.coin() ? refmp::mkInt(-5) : refmp::mkArr({ refmp::mkInt(-1) })) : refmp::mkArr({ refmp::mkInt(-1), refmp::mkInt(-2) })); };
	if (d.q != Absent) m.push_back({ refmp::mkStr("q"), d.q == Present ? refmp::mkInt(d.qv) : d.q == Null ? refmp::mkNil() : mis(true) });
	if (d.r != Absent) m.push_back({ refmp::mkStr("r"), d.r == Present ? refmp::mkStr(d.rv) : d.r == Null ? refmp::mkNil() : mis(false) });
	if (m.size() == 2 && s.chance(1, 3)) std::swap(m[0], m[1]);
	return refmp::mkMap(m);
}
void eval_inner(Expected& ex, const std::string& path, const InnerDoc& d, const Spec& sp) {
	Facts q; q.loaded = d.q == Present; q.num = d.qv; q.pred = d.qv % 2 != 0; eval_field(ex, path + "/q", "q", q, sp);
	Facts r; r.loaded = d.r == Present; r.size = d.rv.size(); r.pred = d.rv.size() % 2 != 0; eval_field(ex, path + "/r", "r", r, sp);
}

Spec gen_spec(vf::Src& s, bool csv) {
	Spec sp; sp.lambda = s.coin();
	sp.f["i"] = gen_slots(s, { VRequired, VRange, VRange, VCustomLoaded, VCustomRequired });
	sp.f["d"] = gen_slots(s, { VRequired, VRange, VRange, VCustomLoaded }, false, true);
	sp.f["s"] = gen_slots(s, { VRequired, VMinSize, VMaxSize, VMinSize, VMaxSize, VCustomLoaded });
	sp.f["e"] = gen_slots(s, { VRequired, VEmail, VEmail, VMaxSize, VCustomRequired });
	sp.f["p"] = gen_slots(s, { VRequired, VPhone, VPhone, VMinSize });
	sp.f["u"] = gen_slots(s, { VRequired, VRange, VRange, VCustomLoaded }, true);
	if (!csv) {
		sp.f["v"] = gen_slots(s, { VRequired, VMinSize, VMaxSize, VMinSize, VMaxSize, VCustomLoaded });
		sp.f["in"] = gen_slots(s, { VRequired, VCustomRequired, VCustomLoaded });
		sp.f["arr"] = gen_slots(s, { VRequired, VMinSize, VMaxSize });
		sp.f["mp"] = gen_slots(s, { VRequired, VMinSize, VMaxSize });
		sp.f["col"] = gen_slots(s, { VRequired, VRequired, VCustomRequired, VCustomLoaded });
		sp.f["at"] = gen_slots(s, { VRequired, VMinSize, VMaxSize, VCustomLoaded });
		sp.f["q"] = gen_slots(s, { VRequired, VRange, VCustomLoaded });
		sp.f["r"] = gen_slots(s, { VRequired, VMinSize, VMaxSize });
	}
	return sp;
}
std::string spec_str(const Spec& sp) { std::string r; for (auto& kv : sp.f) { if (kv.second.empty()) continue; r += kv.first + ":"; for (auto& v : kv.second) r += v.str() + ","; r += " "; } if (sp.lambda) r += "lambda"; return r; }

std::string norm_path(const std::string& p) {   // numeric segments (array / row positions) -> '#'
	std::string r; size_t i = 0; while (i < p.size()) { size_t j = p.find('/', i + 1); if (j == std::string::npos) j = p.size(); std::string seg = p.substr(i, j - i);
		bool num = seg.size() > 1; for (size_t k = 1; k < seg.size(); k++) if (seg[k] < '0' || seg[k] > '9') num = false; r += num ? "/#" : seg; i = j; } return r;
}
std::string show_errors(const ValidationMap& m) { std::string r; for (auto& kv : m) { r += kv.first + "=["; for (auto& x : kv.second) r += x + "|"; r += "] "; } return r; }
std::string show_expected(const std::vector<std::pair<std::string, std::vector<std::string>>>& f) { std::string r; for (auto& kv : f) { r += kv.first + "=["; for (auto& x : kv.second) r += x + "|"; r += "] "; } return r; }
bool msgs_match(const std::vector<std::string>& want, const std::vector<std::string>& got) {
	if (want.size() != got.size()) return false;
	for (size_t i = 0; i < want.size(); i++) { if (!want[i].empty() && want[i][0] == '~') { if (got[i].compare(0, want[i].size() - 1, want[i], 1, std::string::npos) != 0) return false; } else if (want[i] != got[i]) return false; }
	return true;
}
// compares the exception content with the expectation (array positions aside: numeric path segments are wildcards, compared as multisets)
void compare_errors(vf::Ctx& c, const Expected& ex, size_t cap, const Outcome& lo, const std::string& prefix, const std::string& d, bool xmlPaths = false) {
	// fields are identified by their path: XML array elements share one path (no positions), so their messages are grouped; the limit counts distinct paths
	std::vector<std::pair<std::string, std::vector<std::string>>> want;
	for (auto& f : ex.fails) {
		std::string path = f.first; if (xmlPaths) { size_t p = path.find("/arr/"); if (p != std::string::npos) { size_t e = path.find('/', p + 5); path = path.substr(0, p + 5) + "object" + (e == std::string::npos ? "" : path.substr(e)); } }
		auto it = std::find_if(want.begin(), want.end(), [&](auto& w) { return w.first == path; });
		if (it == want.end()) want.emplace_back(path, f.second); else it->second.insert(it->second.end(), f.second.begin(), f.second.end());
		if (cap && want.size() == cap) break;
	}
	if (want.empty()) { if (!lo.ok()) c.fail(lo.k == Outcome::Validation ? "ValidationException although no validator fails" : "load of a document whose offences are all skippable failed", vf::cat(lo.k == Outcome::Validation ? show_errors(lo.errors) : lo.str(), " | ", d)); return; }
	if (lo.k != Outcome::Validation) c.fail("a validator fails but no ValidationException is thrown", vf::cat("expected ", show_expected(want), " got ", lo.str(), " | ", d));
	std::vector<bool> used(want.size(), false);
	for (auto& kv : lo.errors) {
		bool found = false; bool pathFound = false;
		for (size_t i = 0; i < want.size() && !found; i++) { if (used[i] || norm_path(prefix + want[i].first) != norm_path(kv.first)) continue; pathFound = true; if (msgs_match(want[i].second, kv.second)) { used[i] = true; found = true; } }
		if (!found) c.fail(pathFound ? "a failing field is reported with other messages than those of its failing validators, in declaration order" : "the exception lists a field that does not fail (or is beyond the maxValidationErrors limit)", vf::cat("reported ", kv.first, " | expected ", show_expected(want), " got ", show_errors(lo.errors), " | ", d));
	}
	for (size_t i = 0; i < want.size(); i++) if (!used[i]) c.fail("a failing field is missing from the exception", vf::cat("missing ", want[i].first, " | expected ", show_expected(want), " got ", show_errors(lo.errors), " | ", d));
}

template <class A> void run_object(vf::Ctx& c, int archId) {
	const bool typed = archId == MSGPACK || archId == JSON; const bool allowNull = typed;
	g_calm = c.src.chance(1, 4); Spec sp = gen_spec(c.src, false); g_spec = &sp;
	static const Slots none; auto sl = [&](const char* k) -> const Slots& { auto it = sp.f.find(k); return it == sp.f.end() ? none : it->second; };
	Doc doc; for (auto& st : doc.st) st = gen_state(c.src, allowNull);
	doc.i = c.src.chance(1, 8) ? 13 : static_cast<int32_t>(near_bound(c.src, sl("i"), -60, 60, 1)); doc.d = near_bound(c.src, sl("d"), -60, 60, 0.25);
	doc.s = letters(c.src, near_size(c.src, sl("s"), 8)); { size_t n = near_size(c.src, sl("v"), 8); for (size_t k = 0; k < n; k++) doc.v.push_back(static_cast<int32_t>(c.src.draw(2000)) - 1000); }
	{ auto em = gen_email(c.src, false); doc.e = em.first; doc.eValid = em.second; } doc.p = gen_phone(c.src, sl("p")); doc.u = static_cast<int>(near_bound(c.src, sl("u"), 0, 255, 1));
	doc.in = gen_inner(c.src, sp, allowNull); for (size_t n = c.src.draw(4); n > 0; n--) doc.arr.push_back(gen_inner(c.src, sp, allowNull));
	for (size_t n = c.src.draw(3), k = 0; k < n; k++) doc.mp.emplace_back(std::string("k") + static_cast<char>('a' + k), gen_inner(c.src, sp, allowNull));
	if (archId == XML) {   // XML cannot tell an empty string / container from an absent value (format limit, see C01)
		auto fixIn = [](InnerDoc& x) { if (x.rv.empty()) x.rv = "a"; if (x.q == Absent && x.r == Absent) x.q = Present; };   // an element without content is "absent" too
		if (doc.s.empty()) doc.s = "a"; if (doc.v.empty()) doc.v.push_back(5); fixIn(doc.in); for (auto& x : doc.arr) fixIn(x); for (auto& x : doc.mp) fixIn(x.second);
		if (doc.arr.empty()) { doc.arr.push_back(gen_inner(c.src, sp, false)); fixIn(doc.arr.back()); } if (doc.mp.empty()) { doc.mp.emplace_back("ka", gen_inner(c.src, sp, false)); fixIn(doc.mp.back().second); }
	}
	// document
	auto scalarMis = [&]() { return typed ? (c.src.coin() ? refmp::mkStr("abc") : refmp::mkArr({ refmp::mkInt(-1) })) : refmp::mkStr("abc"); };
	auto stringMis = [&]() { return typed ? (c.src.coin() ? refmp::mkInt(-5) : refmp::mkMap({ { refmp::mkStr("z"), refmp::mkInt(-1) } })) : refmp::mkArr({ refmp::mkInt(-1), refmp::mkInt(-2) }); };
	auto containerMis = [&](bool arr) { return typed ? (c.src.coin() ? refmp::mkInt(-5) : refmp::mkStr("text")) : refmp::mkStr(arr ? "notanarray" : "notanobject"); };
	std::vector<std::pair<Val, Val>> m;
	for (int k = 0; k < 10; k++) {
		if (doc.st[k] == Absent) continue; Val v;
		if (doc.st[k] == Null) v = refmp::mkNil();
		else if (doc.st[k] == Mismatch) { switch (k) { case 0: case 1: v = scalarMis(); break; case 6: v = c.src.coin() ? (typed ? refmp::mkInt(256 + static_cast<int64_t>(c.src.draw(1000))) : refmp::mkStr(std::to_string(256 + c.src.draw(1000)))) : (typed ? refmp::mkInt(-1 - static_cast<int64_t>(c.src.draw(100))) : refmp::mkStr("-1")); break;
			case 2: case 4: case 5: v = stringMis(); break; case 3: case 8: v = containerMis(true); break; default: v = containerMis(false); } }
		else switch (k) { case 0: v = refmp::mkInt(doc.i); break; case 1: v = refmp::mkF64(doc.d); break; case 2: v = refmp::mkStr(doc.s); break; case 3: { std::vector<Val> a; for (auto x : doc.v) a.push_back(refmp::mkInt(x)); v = refmp::mkArr(a); break; }
			case 4: v = refmp::mkStr(doc.e); break; case 5: v = refmp::mkStr(doc.p.text); break; case 6: v = refmp::mkUInt(static_cast<uint64_t>(doc.u)); break; case 7: v = inner_val(doc.in, c.src, archId); break;
			case 8: { std::vector<Val> a; for (auto& x : doc.arr) a.push_back(inner_val(x, c.src, archId)); v = refmp::mkArr(a); break; }
			default: { std::vector<std::pair<Val, Val>> mm; for (auto& x : doc.mp) mm.push_back({ refmp::mkStr(x.first), inner_val(x.second, c.src, archId) }); v = refmp::mkMap(mm); } }
		m.push_back({ refmp::mkStr(kKeys[k]), v });
	}
	const St colSt = gen_state(c.src, allowNull); const int colV = static_cast<int>(c.src.draw(3)); static const char* colNames[] = { "Red", "Green", "Blue" };
	if (colSt != Absent) m.push_back({ refmp::mkStr("col"), colSt == Null ? refmp::mkNil() : colSt == Mismatch ? refmp::mkStr(c.src.coin() ? "Purple" : "Gre") : refmp::mkStr(colNames[colV]) });   // an unregistered name is a mismatch (skipped)
	if (c.src.chance(1, 3)) for (size_t k = m.size(); k > 1; k--) std::swap(m[k - 1], m[c.src.draw(k)]);   // field order of the document is free
	std::string bytes; Cfg mem; Outcome so = dyn::save<A>(refmp::mkMap(m), bytes, mem); if (!so.ok()) c.fail("saving the document failed", so.str());
	// XML: an attribute of the root element, present or absent (inserted into the start tag of the saved document)
	const bool atPresent = archId == XML && c.src.chance(2, 3); std::string atV; if (archId == XML) { atV = letters(c.src, 1 + near_size(c.src, sl("at"), 8)); if (atPresent) { const size_t p0 = bytes.find("<root"); if (p0 == std::string::npos) c.fail("saving the document failed", "no root element"); bytes.insert(p0 + 5, " at=\"" + atV + "\""); } }
	// expectation, in load order
	Expected ex; auto ld = [&](int k) { return doc.st[k] == Present; };
	if (archId == XML) { Facts f; f.loaded = atPresent; f.size = atV.size(); f.pred = atV.size() % 2 != 0; eval_field(ex, "/at", "at", f, sp); }
	{ Facts f; f.loaded = ld(0); f.num = doc.i; f.pred = doc.i % 2 != 0; eval_field(ex, "/i", "i", f, sp); }
	{ Facts f; f.loaded = ld(1); f.num = doc.d; f.pred = doc.d < 0; eval_field(ex, "/d", "d", f, sp); }
	{ Facts f; f.loaded = ld(2); f.size = doc.s.size(); f.pred = doc.s.size() % 2 != 0; eval_field(ex, "/s", "s", f, sp); }
	{ Facts f; f.loaded = ld(3); f.size = doc.v.size(); f.pred = doc.v.size() % 2 != 0; eval_field(ex, "/v", "v", f, sp); }
	{ Facts f; f.loaded = ld(4); f.size = doc.e.size(); f.emailValid = doc.eValid; eval_field(ex, "/e", "e", f, sp); }
	{ Facts f; f.loaded = ld(5); f.size = doc.p.text.size(); f.phoneDefect = doc.p.defect; f.phonePlus = doc.p.plus; f.phoneDigits = doc.p.digits; eval_field(ex, "/p", "p", f, sp); }
	{ Facts f; f.loaded = ld(6); f.num = doc.u; f.pred = doc.u % 2 != 0; eval_field(ex, "/u", "u", f, sp); }
	if (ld(7)) eval_inner(ex, "/in", doc.in, sp); { Facts f; f.loaded = ld(7); f.pred = true; eval_field(ex, "/in", "in", f, sp); }
	if (ld(8)) for (size_t k = 0; k < doc.arr.size(); k++) eval_inner(ex, vf::cat("/arr/", k), doc.arr[k], sp); { Facts f; f.loaded = ld(8); f.size = doc.arr.size(); eval_field(ex, "/arr", "arr", f, sp); }
	if (ld(9)) for (auto& x : doc.mp) eval_inner(ex, "/mp/" + x.first, x.second, sp); { Facts f; f.loaded = ld(9); f.size = doc.mp.size(); eval_field(ex, "/mp", "mp", f, sp); }
	{ Facts f; f.loaded = colSt == Present; f.pred = true; eval_field(ex, "/col", "col", f, sp); }
	// load
	Cfg cfg; cfg.stream = c.src.coin(); cfg.streamKind = cfg.stream ? gen_stream_kind(c.src, archId == MSGPACK) : 0; cfg.chunk = 1 + c.src.draw(40);
	cfg.opt.mismatchedTypesPolicy = MismatchedTypesPolicy::Skip; cfg.opt.overflowNumberPolicy = OverflowNumberPolicy::Skip;
	const size_t cap = choose(c.src, { 0, 0, 1, 1, 2, 3, 4, 8 }); cfg.opt.maxValidationErrors = static_cast<uint32_t>(cap);
	size_t multi = 0; for (auto& f : ex.fails) if (f.second.size() > 1) multi++;
	c.nontrivial = !ex.fails.empty(); c.label(vf::cat("failing-fields=", ex.fails.size() > 4 ? 5 : ex.fails.size())); if (multi) c.label("field-with-several-failing-validators"); if (cap && cap <= ex.fails.size()) c.label("cap-reached");
	if (cap && cap <= ex.fails.size() && ex.fails[cap - 1].second.size() > 1) c.label("cap-reached-on-field-with-several-messages");
	c.describe(vf::cat(arch_name(archId), " cap=", cap, " expected-failing=", ex.fails.size(), " spec{", spec_str(sp).substr(0, 200), "}"));
	Rec rec; Outcome lo = load<A>(rec, bytes, cfg);
	const std::string d = vf::cat(arch_name(archId), " cap=", cap, " spec{", spec_str(sp), "} doc=", archId == MSGPACK ? refmp::show(refmp::mkMap(m)).substr(0, 500) : bytes.substr(0, 700), " [", cfg.str(), "]");
	compare_errors(c, ex, cap, lo, archId == XML ? "/root" : "", d, archId == XML);
	// fields are loaded normally whether or not their validators pass (only when the load ran to its end)
	if (lo.k == Outcome::SerEx || lo.k == Outcome::StdEx || lo.k == Outcome::Unknown) c.fail("load ended in an unexpected exception", vf::cat(lo.str(), " | ", d));
	if (!(cap && cap <= ex.fails.size())) {
		auto chk = [&](bool okv, const char* f) { if (!okv) c.fail("a field is not loaded normally (or a not-loaded field was modified) in a load with validators", vf::cat("field ", f, " | ", d)); };
		chk(ld(0) ? rec.i == doc.i : rec.i == -77, "i"); chk(ld(1) ? rec.d == doc.d : rec.d == -77.5, "d"); chk(ld(2) ? rec.s == doc.s : rec.s == "<s>", "s"); if (ld(3)) chk(rec.v == doc.v, "v");
		chk(ld(4) ? rec.e == doc.e : rec.e == "<e>", "e"); chk(ld(5) ? rec.p == doc.p.text : rec.p == "<p>", "p"); chk(ld(6) ? rec.u == doc.u : rec.u == 77, "u");
		auto chkIn = [&](const Inner& got, const InnerDoc& w, const char* f) { chk(w.q == Present ? got.q == w.qv : got.q == -77, f); chk(w.r == Present ? got.r == w.rv : got.r == "<r>", f); };
		chk(colSt == Present ? static_cast<int>(rec.col) == colV : rec.col == C17Color::Blue, "col"); if (archId == XML) chk(atPresent ? rec.at == atV : rec.at == "<at>", "at");
		if (ld(7)) chkIn(rec.in, doc.in, "in");
		if (ld(8)) { chk(rec.arr.size() == doc.arr.size(), "arr.size"); for (size_t k = 0; k < doc.arr.size() && k < rec.arr.size(); k++) chkIn(rec.arr[k], doc.arr[k], "arr[k]"); }
		if (ld(9)) { chk(rec.mp.size() == doc.mp.size(), "mp.size"); for (auto& x : doc.mp) { auto it = rec.mp.find(x.first); chk(it != rec.mp.end(), "mp key"); if (it != rec.mp.end()) chkIn(it->second, x.second, "mp[k]"); } }
	}
}

void run_csv(vf::Ctx& c) {
	g_calm = c.src.chance(1, 4); Spec sp = gen_spec(c.src, true); g_spec = &sp;
	static const Slots none; auto sl = [&](const char* k) -> const Slots& { auto it = sp.f.find(k); return it == sp.f.end() ? none : it->second; };
	const char* cols[6] = { "i", "d", "s", "e", "p", "u" }; bool colPresent[6]; size_t nCols = 0; for (auto& p : colPresent) { p = c.src.chance(5, 6); nCols += p; } if (!nCols) { colPresent[0] = true; }
	const size_t rows = 1 + c.src.draw(3); std::string text; { bool first = true; for (int k = 0; k < 6; k++) if (colPresent[k]) { if (!first) text += ","; text += cols[k]; first = false; } text += "\r\n"; }
	Expected ex; std::vector<RecCsv> want;
	for (size_t r = 0; r < rows; r++) {
		RecCsv w; bool ld[6]; std::string cell[6];
		for (int k = 0; k < 6; k++) ld[k] = colPresent[k] && !c.src.chance(1, 6);
		w.i = c.src.chance(1, 8) ? 13 : static_cast<int32_t>(near_bound(c.src, sl("i"), -60, 60, 1)); w.d = near_bound(c.src, sl("d"), -60, 60, 0.25); w.s = letters(c.src, 1 + near_size(c.src, sl("s"), 8));
		auto em = gen_email(c.src, true); w.e = em.first; Phone ph = gen_phone(c.src, sl("p")); while (!ph.text.empty() && ph.text.back() == ' ') ph.text.pop_back(); w.p = ph.text; const int u = static_cast<int>(near_bound(c.src, sl("u"), 0, 255, 1)); w.u = static_cast<uint8_t>(u);
		cell[0] = ld[0] ? std::to_string(w.i) : "abc"; cell[1] = ld[1] ? fmt_num(w.d) : "x1.5"; cell[2] = w.s; ld[2] = colPresent[2]; cell[3] = w.e; ld[3] = colPresent[3]; cell[4] = w.p; ld[4] = colPresent[4]; cell[5] = ld[5] ? std::to_string(u) : (c.src.coin() ? "256" : "-1");
		{ bool first = true; for (int k = 0; k < 6; k++) if (colPresent[k]) { if (!first) text += ","; text += cell[k]; first = false; } text += "\r\n"; }
		const std::string rp = vf::cat("/", r);
		{ Facts f; f.loaded = ld[0]; f.num = w.i; f.pred = w.i % 2 != 0; eval_field(ex, rp + "/i", "i", f, sp); } { Facts f; f.loaded = ld[1]; f.num = w.d; f.pred = w.d < 0; eval_field(ex, rp + "/d", "d", f, sp); }
		{ Facts f; f.loaded = ld[2]; f.size = w.s.size(); f.pred = w.s.size() % 2 != 0; eval_field(ex, rp + "/s", "s", f, sp); } { Facts f; f.loaded = ld[3]; f.size = w.e.size(); f.emailValid = em.second; eval_field(ex, rp + "/e", "e", f, sp); }
		{ Facts f; f.loaded = ld[4]; f.size = w.p.size(); f.phoneDefect = ph.defect; f.phonePlus = ph.plus; f.phoneDigits = ph.digits; eval_field(ex, rp + "/p", "p", f, sp); } { Facts f; f.loaded = ld[5]; f.num = u; f.pred = u % 2 != 0; eval_field(ex, rp + "/u", "u", f, sp); }
		if (!ld[0]) w.i = -77; if (!ld[1]) w.d = -77.5; if (!ld[2]) w.s = "<s>"; if (!ld[3]) w.e = "<e>"; if (!ld[4]) w.p = "<p>"; if (!ld[5]) w.u = 77; want.push_back(w);
	}
	Cfg cfg; cfg.stream = c.src.coin(); cfg.opt.mismatchedTypesPolicy = MismatchedTypesPolicy::Skip; cfg.opt.overflowNumberPolicy = OverflowNumberPolicy::Skip;
	const size_t cap = choose(c.src, { 0, 0, 1, 1, 2, 3, 4, 8 }); cfg.opt.maxValidationErrors = static_cast<uint32_t>(cap);
	size_t multi = 0; for (auto& f : ex.fails) if (f.second.size() > 1) multi++;
	c.nontrivial = !ex.fails.empty(); c.label(vf::cat("failing-fields=", ex.fails.size() > 4 ? 5 : ex.fails.size())); if (multi) c.label("field-with-several-failing-validators"); if (cap && cap <= ex.fails.size()) c.label("cap-reached");
	if (cap && cap <= ex.fails.size() && ex.fails[cap - 1].second.size() > 1) c.label("cap-reached-on-field-with-several-messages");
	c.describe(vf::cat("csv cap=", cap, " rows=", rows, " expected-failing=", ex.fails.size(), " spec{", spec_str(sp).substr(0, 200), "}"));
	std::vector<RecCsv> recs; Outcome lo = load<CsvArchive>(recs, text, cfg);
	const std::string d = vf::cat("csv cap=", cap, " spec{", spec_str(sp), "} doc=", text, " [", cfg.str(), "]");
	compare_errors(c, ex, cap, lo, "", d);
	if (lo.k == Outcome::SerEx || lo.k == Outcome::StdEx || lo.k == Outcome::Unknown) c.fail("load ended in an unexpected exception", vf::cat(lo.str(), " | ", d));
	if (!(cap && cap <= ex.fails.size())) {
		if (recs.size() != rows) c.fail("a field is not loaded normally (or a not-loaded field was modified) in a load with validators", vf::cat("rows loaded ", recs.size(), " | ", d));
		for (size_t r = 0; r < rows; r++) { const RecCsv& g = recs[r]; const RecCsv& w = want[r]; if (g.i != w.i || g.d != w.d || g.s != w.s || g.e != w.e || g.p != w.p || g.u != w.u) c.fail("a field is not loaded normally (or a not-loaded field was modified) in a load with validators", vf::cat("row ", r, " | ", d)); }
	}
}

} // namespace

// validators on objects that live inside the other std adapters (tuple, optional, array, deque): the exception that reports them has to
// travel through the adapters' own error handling unchanged, also when maxValidationErrors stops the load inside the adapter
namespace {
struct Leaf { int32_t q = -77; template <class A> void Serialize(A& a) { a << KeyValue("q", q, Required(), Range<int32_t>(0, 100)); } };
struct Holder {
	std::tuple<Leaf, Leaf, Leaf> t; std::optional<Leaf> op; std::array<Leaf, 2> ar; std::deque<Leaf> dq;
	template <class A> void Serialize(A& a) { a << KeyValue("t", t) << KeyValue("op", op) << KeyValue("ar", ar) << KeyValue("dq", dq); }
};
template <class A> void run_adapters(vf::Ctx& c, int archId) {
	size_t failing = 0; std::vector<int> st; std::vector<int32_t> want;
	auto leaf = [&]() -> Val { const int k = c.src.chance(1, 2) ? 0 : 1 + static_cast<int>(c.src.draw(2)); st.push_back(k); if (k == 2) { failing++; want.push_back(-77); return refmp::mkMap({}); }
		const int32_t v = k == 0 ? static_cast<int32_t>(c.src.draw(101)) : (c.src.coin() ? 101 + static_cast<int32_t>(c.src.draw(1000)) : -1 - static_cast<int32_t>(c.src.draw(1000))); if (k == 1) failing++; want.push_back(v); return refmp::mkMap({ { refmp::mkStr("q"), refmp::mkInt(v) } }); };
	std::vector<Val> t{ leaf(), leaf(), leaf() }; const bool hasOp = c.src.coin(); Val op = hasOp ? leaf() : refmp::mkNil(); std::vector<Val> ar{ leaf(), leaf() }; std::vector<Val> dq; for (size_t n = c.src.draw(4); n > 0; n--) dq.push_back(leaf());
	const Val root = refmp::mkMap({ { refmp::mkStr("t"), refmp::mkArr(t) }, { refmp::mkStr("op"), op }, { refmp::mkStr("ar"), refmp::mkArr(ar) }, { refmp::mkStr("dq"), refmp::mkArr(dq) } });
	std::string bytes; Cfg mem; Outcome so = dyn::save<A>(root, bytes, mem); if (!so.ok()) c.fail("saving the document failed", so.str());
	Cfg cfg; cfg.stream = c.src.coin(); cfg.streamKind = cfg.stream ? gen_stream_kind(c.src, archId == MSGPACK) : 0; cfg.chunk = 1 + c.src.draw(40);
	const size_t cap = choose(c.src, { 0, 0, 1, 1, 2, 3, 4 }); cfg.opt.maxValidationErrors = static_cast<uint32_t>(cap);
	const size_t expected = cap ? std::min(cap, failing) : failing; c.nontrivial = failing > 0; if (cap && cap <= failing) c.label("cap-reached"); c.label(vf::cat("failing-leaves=", failing > 4 ? 5 : failing));
	c.describe(vf::cat(arch_name(archId), " adapters cap=", cap, " failing=", failing, " ", refmp::show(root).substr(0, 200), " ", cfg.str()));
	Holder h; Outcome lo = load<A>(h, bytes, cfg);
	std::string keys; for (auto& e : lo.errors) keys += e.first + "(" + std::to_string(e.second.size()) + ") ";
	const std::string d = vf::cat(arch_name(archId), " cap=", cap, " failing leaves=", failing, " doc=", refmp::show(root).substr(0, 400), " [", cfg.str(), "] => ", lo.str(), " fields: ", keys);
	if (failing == 0) { if (!lo.ok()) c.fail("a load without a failing validator ended in an exception", d); }
	else {
		if (lo.ok()) c.fail("ValidationException is not thrown although a validator fails", d);
		if (lo.k != Outcome::Validation) c.fail("a validation failure inside a std adapter reaches the caller as another exception than ValidationException", d);
		if (lo.errors.size() != expected) c.fail("the exception does not list exactly the failing fields (limited to maxValidationErrors)", d);
		for (auto& e : lo.errors) { if (e.second.size() != 1) c.fail("a failing field is reported with other messages than those of its failing validators, in declaration order", d); if (e.first.size() < 2 || e.first.substr(e.first.size() - 2) != "/q") c.fail("the exception lists a field that does not fail (or is beyond the maxValidationErrors limit)", d); }
	}
	if (lo.ok() || (lo.k == Outcome::Validation && !(cap && cap <= failing))) {   // the load ran to its end: every leaf is loaded normally
		std::vector<int32_t> got{ std::get<0>(h.t).q, std::get<1>(h.t).q, std::get<2>(h.t).q }; if (hasOp) got.push_back(h.op ? h.op->q : -999999); got.push_back(h.ar[0].q); got.push_back(h.ar[1].q); for (auto& x : h.dq) got.push_back(x.q);
		if (got != want) c.fail("a field is not loaded normally (or a not-loaded field was modified) in a load with validators", d);
		if (!hasOp && h.op) c.fail("a field is not loaded normally (or a not-loaded field was modified) in a load with validators", "optional loaded from null | " + d);
	}
}
}
VF_PROPERTY(validation_in_adapters_msgpack, 2, "objects with Required + Range on their member inside std::tuple, std::optional, std::array and std::deque members of the root; every leaf in range / out of range / absent; maxValidationErrors in {0,1,2,3,4}: ValidationException iff a leaf fails, exactly min(failing, limit) fields listed, one message each, all leaves loaded normally when the load ran to its end; non-trivial = a leaf fails") { run_adapters<MsgPackArchive>(c, MSGPACK); }
VF_PROPERTY(validation_in_adapters_json, 2, "same through JSON") { run_adapters<JsonArchive>(c, JSON); }

#define C17_RULE "object with 12 fields (int32, double, string, vector, e-mail string, phone string, uint8, nested object, array of objects, map of objects, registered enum, and for XML a string attribute), each field with 0..3 runtime-chosen validators out of Required / Range / MinSize / MaxSize / Email / PhoneNumber / custom functors (+ a lambda), default or custom messages; document: every field present (values at, just inside, just outside each bound; e-mails and phones built by construction with a known verdict incl. the 64/63/255 length limits), absent, null or mismatched (skipped), free field order; maxValidationErrors in {0,1,2,3,4,8}; memory and 3 kinds of streams; oracle = reference model of the documented rules predicting failing paths and messages in load order; non-trivial = at least one validator fails"
VF_PROPERTY(validation_msgpack, 4, C17_RULE) { run_object<MsgPackArchive>(c, MSGPACK); }
VF_PROPERTY(validation_json, 4, "same through JSON") { run_object<JsonArchive>(c, JSON); }
VF_PROPERTY(validation_xml, 3, "same through XML (no nulls; mismatch = unparsable text / element with children)") { run_object<XmlArchive>(c, XML); }
VF_PROPERTY(validation_csv, 3, "1..3 CSV rows of 6 flat fields; absent = column missing, mismatch = unparsable / out-of-range cell") { run_csv(c); }

VF_MAIN("c17_validation")
