// C04 — numbers load exactly or are reported per policy, never silently altered.
// Oracle: numeric_model.h (exact arithmetic).  Carriers: direct Convert::To between arithmetic types and every archive
// position (root, array element, object member, XML attribute, CSV cell, map key): the source value is saved with its own
// type S and loaded into a target of type T under the four policy combinations.
#include "common/arch.h"
#include "common/numeric_model.h"
#include "ref/ref_msgpack.h"
#include "bitserializer/types/std/tuple.h"
#include "bitserializer/types/std/vector.h"
#include "bitserializer/types/std/map.h"
#include <cmath>

using namespace arch;
using nummodel::Num; using nummodel::i128;

namespace {

template <class T> struct Tag { using type = T; };
template <class F> void with_type(size_t idx, F&& f) {
	switch (idx) { case 0: f(Tag<bool>{}); break; case 1: f(Tag<int8_t>{}); break; case 2: f(Tag<uint8_t>{}); break; case 3: f(Tag<int16_t>{}); break; case 4: f(Tag<uint16_t>{}); break; case 5: f(Tag<int32_t>{}); break;
	case 6: f(Tag<uint32_t>{}); break; case 7: f(Tag<int64_t>{}); break; case 8: f(Tag<uint64_t>{}); break; case 9: f(Tag<float>{}); break; default: f(Tag<double>{}); break; }
}
constexpr size_t NTYPES = 11;
template <class T> std::string tname() { if constexpr (std::is_same_v<T, bool>) return "bool"; else if constexpr (std::is_floating_point_v<T>) return sizeof(T) == 4 ? "float" : "double"; else return vf::cat(std::is_signed_v<T> ? "int" : "uint", sizeof(T) * 8); }
template <class T> std::string vstr(T v) { return Num::of<T>(v).str(); }

// limits of every target type, as candidates for boundary values
const i128 LIMITS[] = { 0, 1, -1, 127, -128, 255, 256, 32767, -32768, 65535, 65536, 2147483647LL, -2147483648LL, 4294967295LL, 4294967296LL, INT64_MAX, INT64_MIN, static_cast<i128>(UINT64_MAX),
	16777216, 16777217, -16777217, 9007199254740992LL, 9007199254740993LL, -9007199254740993LL, static_cast<i128>(1) << 62, (static_cast<i128>(1) << 63) - 512, static_cast<i128>(UINT64_MAX) - 1024 };

template <class S> S gen_value(vf::Src& s) {
	if constexpr (std::is_same_v<S, bool>) return s.coin();
	else if constexpr (std::is_integral_v<S>) {
		if (s.coin()) { i128 v = LIMITS[s.draw(sizeof LIMITS / sizeof *LIMITS)] + static_cast<i128>(s.range(-2, 2)); if (v >= static_cast<i128>(std::numeric_limits<S>::min()) && v <= static_cast<i128>(std::numeric_limits<S>::max())) return static_cast<S>(v); }
		return s.integer<S>();
	}
	else {
		switch (s.draw(8)) {
		case 0: { i128 v = LIMITS[s.draw(sizeof LIMITS / sizeof *LIMITS)] + static_cast<i128>(s.range(-2, 2)); return static_cast<S>(static_cast<long double>(v)); }
		case 1: { i128 v = LIMITS[s.draw(sizeof LIMITS / sizeof *LIMITS)]; S x = static_cast<S>(static_cast<long double>(v)); return s.coin() ? std::nextafter(x, std::numeric_limits<S>::infinity()) : std::nextafter(x, -std::numeric_limits<S>::infinity()); }
		case 2: { const S sp[] = { S(0), -S(0), std::numeric_limits<S>::min(), std::numeric_limits<S>::denorm_min(), std::numeric_limits<S>::max(), std::numeric_limits<S>::lowest(), std::numeric_limits<S>::infinity(), -std::numeric_limits<S>::infinity(), std::numeric_limits<S>::quiet_NaN(), S(0.5), S(-0.5), S(1.5), S(0.1), S(3.4028234663852886e38), S(3.4028235677973366e38), S(1e21), S(-1e21), S(1e10) }; return sp[s.draw(18)]; }
		case 3: { using U = std::conditional_t<sizeof(S) == 4, uint32_t, uint64_t>; U b = static_cast<U>(s.draw(0)); S x; memcpy(&x, &b, sizeof(S)); return x; }
		case 4: return static_cast<S>(static_cast<long long>(s.draw(2001)) - 1000);
		case 5: return static_cast<S>(s.integer<int64_t>());
		case 6: return static_cast<S>(static_cast<S>(s.integer<int32_t>()) / S(8));
		default: return static_cast<S>(std::ldexp(static_cast<S>(1 + s.draw(1000)) / S(1000), static_cast<int>(s.range(-40, 130))));
		}
	}
}

// ---- direct conversion ---------------------------------------------------------------------------------------------------
template <class S, class T> const char* direct(S v, std::string& detail) {
	const auto e = nummodel::expect<T>(Num::of<S>(v));
	detail = vf::cat("Convert::To<", tname<T>(), ">(", tname<S>(), " ", vstr(v), ")");
	try { T r = Convert::To<T>(v); detail += vf::cat(" -> ", vstr(r));
		if (!nummodel::value_ok(e, r)) return e.value ? "conversion returned a different value (silently altered)" : "unrepresentable value converted (truncated / wrapped / sign changed)"; }
	catch (const std::out_of_range&) { detail += " -> out_of_range"; if (!e.overflow) return e.value ? "out_of_range for a representable value" : "out_of_range where invalid_argument (other kind) is required"; }
	catch (const std::invalid_argument&) { detail += " -> invalid_argument"; if (!e.mismatch) return e.value ? "invalid_argument for a representable value" : "invalid_argument where out_of_range is required"; }
	catch (const std::exception& x) { detail += vf::cat(" -> ", x.what()); return "exception of another class"; }
	return nullptr;
}
template <class S> void sweep_source(vf::SweepCtx& c) {
	for (long v = std::numeric_limits<S>::min(); v <= static_cast<long>(std::numeric_limits<S>::max()); v++) {
		if (c.skip(static_cast<uint64_t>(v - std::numeric_limits<S>::min()), [&] { return vf::cat(tname<S>(), ":", v); })) continue;
		for (size_t t = 0; t < NTYPES; t++) with_type(t, [&](auto tt) { using T = typename decltype(tt)::type; std::string d; const char* e = direct<S, T>(static_cast<S>(v), d); c.evaluations++; if (e) c.fail(e, vf::cat(tname<S>(), ":", v), d); });
		c.nontrivial++;
	}
}

// ---- archive carriers -------------------------------------------------------------------------------------------------------
template <class V> struct Member {
	int a = 11; V v{}; int z = 22;
	template <class A> void Serialize(A& ar) { ar << KeyValue("a", a) << KeyValue("v", v, Required()) << KeyValue("z", z); }
};
template <class V> struct AttrHolder {
	int a = 11; V v{}; int z = 22;
	template <class A> void Serialize(A& ar) { ar << AttributeValue("a", a) << AttributeValue("v", v, Required()) << AttributeValue("z", z); }
};
enum Pos { Root, Elem, Mem, Attr, Key, CsvCell };
const char* pos_name(int p) { static const char* n[] = { "root", "array-element", "object-member", "xml-attribute", "map-key", "csv-cell" }; return n[p]; }

struct LoadResult { Outcome out; bool notLoaded = false; bool neighboursOk = true; };

// expectation adjusted to the carrier: text archives erase the kind of a number
template <class T> nummodel::Expect<T> carrier_expect(const Num& s, int archId, int pos) {
	const bool textual = archId == XML || archId == CSV || (archId == JSON && pos == Key);
	auto e = nummodel::expect<T>(s, archId != MSGPACK, !textual);
	if (textual) {
		if constexpr (std::is_integral_v<T> && !std::is_same_v<T, bool>) {
			if (s.isFloat()) {   // "1000" written for 1000.0 is indistinguishable from an integer: the exact value may be loaded, nothing else
				const double x = s.asDouble(); e.overflow = true;
				if (std::isfinite(x) && x == std::floor(x) && x >= -18446744073709551616.0 && x <= 18446744073709551616.0) { const i128 iv = static_cast<i128>(x); if (iv >= static_cast<i128>(std::numeric_limits<T>::min()) && iv <= static_cast<i128>(std::numeric_limits<T>::max())) { e.value = true; e.v = e.v2 = static_cast<T>(iv); } }
			}
			if (s.k == Num::Bool) { e.mismatch = true; e.value = false; }   // "true" is text for an integer target
		}
		if constexpr (std::is_same_v<T, bool>) { if (s.isFloat()) { const double x = s.asDouble(); e.overflow = true; if (x == 0 || x == 1) { e.value = true; e.v = e.v2 = x == 1; } } }
		if constexpr (std::is_floating_point_v<T>) {
			if (s.k == Num::Bool) { e.mismatch = true; e.value = false; }
			if (s.isFloat() && !std::isfinite(s.asDouble())) { e.mismatch = true; }   // "inf"/"nan" as text: parsed or rejected as not-a-number text
			if (s.k == Num::F64 && sizeof(T) == 4 && e.value && !e.anyNan && std::isfinite(s.d)) { const T r = static_cast<T>(s.d); e.v = r; const long double x = s.d; e.v2 = static_cast<long double>(r) > x ? std::nextafter(r, -INFINITY) : static_cast<long double>(r) < x ? std::nextafter(r, INFINITY) : r; }
		}
		// the kind of an unrepresentable text value is erased: either policy may report it
		if (!e.value || e.overflow || e.mismatch) { if (e.overflow || e.mismatch) e.overflow = e.mismatch = true; }
	}
	return e;
}

// The value a text archive actually carries for a float source is the decimal the library printed (shortest text of the float),
// read back as a real number: that is the document's numeric value the loader has to deliver.
template <class S> Num document_value(S v, bool textual, bool pugiFormat = false) {
	if constexpr (std::is_same_v<S, float>) { if (textual && std::isfinite(v)) { if (pugiFormat) { char b[64]; snprintf(b, sizeof b, "%.9g", static_cast<double>(v)); return Num::of<double>(strtod(b, nullptr)); } return Num::of<double>(strtod(Convert::ToString(v).c_str(), nullptr)); } }
	return Num::of<S>(v);
}

template <class A, class S> bool save_doc(int pos, S v, std::string& bytes, const Cfg& cfg, std::string& err) {
	Outcome o;
	switch (pos) {
	case Root: if constexpr (std::is_same_v<A, MsgPackArchive> || std::is_same_v<A, JsonArchive>) { o = save<A>(v, bytes, cfg); } break;
	case Elem: if constexpr (!std::is_same_v<A, CsvArchive>) { std::tuple<int, S, int> t{ 11, v, 22 }; o = save<A>(t, bytes, cfg); } break;
	case Mem: if constexpr (!std::is_same_v<A, CsvArchive>) { Member<S> m; m.v = v; o = save<A>(m, bytes, cfg); } break;
	case Attr: if constexpr (std::is_same_v<A, XmlArchive>) { AttrHolder<S> m; m.v = v; o = save<A>(m, bytes, cfg); } break;
	case Key: if constexpr (!std::is_same_v<S, bool> && !std::is_same_v<A, CsvArchive> && !std::is_same_v<A, XmlArchive>) { std::map<S, int> m; m[v] = 7; o = save<A>(m, bytes, cfg); } break;
	default: if constexpr (std::is_same_v<A, CsvArchive>) { std::vector<Member<S>> rows(2); rows[0].v = v; rows[1].v = v; o = save<A>(rows, bytes, cfg); } break;
	}
	if (!o.ok()) { err = o.str(); return false; }
	return true;
}

template <class A, class T> LoadResult load_doc(int pos, T sentinel, T& got, const std::string& bytes, const Cfg& cfg) {
	LoadResult r; got = sentinel;
	auto isRequiredOnly = [&](const Outcome& o) { if (o.k != Outcome::Validation || o.errors.size() != 1) return false; const std::string& p = o.errors.begin()->first; return p.size() >= 1 && p.back() == 'v'; };
	switch (pos) {
	case Root: if constexpr (std::is_same_v<A, MsgPackArchive> || std::is_same_v<A, JsonArchive>) { r.out = load<A>(got, bytes, cfg); r.notLoaded = r.out.ok() && nummodel::same_bits(got, sentinel); } break;
	case Elem: if constexpr (!std::is_same_v<A, CsvArchive>) { std::tuple<int, T, int> t{ 0, sentinel, 0 }; r.out = load<A>(t, bytes, cfg); got = std::get<1>(t); r.notLoaded = r.out.ok() && nummodel::same_bits(got, sentinel); r.neighboursOk = !r.out.ok() || (std::get<0>(t) == 11 && std::get<2>(t) == 22); } break;
	case Mem: if constexpr (!std::is_same_v<A, CsvArchive>) { Member<T> m; m.a = m.z = 0; m.v = sentinel; r.out = load<A>(m, bytes, cfg); got = m.v; if (isRequiredOnly(r.out)) { r.notLoaded = true; r.out = Outcome(); if (!nummodel::same_bits(got, sentinel)) r.neighboursOk = false; } r.neighboursOk = r.neighboursOk && (!r.out.ok() || (m.a == 11 && m.z == 22)); } break;
	case Attr: if constexpr (std::is_same_v<A, XmlArchive>) { AttrHolder<T> m; m.a = m.z = 0; m.v = sentinel; r.out = load<A>(m, bytes, cfg); got = m.v; if (isRequiredOnly(r.out)) { r.notLoaded = true; r.out = Outcome(); if (!nummodel::same_bits(got, sentinel)) r.neighboursOk = false; } r.neighboursOk = r.neighboursOk && (!r.out.ok() || (m.a == 11 && m.z == 22)); } break;
	case Key: if constexpr (!std::is_same_v<T, bool> && !std::is_same_v<A, CsvArchive> && !std::is_same_v<A, XmlArchive>) { std::map<T, int> m; r.out = load<A>(m, bytes, cfg); if (r.out.ok()) { if (m.empty()) r.notLoaded = true; else if (m.size() == 1 && m.begin()->second == 7) got = m.begin()->first; else r.neighboursOk = false; } } break;
	default: if constexpr (std::is_same_v<A, CsvArchive>) { std::vector<Member<T>> rows(2); for (auto& x : rows) { x.a = x.z = 0; x.v = sentinel; } r.out = load<A>(rows, bytes, cfg);
		if (r.out.k == Outcome::Validation) { bool only = !r.out.errors.empty(); for (auto& kv : r.out.errors) if (kv.first.empty() || kv.first.back() != 'v') only = false; if (only) { r.notLoaded = true; r.out = Outcome(); } }
		if (r.out.ok()) { if (rows.size() != 2) r.neighboursOk = false; else { got = rows[0].v; if (!nummodel::same_bits(rows[0].v, rows[1].v) || rows[0].a != 11 || rows[1].z != 22) r.neighboursOk = false; } } } break;
	}
	return r;
}

// judge the load of `bytes` (which carry the numeric value `src`, described by srcDesc) into a target of type T
template <class A, class T> void load_and_judge(vf::Ctx& c, int archId, int pos, const Num& src, const std::string& srcDesc, const std::string& bytes, const Cfg& cfg) {
	const auto e = carrier_expect<T>(src, archId, pos);
	T sentinel = static_cast<T>(1); if (e.value && (nummodel::same_bits(e.v, sentinel) || nummodel::same_bits(e.v2, sentinel))) sentinel = static_cast<T>(0);
	T got{}; const LoadResult r = load_doc<A, T>(pos, sentinel, got, bytes, cfg);
	const std::string d = vf::cat(arch_name(archId), " ", pos_name(pos), " ", srcDesc, " -> ", tname<T>(), " [", cfg.str(), "] doc=", archId == MSGPACK ? vf::hex(bytes) : bytes.substr(0, 200),
		" => ", r.out.str(), r.notLoaded ? " not-loaded" : "", " got=", vstr(got), " accept:", e.value ? vf::cat(" value ", vstr(e.v), e.anyNan ? "(nan)" : "") : "", e.overflow ? " overflow" : "", e.mismatch ? " mismatch" : "");
	if (!r.neighboursOk) c.fail("neighbouring values disturbed or target modified although not loaded", d);
	const bool ovfThrow = cfg.opt.overflowNumberPolicy == OverflowNumberPolicy::ThrowError, misThrow = cfg.opt.mismatchedTypesPolicy == MismatchedTypesPolicy::ThrowError;
	if (r.out.ok() && !r.notLoaded) {
		if (!nummodel::value_ok(e, got)) c.fail(e.value ? "loaded a different value (silently altered)" : "unrepresentable / other-kind value loaded (truncated, wrapped or sign changed)", d);
		return;
	}
	if (r.out.ok() && r.notLoaded) {
		if (!((e.overflow && !ovfThrow) || (e.mismatch && !misThrow))) c.fail(e.value && !e.overflow && !e.mismatch ? "representable value was not loaded" : "value skipped although the policy demands an error", d);
		return;
	}
	if (r.out.k == Outcome::SerEx && r.out.code == SerializationErrorCode::Overflow) { if (!(e.overflow && ovfThrow)) c.fail(e.overflow ? "Overflow thrown under the Skip policy" : "Overflow error for a value that fits", d); return; }
	if (r.out.k == Outcome::SerEx && r.out.code == SerializationErrorCode::MismatchedTypes) { if (!(e.mismatch && misThrow)) c.fail(e.mismatch ? "MismatchedTypes thrown under the Skip policy" : "MismatchedTypes error for a numeric value of the right kind", d); return; }
	c.fail("unexpected outcome", d);
}

template <class A> std::vector<int> positions();
template <> std::vector<int> positions<MsgPackArchive>() { return { Root, Elem, Mem, Key }; }
template <> std::vector<int> positions<JsonArchive>() { return { Root, Elem, Mem, Key }; }
template <> std::vector<int> positions<XmlArchive>() { return { Elem, Mem, Attr }; }
template <> std::vector<int> positions<CsvArchive>() { return { CsvCell }; }

template <class A> void carrier_prop(vf::Ctx& c, int archId) {
	const auto ps = positions<A>(); const int pos = ps[c.src.draw(ps.size())];
	size_t si = c.src.draw(NTYPES), ti = c.src.draw(NTYPES);
	if (pos == Key) { if (si == 0) si = 1 + c.src.draw(NTYPES - 1); if (ti == 0) ti = 1 + c.src.draw(NTYPES - 1); }
	Cfg cfg; cfg.stream = c.src.coin(); cfg.streamKind = cfg.stream ? gen_stream_kind(c.src, archId == MSGPACK) : 0; cfg.chunk = 1 + c.src.draw(9); gen_policies(c.src, cfg.opt);
	const bool textual = archId == XML || archId == CSV || (archId == JSON && pos == Key);
	Num src; std::string srcDesc, bytes; bool saved = false;
	with_type(si, [&](auto st) { using S = typename decltype(st)::type; const S v = gen_value<S>(c.src);
		src = document_value<S>(v, textual, archId == XML); srcDesc = vf::cat(tname<S>(), " ", vstr(v)); std::string err;
		saved = save_doc<A, S>(pos, v, bytes, cfg, err);
		if (!saved) {   // a save may fail loudly (e.g. NaN in JSON); never for integers and finite numbers
			const Num n = Num::of<S>(v); if (n.isFloat() && !std::isfinite(n.asDouble())) c.label("save-rejected-nonfinite");
			else c.fail("saving a finite number failed", vf::cat(arch_name(archId), " ", pos_name(pos), " ", srcDesc, ": ", err));
		}
	});
	c.describe(vf::cat(arch_name(archId), " ", pos_name(pos), " ", srcDesc, " -> type#", ti, " ", cfg.str()));
	c.label(vf::cat("pos=", pos_name(pos)));
	if (!saved) { c.nontrivial = true; return; }
	with_type(ti, [&](auto tt) { using T = typename decltype(tt)::type;
		const auto e = carrier_expect<T>(src, archId, pos);
		c.nontrivial = !e.value || e.overflow || e.mismatch || si != ti;
		c.label(e.value && !e.overflow && !e.mismatch ? "fits" : e.value ? "rounded-or-reported" : "must-be-reported");
		load_and_judge<A, T>(c, archId, pos, src, srcDesc, bytes, cfg);
	});
}

} // namespace

#ifndef C04_PART
#define C04_PART 0
#endif
#if C04_PART == 0 || C04_PART == 1
VF_SWEEP(direct_8_16_bit_sources, false, "exhaustive: every value of bool/int8/uint8/int16/uint16 converted with Convert::To into each of 11 arithmetic types, compared with the exact model (value / out_of_range / invalid_argument)")
{
	for (int b = 0; b < 2; b++) { if (c.skip(static_cast<uint64_t>(b), [&] { return vf::cat("bool:", b); })) continue; for (size_t t = 0; t < NTYPES; t++) with_type(t, [&](auto tt) { using T = typename decltype(tt)::type; std::string d; const char* e = direct<bool, T>(b != 0, d); c.evaluations++; if (e) c.fail(e, vf::cat("bool:", b), d); }); c.nontrivial++; }
	sweep_source<int8_t>(c); sweep_source<uint8_t>(c); sweep_source<int16_t>(c); sweep_source<uint16_t>(c);
	c.sample("int16:-32768 -> 11 targets"); c.sample("uint8:200 -> 11 targets");
}

VF_PROPERTY(direct_wide_sources, 3, "Convert::To<T>(S) for S in int32/uint32/int64/uint64/float/double: every target limit +-2, 2^k+-2, neighbours of limits in floating point, subnormals, +-Inf, NaN, random bit patterns; 11 targets; non-trivial = not exactly representable, within 2 of a target limit, or non-finite")
{
	const size_t si = 5 + c.src.draw(6);
	with_type(si, [&](auto st) { using S = typename decltype(st)::type; const S v = gen_value<S>(c.src);
		c.describe(vf::cat(tname<S>(), " ", vstr(v))); bool nt = false;
		for (size_t t = 0; t < NTYPES; t++) with_type(t, [&](auto tt) { using T = typename decltype(tt)::type; const auto e = nummodel::expect<T>(Num::of<S>(v)); if (!e.value || e.overflow) nt = true; std::string d; if (const char* x = direct<S, T>(v, d)) c.fail(x, d); });
		c.nontrivial = nt;
	});
}

#endif
#if C04_PART == 0 || C04_PART == 2
VF_PROPERTY(carrier_msgpack, 4, "value of type S saved by the library into MsgPack at root / array element / object member / map key, loaded into type T under the 4 policy combinations from memory and streams; also checks that neighbours are untouched and a skipped target keeps its value; non-trivial = S != T or not exactly representable") { carrier_prop<MsgPackArchive>(c, MSGPACK); }
#endif
#if C04_PART == 0 || C04_PART == 2 || C04_PART == 3
// enumerations stored by value: EnumAsBin loads a number into the enum's underlying type - the same "exactly or reported" rule applies
namespace {
enum class E8 : uint8_t { A = 0, B = 3, C = 255 }; enum class E16 : int16_t { A = -32768, B = 0, C = 32767 }; enum class E64 : int64_t { A = 0, B = 5 };
template <class E> struct EnumHolder { int before = 0; E e{}; int after = 0; template <class Ar> void Serialize(Ar& ar) { ar << KeyValue("before", before) << KeyValue("e", EnumAsBin(e)) << KeyValue("after", after); } };
struct IntHolder { int before = 7; int64_t e = 0; int after = 9; template <class Ar> void Serialize(Ar& ar) { ar << KeyValue("before", before) << KeyValue("e", e) << KeyValue("after", after); } };
template <class A, class E> void enum_as_bin_case(vf::Ctx& c, int archId) {
	using U = std::underlying_type_t<E>; using L = std::numeric_limits<U>;
	int64_t v; switch (c.src.draw(4)) { case 0: v = static_cast<int64_t>(L::min()) - 1 - static_cast<int64_t>(c.src.draw(3)) * (sizeof(U) < 8); break; case 1: v = static_cast<int64_t>(L::max()) + (sizeof(U) < 8 ? 1 + static_cast<int64_t>(c.src.draw(300)) : 0); break; case 2: v = c.src.coin() ? L::min() : L::max(); break; default: v = static_cast<int64_t>(c.src.draw(200001)) - 100000; }
	const bool fits = v >= static_cast<int64_t>(L::min()) && v <= static_cast<int64_t>(L::max());
	Cfg cfg; cfg.stream = c.src.coin(); gen_policies(c.src, cfg.opt); IntHolder src; src.e = v; std::string bytes; Cfg mem; if (!save<A>(src, bytes, mem).ok()) c.fail("saving an integer failed", "");
	c.nontrivial = !fits; c.describe(vf::cat(arch_name(archId), " EnumAsBin<", sizeof(U) * 8, std::is_signed_v<U> ? "s" : "u", "> <- ", v, " ", cfg.str()));
	EnumHolder<E> dst; dst.e = static_cast<E>(static_cast<U>(1)); Outcome lo = load<A>(dst, bytes, cfg);
	const std::string d = vf::cat(arch_name(archId), " EnumAsBin underlying ", sizeof(U) * 8, " bit <- ", v, " [", cfg.str(), "] => ", lo.str(), " loaded ", static_cast<int64_t>(static_cast<U>(dst.e)));
	if (fits) { if (!lo.ok() || static_cast<int64_t>(static_cast<U>(dst.e)) != v || dst.before != 7 || dst.after != 9) c.fail("representable value not loaded exactly", d); return; }
	if (cfg.opt.overflowNumberPolicy == OverflowNumberPolicy::ThrowError) { if (lo.ok()) c.fail("unrepresentable / other-kind value loaded (truncated, wrapped or sign changed)", d); if (lo.k != Outcome::SerEx || lo.code != SerializationErrorCode::Overflow) c.fail("unrepresentable value reported with a wrong error", d); }
	else { if (!lo.ok()) c.fail("value not skipped although the policy is Skip", d); if (static_cast<U>(dst.e) != static_cast<U>(1)) c.fail("unrepresentable / other-kind value loaded (truncated, wrapped or sign changed)", d); if (dst.before != 7 || dst.after != 9) c.fail("neighbour of a skipped value disturbed", d); }
}
}
#endif
#if C04_PART == 0 || C04_PART == 3
VF_PROPERTY(enum_as_bin_json, 1, "integers around and beyond the limits of an enum's underlying type (uint8, int16, int64) loaded through EnumAsBin from JSON under both overflow policies; non-trivial = value outside the underlying type") { switch (c.src.draw(3)) { case 0: enum_as_bin_case<JsonArchive, E8>(c, JSON); break; case 1: enum_as_bin_case<JsonArchive, E16>(c, JSON); break; default: enum_as_bin_case<JsonArchive, E64>(c, JSON); } }
VF_PROPERTY(carrier_json, 4, "same through JSON (root, array element, object member, map key as string)") { carrier_prop<JsonArchive>(c, JSON); }
#endif
#if C04_PART == 0 || C04_PART == 4
VF_PROPERTY(carrier_xml, 4, "same through XML (array element, object member, attribute)") { carrier_prop<XmlArchive>(c, XML); }
#endif
#if C04_PART == 0 || C04_PART == 5
VF_PROPERTY(carrier_csv, 2, "same through a CSV cell (two rows)") { carrier_prop<CsvArchive>(c, CSV); }

#endif
#if C04_PART == 0 || C04_PART == 2
VF_PROPERTY(enum_as_bin_msgpack, 1, "same through MessagePack") { switch (c.src.draw(3)) { case 0: enum_as_bin_case<MsgPackArchive, E8>(c, MSGPACK); break; case 1: enum_as_bin_case<MsgPackArchive, E16>(c, MSGPACK); break; default: enum_as_bin_case<MsgPackArchive, E64>(c, MSGPACK); } }
VF_PROPERTY(carrier_msgpack_any_format, 4, "integer / float / bool encoded by the independent MsgPack encoder in ANY legal format (fixint, uint8..64, int8..64, float32/64 when exact) at array-element and member position, loaded into each of 11 types; non-trivial = non-minimal format or not representable")
{
	const size_t ti = c.src.draw(NTYPES); Cfg cfg; cfg.stream = c.src.coin(); cfg.streamKind = cfg.stream ? gen_stream_kind(c.src, true) : 0; cfg.chunk = 1 + c.src.draw(9); gen_policies(c.src, cfg.opt);
	const int pos = c.src.coin() ? Elem : Mem;
	// source as a mathematical value
	Num src; refmp::Val val;
	switch (c.src.draw(4)) {
	case 0: { int64_t v = gen_value<int64_t>(c.src); src = Num::of(v); val = refmp::mkInt(v); break; }
	case 1: { uint64_t v = gen_value<uint64_t>(c.src); src = Num::of(v); val = refmp::mkUInt(v); break; }
	case 2: { if (c.src.coin()) { float v = gen_value<float>(c.src); src = Num::of(v); val = refmp::mkF32(v); } else { double v = gen_value<double>(c.src); src = Num::of(v); val = refmp::mkF64(v); } break; }
	default: { bool v = c.src.coin(); src = Num::of(v); val = refmp::mkBool(v); break; }
	}
	bool nonMinimal = false; auto choose = [&](size_t n) { size_t k = c.src.draw(n); if (k) nonMinimal = true; return k; };
	refmp::Val doc = pos == Elem ? refmp::mkArr({ refmp::mkInt(11), val, refmp::mkInt(22) }) : refmp::mkMap({ { refmp::mkStr("a"), refmp::mkInt(11) }, { refmp::mkStr("v"), val }, { refmp::mkStr("z"), refmp::mkInt(22) } });
	std::string bytes; refmp::encode(bytes, doc, choose);
	with_type(ti, [&](auto tt) { using T = typename decltype(tt)::type;
		const auto e = carrier_expect<T>(src, MSGPACK, pos);
		c.nontrivial = nonMinimal || !e.value || e.overflow;
		c.describe(vf::cat("msgpack-ref ", pos_name(pos), " ", src.str(), " -> ", tname<T>(), " ", vf::hex(bytes), " ", cfg.str()));
		load_and_judge<MsgPackArchive, T>(c, MSGPACK, pos, src, src.str(), bytes, cfg);
	});
}

#endif

#if C04_PART == 0 || C04_PART == 5
// numbers as other producers spell them in text documents: exponent notation with 1..2 exponent digits, either sign, e / E
namespace {
template <class T> struct FtRow { T v = static_cast<T>(123); int w = -1; template <class Ar> void Serialize(Ar& ar) { ar << KeyValue("v", v) << KeyValue("w", w); } };
template <class T> void foreign_text_case(vf::Ctx& c, const std::string& text, int archId) {
	Cfg cfg; cfg.stream = c.src.coin(); cfg.streamKind = cfg.stream ? gen_stream_kind(c.src, false) : 0; cfg.chunk = 1 + c.src.draw(9); gen_policies(c.src, cfg.opt);
	const long double x = strtold(text.c_str(), nullptr); const bool integral = x == std::floor(x);
	bool fits = false; T want{};
	if constexpr (std::is_same_v<T, bool>) { fits = x == 0 || x == 1; want = x == 1; } else { fits = integral && x >= static_cast<long double>(std::numeric_limits<T>::min()) && x <= static_cast<long double>(std::numeric_limits<T>::max()); if (fits) want = static_cast<T>(x); }
	FtRow<T> row; Outcome o; bool rowsOk = true;
	if (archId == CSV) { std::vector<FtRow<T>> rows; o = load<CsvArchive>(rows, "v,w\r\n" + text + ",5\r\n", cfg); if (o.ok()) { rowsOk = rows.size() == 1; if (rowsOk) row = rows[0]; } }
	else o = load<XmlArchive>(row, "<root><v>" + text + "</v><w>5</w></root>", cfg);
	const bool anySkip = cfg.opt.overflowNumberPolicy == OverflowNumberPolicy::Skip || cfg.opt.mismatchedTypesPolicy == MismatchedTypesPolicy::Skip;
	const std::string d = vf::cat(arch_name(archId), " text '", text, "' into ", tname<T>(), " [", cfg.str(), "] => ", o.str(), " v=", static_cast<long long>(row.v), " w=", row.w);
	c.nontrivial = true; c.describe(vf::cat("foreign text ", arch_name(archId), " '", text, "' ", tname<T>(), " ", cfg.str()));
	if (o.k == Outcome::StdEx || o.k == Outcome::Unknown) c.fail("a number spelled in exponent notation ends in an exception outside the serialization hierarchy", d);
	if (!o.ok()) return;   // reported per policy
	if (!rowsOk || row.w != 5) c.fail("the neighbour of a number spelled in exponent notation was not loaded", d);
	const bool untouched = row.v == static_cast<T>(123);
	if (untouched) { if (!anySkip && !(fits && want == static_cast<T>(123))) c.fail("a number that is not loaded is not reported although both policies are ThrowError", d); return; }
	if (!fits || row.v != want) c.fail("WRONG VALUE: the text of a number was loaded as another number (truncated literal)", d);
}
}
VF_PROPERTY(foreign_text_exponent_spelling, 2, "CSV cells and XML element text holding numbers in exponent notation as other producers write them (1..2 mantissa digits, e / E, optional sign, 1..2 exponent digits: 7e2, 5e-1, 1E+9, 12e03) loaded into bool / uint8 / int32 / int64 under the 4 policy combinations from memory and streams: the exact value or a report per policy (exception, or untouched target under Skip), never the value of a prefix of the literal; non-trivial = always")
{
	std::string text; if (c.src.chance(1, 6)) text.push_back('-'); text.push_back(static_cast<char>('1' + c.src.draw(9))); if (c.src.coin()) text.push_back(static_cast<char>('0' + c.src.draw(10)));
	text.push_back(c.src.coin() ? 'e' : 'E'); switch (c.src.draw(3)) { case 0: break; case 1: text.push_back('+'); break; default: text.push_back('-'); break; }
	text.push_back(static_cast<char>('0' + c.src.draw(10))); if (c.src.chance(1, 3)) text.push_back(static_cast<char>('0' + c.src.draw(10)));
	const int archId = c.src.coin() ? CSV : XML;
	switch (c.src.draw(4)) { case 0: foreign_text_case<bool>(c, text, archId); break; case 1: foreign_text_case<uint8_t>(c, text, archId); break; case 2: foreign_text_case<int32_t>(c, text, archId); break; default: foreign_text_case<int64_t>(c, text, archId); break; }
}
#endif

int main(int argc, char** argv) {
	if (const char* e = nummodel::selftest()) { fprintf(stderr, "ORACLE SELF-TEST FAILED: numeric_model %s\n", e); return 2; }
	if (const char* e = refmp::selftest()) { fprintf(stderr, "ORACLE SELF-TEST FAILED: ref_msgpack %s\n", e); return 2; }
	return vf::engine_main(argc, argv, "c04_numbers");
}
