// C19 — independent serializations on different threads do not interfere.
// A case is a schedule: T threads, each with its own list of operations (save / load through all four archives from memory and
// streams, validation-failing loads, Convert::To of numbers, enums, chrono and UTF) on thread-local objects plus read-only inputs
// shared by all threads.  Oracles: (1) ThreadSanitizer's happens-before race detection (the harness, the library sources and the
// header-only adapters are compiled with -fsanitize=thread), reported through __tsan_on_report; (2) every operation must return
// exactly what the same operation returned when the whole schedule was run sequentially on one thread.
#include "common/arch.h"
#include "bitserializer/types/std/vector.h"
#include "bitserializer/types/std/map.h"
#include "bitserializer/types/std/optional.h"
#include "bitserializer/types/std/pair.h"
#include "bitserializer/types/std/chrono.h"
#include "bitserializer/types/std/memory.h"
#include <thread>
#include <atomic>
#include <unistd.h>
#include <filesystem>
#include "bitserializer/types/std/ctime.h"
#include "bitserializer/types/std/filesystem.h"

using namespace arch;

// ---- ThreadSanitizer hook -----------------------------------------------------------------------------------------------------------
static std::atomic<int> g_tsanReports{ 0 };
extern "C" void __tsan_on_report(void*) { g_tsanReports.fetch_add(1, std::memory_order_relaxed); }
extern "C" const char* __tsan_default_options() { return "suppress_equal_stacks=0:suppress_equal_addresses=0:halt_on_error=0:report_signal_unsafe=0"; }

enum class C19Color { Red, Green, Blue, DeepPurple };
REGISTER_ENUM(C19Color, {
	{ C19Color::Red, "Red" }, { C19Color::Green, "Green" }, { C19Color::Blue, "Blue" }, { C19Color::DeepPurple, "DeepPurple" }
})

namespace {
using Color = C19Color;
using TimePoint = std::chrono::time_point<std::chrono::system_clock, std::chrono::seconds>;

struct In {
	int q = 0; std::string t;
	template <class A> void Serialize(A& a) { a << KeyValue("q", q, Required(), Range<int>(-100000, 100000)) << KeyValue("t", t, MaxSize(64)); }
	bool operator==(const In& o) const { return q == o.q && t == o.t; }
};
struct Cls {
	int64_t a = 1; std::string s; std::vector<int> v; In in; std::vector<In> arr; std::map<std::string, int> m; std::optional<std::string> o; std::u16string w; Color col = Color::Red; std::pair<std::string, int> pr; TimePoint tp{}; double d = 0.5;
	template <class A> void Serialize(A& ar) { ar << KeyValue("a", a) << KeyValue("s", s) << KeyValue("v", v) << KeyValue("in", in) << KeyValue("arr", arr) << KeyValue("m", m) << KeyValue("o", o) << KeyValue("w", w) << KeyValue("col", col) << KeyValue("pr", pr) << KeyValue("tp", tp) << KeyValue("d", d); }
};
struct TimeHolder { time_t t = 0; template <class A> void Serialize(A& ar) { ar << KeyValue("t", CTimeRef(t)); } };
struct Row { std::string a; int n = 0; Color col = Color::Green; double d = 0; template <class A> void Serialize(A& ar) { ar << KeyValue("a", a) << KeyValue("n", n, Required()) << KeyValue("col", col) << KeyValue("d", d); } };

// first-use races: function-local statics (std::pair key names, ...) are initialised by the first serialization of a type.  Every case takes
// a pair type that no earlier case of this process has touched, and all its threads serialize it at once.
template <int N> struct Fresh { int v = N; template <class A> void Serialize(A& a) { a << KeyValue("v", v); } };
template <int N> std::string fresh_pair_op(int which) {
	std::pair<int, Fresh<N>> p{ which, Fresh<N>{} }; std::string out;
	if (which & 1) { SaveObject<JsonArchive>(p, out); std::pair<int, Fresh<N>> q; LoadObject<JsonArchive>(q, out); return out + "/" + std::to_string(q.first) + "/" + std::to_string(q.second.v); }
	SaveObject<MsgPackArchive>(p, out); std::pair<int, Fresh<N>> q; LoadObject<MsgPackArchive>(q, out); return vf::hex(out) + "/" + std::to_string(q.first) + "/" + std::to_string(q.second.v);
}
template <int... Ns> std::string fresh_dispatch(int idx, int which, std::integer_sequence<int, Ns...>) { std::string r; ((idx == Ns ? (r = fresh_pair_op<Ns>(which), 0) : 0), ...); return r; }
constexpr int kFreshTypes = 48;
int g_freshCounter = 0;

std::string gen_str(vf::Src& s, size_t maxLen) { static const char* pool[] = { "a", "Z", "0", "_", "\xD0\x96", "\xE2\x82\xAC", "\xF0\x9F\x98\x80", "x" }; std::string r = "x"; for (size_t n = s.draw(maxLen + 1); n > 0; n--) r += pool[s.draw(8)]; r.push_back('y'); return r; }
In gen_in(vf::Src& s) { In r; r.q = static_cast<int>(s.draw(20000)) - 10000; r.t = gen_str(s, 30); return r; }
Cls gen_cls(vf::Src& s) {
	Cls c; c.a = s.integer<int64_t>(); c.s = gen_str(s, 50); for (size_t n = 1 + s.draw(5); n > 0; n--) c.v.push_back(static_cast<int>(s.draw(1000))); c.in = gen_in(s); for (size_t n = 1 + s.draw(3); n > 0; n--) c.arr.push_back(gen_in(s));
	for (size_t n = 1 + s.draw(3), k = 0; k < n; k++) c.m["k" + std::to_string(k)] = static_cast<int>(s.draw(100)); c.o = gen_str(s, 40); c.w = Convert::To<std::u16string>(gen_str(s, 20)); c.col = static_cast<Color>(s.draw(4)); c.pr = { gen_str(s, 10), static_cast<int>(s.draw(100)) };
	c.tp = TimePoint(std::chrono::seconds(static_cast<int64_t>(s.draw(4000000000ull)) - 2000000000)); c.d = static_cast<double>(s.draw(100000)) / 8; return c;
}
std::vector<Row> gen_rows(vf::Src& s) { std::vector<Row> r; for (size_t n = 1 + s.draw(4); n > 0; n--) { Row x; x.a = gen_str(s, 30); if (s.coin()) { static const char* sp[] = { ",", ";", "\t", " ", "|", "\"" }; for (size_t k = 1 + s.draw(3); k > 0; k--) x.a += sp[s.draw(6)]; x.a += "z"; } x.n = static_cast<int>(s.draw(1000)); x.col = static_cast<Color>(s.draw(4)); x.d = static_cast<double>(s.draw(1000)) / 4; r.push_back(x); } return r; }

// read-only data shared by all threads of a case
struct Shared { Cls cls[2]; std::vector<Row> rows; std::string mp[2], js[2], xm[2], cs; std::string jsInvalid; std::string isoDates[4]; std::string numbers[4]; };

struct Op { int kind = 0; int which = 0; int enc = 0; bool bom = false; uint64_t arg = 0; };
enum { OpSaveMp, OpSaveJs, OpSaveXm, OpSaveCs, OpSaveMpStream, OpSaveJsStream, OpSaveXmStream, OpSaveCsStream, OpLoadMp, OpLoadJs, OpLoadXm, OpLoadCs, OpLoadMpStream, OpLoadJsStream, OpLoadXmStream, OpLoadCsStream, OpLoadInvalid, OpEnum, OpNumber, OpChrono, OpUtf, OpPair, OpSkipPolicy, OpFreshPair, OpFile, OpRawTime, OpCount };

template <class T> std::string resave(T& v) { std::string out; SaveObject<JsonArchive>(v, out); return out; }
std::string run_op(const Op& op, const Shared& sh) {
	try {
		SerializationOptions opt; opt.streamOptions.encoding = static_cast<Convert::Utf::UtfType>(op.enc); opt.streamOptions.writeBom = op.bom;
		if (op.arg & 1) { opt.formatOptions.enableFormat = true; opt.formatOptions.paddingChar = (op.arg & 2) ? '\t' : ' '; opt.formatOptions.paddingCharNum = static_cast<uint16_t>(1 + (op.arg >> 2) % 20); }   // thread-local options: pretty printing with its own padding
		switch (op.kind) {
		case OpSaveMp: { Cls c = sh.cls[op.which]; std::string out; SaveObject<MsgPackArchive>(c, out); return out; }
		case OpSaveJs: { Cls c = sh.cls[op.which]; std::string out; if (op.arg & 8) SaveObject<JsonArchive>(c, out, opt); else SaveObject<JsonArchive>(c, out); return out; }       // default options: the shared DefaultOptions object
		case OpSaveXm: { Cls c = sh.cls[op.which]; std::string out; if (op.arg & 8) SaveObject<XmlArchive>(c, out, opt); else SaveObject<XmlArchive>(c, out); return out; }
		case OpSaveCs: { auto r = sh.rows; std::string out; if (op.arg & 16) { static const char seps[] = { ',', ';', '\t', ' ', '|' }; SerializationOptions o2; o2.valuesSeparator = seps[(op.arg >> 8) % 5]; SaveObject<CsvArchive>(r, out, o2); } else SaveObject<CsvArchive>(r, out); return out; }   // per-thread separator; the cells hold the other separators
		case OpSaveMpStream: { Cls c = sh.cls[op.which]; std::ostringstream os; SaveObject<MsgPackArchive>(c, os); return os.str(); }
		case OpSaveJsStream: { Cls c = sh.cls[op.which]; std::ostringstream os; SaveObject<JsonArchive>(c, os, opt); return os.str(); }
		case OpSaveXmStream: { Cls c = sh.cls[op.which]; std::ostringstream os; SaveObject<XmlArchive>(c, os, opt); return os.str(); }
		case OpSaveCsStream: { auto r = sh.rows; std::ostringstream os; if (op.arg & 16) { static const char seps[] = { ',', ';', '\t', ' ', '|' }; opt.valuesSeparator = seps[(op.arg >> 8) % 5]; } SaveObject<CsvArchive>(r, os, opt); return os.str(); }
		case OpLoadMp: { Cls c; LoadObject<MsgPackArchive>(c, sh.mp[op.which]); return resave(c); }
		case OpLoadJs: { Cls c; LoadObject<JsonArchive>(c, sh.js[op.which]); return resave(c); }
		case OpLoadXm: { Cls c; LoadObject<XmlArchive>(c, sh.xm[op.which]); return resave(c); }
		case OpLoadCs: { std::vector<Row> r; LoadObject<CsvArchive>(r, sh.cs); return resave(r); }
		case OpLoadMpStream: { Cls c; std::istringstream is(sh.mp[op.which]); LoadObject<MsgPackArchive>(c, is); return resave(c); }
		case OpLoadJsStream: { Cls c; std::istringstream is(sh.js[op.which]); LoadObject<JsonArchive>(c, is); return resave(c); }
		case OpLoadXmStream: { Cls c; std::istringstream is(sh.xm[op.which]); LoadObject<XmlArchive>(c, is); return resave(c); }
		case OpLoadCsStream: { std::vector<Row> r; std::istringstream is(sh.cs); LoadObject<CsvArchive>(r, is); return resave(r); }
		case OpLoadInvalid: { Cls c; try { LoadObject<JsonArchive>(c, sh.jsInvalid); return "loaded"; } catch (const ValidationException& e) { std::string r = "validation:"; for (auto& kv : e.GetValidationErrors()) { r += kv.first + "="; for (auto& m : kv.second) r += m + "|"; r += ";"; } return r; } }
		case OpEnum: { const Color col = static_cast<Color>(op.arg % 4); std::string n = Convert::ToString(col); Color back = Convert::To<Color>(n); std::string r = n + "/" + std::to_string(static_cast<int>(back)); try { Convert::To<Color>(std::string("NoSuchColor")); } catch (const std::exception& e) { r += std::string("/") + e.what(); } return r + "/" + Convert::ToString(SerializationErrorCode::Overflow); }
		case OpNumber: { const std::string& t = sh.numbers[op.arg % 4]; std::string r; try { r += std::to_string(Convert::To<int32_t>(t)); } catch (const std::exception& e) { r += e.what(); } r += "/"; try { r += Convert::ToString(Convert::To<double>(t)); } catch (const std::exception& e) { r += e.what(); } return r + "/" + Convert::ToString(static_cast<double>(op.arg) / 7) + "/" + Convert::ToString(op.arg); }
		case OpChrono: { const std::string& t = sh.isoDates[op.arg % 4]; std::string r; try { auto tp = Convert::To<TimePoint>(t); r = Convert::ToString(tp); } catch (const std::exception& e) { r = e.what(); } return r + "/" + Convert::ToString(TimePoint(std::chrono::seconds(static_cast<int64_t>(op.arg % 4000000000ull)))); }
		case OpUtf: { const std::string& t = sh.cls[op.which].s; auto u16 = Convert::To<std::u16string>(t); auto u32 = Convert::To<std::u32string>(u16); return Convert::To<std::string>(u32) + "/" + std::to_string(u16.size()); }
		case OpPair: { std::pair<std::string, int> p = sh.cls[op.which].pr; std::string out; SaveObject<JsonArchive>(p, out); std::pair<std::string, int> q; LoadObject<JsonArchive>(q, out); return out + "/" + q.first + "/" + std::to_string(q.second); }
		case OpSkipPolicy: { SerializationOptions o2; o2.mismatchedTypesPolicy = MismatchedTypesPolicy::Skip; o2.overflowNumberPolicy = OverflowNumberPolicy::Skip; o2.maxValidationErrors = 1 + static_cast<uint32_t>(op.arg % 3); Cls c; try { LoadObject<JsonArchive>(c, sh.jsInvalid, o2); return "loaded"; } catch (const ValidationException& e) { return vf::cat("validation:", e.GetValidationErrors().size(), ":", e.GetValidationErrors().begin()->first); } }
		case OpFile: {   // the file entry points, every thread on a file of its own
			const std::string path = (std::filesystem::temp_directory_path() / vf::cat("vf_c19_", getpid(), "_", std::hash<std::thread::id>()(std::this_thread::get_id()), "_", op.arg % 7, ".json")).string();
			Cls c = sh.cls[op.which]; std::string r;
			try { SaveObjectToFile<JsonArchive>(c, path, opt, true); Cls l; LoadObjectFromFile<JsonArchive>(l, path); r = resave(l); } catch (const std::exception& e) { r = std::string("exception: ") + e.what(); }
			std::error_code ec; std::filesystem::remove(path, ec); return r; }
		case OpRawTime: { const time_t tt = static_cast<time_t>(static_cast<int64_t>(op.arg) * 86399 - 40000000000LL); std::string r = Convert::ToString(CRawTime(tt)); try { r += "/" + std::to_string(static_cast<long long>(Convert::To<CRawTime>(r).Time)); } catch (const std::exception& e) { r += std::string("/") + e.what(); } time_t t2 = tt + 1; std::string js; { TimeHolder h{ t2 }; SaveObject<JsonArchive>(h, js); } return r + "/" + js; }
		case OpFreshPair: return fresh_dispatch(static_cast<int>(op.arg), op.which, std::make_integer_sequence<int, kFreshTypes>());
		default: return "?";
		}
	}
	catch (const std::exception& e) { return std::string("exception: ") + e.what(); }
}
const char* kOpNames[] = { "save-msgpack", "save-json", "save-xml", "save-csv", "save-msgpack-stream", "save-json-stream", "save-xml-stream", "save-csv-stream", "load-msgpack", "load-json", "load-xml", "load-csv", "load-msgpack-stream", "load-json-stream", "load-xml-stream", "load-csv-stream", "load-validation-failing", "enum", "number", "chrono", "utf", "pair", "skip-policy", "fresh-pair-type", "file-round-trip", "time_t-text" };

} // namespace

VF_PROPERTY(concurrent_schedule, 1, "schedule of 2..4 threads x 2..10 operations each out of 26 kinds (SaveObject / LoadObject through MessagePack, JSON, XML, CSV from memory and through string streams in 5 encodings, validation-failing and policy-skipping loads, std::pair, Convert::To of enums, numbers, ISO dates, UTF) on thread-local targets plus shared read-only source objects, input buffers, default options and enum tables; released together by a spin barrier; oracles: ThreadSanitizer (happens-before) reports no race, and every operation returns what it returned in a sequential run of the same schedule; non-trivial = at least two threads run an operation of the same kind or on the same shared input") {
	Shared sh; sh.cls[0] = gen_cls(c.src); sh.cls[1] = gen_cls(c.src); sh.rows = gen_rows(c.src);
	for (int k = 0; k < 2; k++) { Cls x = sh.cls[k]; SaveObject<MsgPackArchive>(x, sh.mp[k]); SaveObject<JsonArchive>(x, sh.js[k]); SaveObject<XmlArchive>(x, sh.xm[k]); } { auto r = sh.rows; SaveObject<CsvArchive>(r, sh.cs); }
	sh.jsInvalid = R"({"a":"not-a-number","s":"x","in":{"t":")" + std::string(80, 't') + R"("},"arr":[{"q":200000,"t":"y"},{"t":"z"}],"col":"NoSuchColor","d":1e999})";
	const char* dates[] = { "2024-02-29T23:59:59Z", "1969-12-31T23:59:59Z", "2262-04-11T23:47:16Z", "not-a-date" }; for (int k = 0; k < 4; k++) sh.isoDates[k] = dates[k]; const char* nums[] = { "12345", "-2147483648", "99999999999", "1.5e3" }; for (int k = 0; k < 4; k++) sh.numbers[k] = nums[k];
	const size_t T = 2 + c.src.draw(3); std::vector<std::vector<Op>> plan(T); bool overlap = false; std::set<int> seenKinds;
	const bool focused = c.src.coin(); const int focusKind = static_cast<int>(c.src.draw(OpCount));   // focused schedules: every thread hammers the same kind of operation
	for (size_t t = 0; t < T; t++) { const size_t n = 2 + c.src.draw(9); std::set<int> mine; for (size_t k = 0; k < n; k++) { Op op; op.kind = focused && c.src.chance(3, 4) ? focusKind : static_cast<int>(c.src.draw(OpCount)); op.which = static_cast<int>(c.src.draw(2)); op.enc = static_cast<int>(c.src.draw(5)); op.bom = c.src.coin(); op.arg = c.src.draw(1000000); plan[t].push_back(op); mine.insert(op.kind); } for (int k : mine) if (!seenKinds.insert(k).second) overlap = true; }
	const int freshIdx = g_freshCounter++ % kFreshTypes; for (size_t t = 0; t < T; t++) { Op op; op.kind = OpFreshPair; op.which = static_cast<int>(c.src.draw(4)); op.arg = static_cast<uint64_t>(freshIdx); plan[t].insert(plan[t].begin(), op); } for (auto& pl : plan) for (auto& op : pl) if (op.kind == OpFreshPair) op.arg = static_cast<uint64_t>(freshIdx);
	c.nontrivial = overlap; c.label(vf::cat("threads=", T)); if (g_freshCounter <= kFreshTypes) c.label("first-use-of-a-type"); if (focused) c.label(vf::cat("focused:", kOpNames[focusKind]));
	{ std::string d = vf::cat("threads=", T, focused ? vf::cat(" focus=", kOpNames[focusKind]) : std::string()); for (size_t t = 0; t < T; t++) { d += vf::cat(" | t", t, ":"); for (auto& op : plan[t]) d += vf::cat(" ", kOpNames[op.kind]); } c.describe(d.substr(0, 400)); }
	// sequential golden run
	std::vector<std::vector<std::string>> golden(T), got(T);
	// concurrent run first (so that first uses of lazily initialised statics happen concurrently), sequential reference run afterwards
	const int before = g_tsanReports.load(); std::atomic<size_t> ready{ 0 }; std::atomic<bool> go{ false }; std::vector<std::thread> th;
	for (size_t t = 0; t < T; t++) th.emplace_back([&, t] { ready.fetch_add(1); while (!go.load(std::memory_order_acquire)) { } for (auto& op : plan[t]) got[t].push_back(run_op(op, sh)); });
	while (ready.load() < T) { } go.store(true, std::memory_order_release); for (auto& x : th) x.join();
	const int races = g_tsanReports.load() - before;
	for (size_t t = 0; t < T; t++) for (auto& op : plan[t]) golden[t].push_back(run_op(op, sh));
	std::string d = vf::cat("threads=", T); for (size_t t = 0; t < T; t++) { d += vf::cat(" | t", t, ":"); for (auto& op : plan[t]) d += vf::cat(" ", kOpNames[op.kind], "(", op.which, ",", op.enc, ")"); }
	if (races > 0) c.fail("ThreadSanitizer reports a data race between independent serializations", vf::cat(races, " report(s); see stderr of the replay | ", d));
	for (size_t t = 0; t < T; t++) for (size_t k = 0; k < plan[t].size(); k++) if (got[t][k] != golden[t][k]) c.fail("an operation returns another result when it runs concurrently with operations of other threads", vf::cat("thread ", t, " op ", k, " ", kOpNames[plan[t][k].kind], ": sequential=", golden[t][k].substr(0, 200), " concurrent=", got[t][k].substr(0, 200), " | ", d));
}

// TSan sets its own exit status at exit when it has printed a report; the engine's status must win (the report is already a failure of the case)
int main(int argc, char** argv) { int rc = vf::engine_main(argc, argv, "c19_threads"); fflush(nullptr); _exit(rc); }
