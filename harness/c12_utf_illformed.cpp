// C12 — ill-formed UTF input is reported or replaced per policy, never propagated.
// Oracle: segmentation-agnostic tiling over ref_utf (accepts the library's "lead + declared tails"
// convention that the pinned tests fix, and Unicode's maximal-subpart practice; nothing else).
#include "engine.h"
#include "ref/ref_utf.h"
#include "bitserializer/convert.h"

using namespace BitSerializer;
using namespace BitSerializer::Convert::Utf;
using refutf::Scalars;

namespace {

// ---- source-encoding traits over code units ----------------------------------------------------
template <class C> struct Enc;
template <> struct Enc<char> {
	using Str = std::string;
	static int wf(const Str& s, size_t p, char32_t* cp = nullptr) { return refutf::wf8(reinterpret_cast<const unsigned char*>(s.data()) + p, s.size() - p, cp); }
	static int maxGap(const Str& s, size_t p) { return refutf::declared8(static_cast<unsigned char>(s[p])); }
	static Str encode(const Scalars& t) { return refutf::enc8(t); }
};
template <> struct Enc<char16_t> {
	using Str = std::u16string;
	static int wf(const Str& s, size_t p, char32_t* cp = nullptr) { return refutf::wf16(s.data() + p, s.size() - p, cp); }
	static int maxGap(const Str&, size_t) { return 1; }
	static Str encode(const Scalars& t) { return refutf::enc16(t); }
};
template <> struct Enc<char32_t> {
	using Str = std::u32string;
	static int wf(const Str& s, size_t p, char32_t* cp = nullptr) { if (p < s.size() && refutf::is_scalar(s[p])) { if (cp) *cp = s[p]; return 1; } return 0; }
	static int maxGap(const Str&, size_t) { return 1; }
	static Str encode(const Scalars& t) { return t; }
};
template <class Str> bool well_formed(const Str& s) { using C = typename Str::value_type; size_t p = 0; while (p < s.size()) { int l = Enc<C>::wf(s, p); if (!l) return false; p += static_cast<size_t>(l); } return true; }
template <class Str> bool decode_all(const Str& s, Scalars& out) { using C = typename Str::value_type; size_t p = 0; while (p < s.size()) { char32_t c; int l = Enc<C>::wf(s, p, &c); if (!l) return false; out.push_back(c); p += static_cast<size_t>(l); } return true; }
template <class Str> size_t first_ill(const Str& s) { using C = typename Str::value_type; size_t p = 0; while (p < s.size()) { int l = Enc<C>::wf(s, p); if (!l) return p; p += static_cast<size_t>(l); } return s.size(); }
template <class Str> std::string units(const Str& s) { std::string r; char b[16]; for (auto c : s) { snprintf(b, sizeof b, "%X ", static_cast<unsigned>(static_cast<std::make_unsigned_t<typename Str::value_type>>(c))); r += b; if (r.size() > 300) { r += ".."; break; } } return r; }

constexpr char32_t SENTINEL = 0x10FFFD;   // private-use plane 16: never produced by generators, not representable in <= 3 UTF-8 bytes
template <class T> std::basic_string<T> mark_str(char32_t cp) { Scalars s(1, cp); if constexpr (sizeof(T) == 1) { auto e = refutf::enc8(s); return std::basic_string<T>(e.begin(), e.end()); } else if constexpr (sizeof(T) == 2) { auto e = refutf::enc16(s); return std::basic_string<T>(e.begin(), e.end()); } else return std::basic_string<T>(s.begin(), s.end()); }

// tiling: input == S0 G1 S1 ... Gn Sn ; Si = encode(Ti); each gap starts at an ill-formed position and is no longer than its first unit allows
template <class SStr> bool tile(const SStr& in, const std::vector<SStr>& S, size_t k, size_t p) {
	using C = typename SStr::value_type;
	if (k == S.size()) return p == in.size();
	if (p >= in.size()) return false;
	if (Enc<C>::wf(in, p)) return false;
	int maxg = Enc<C>::maxGap(in, p);
	for (int g = 1; g <= maxg && p + static_cast<size_t>(g) <= in.size(); g++)
		if (in.compare(p + static_cast<size_t>(g), S[k].size(), S[k]) == 0 && tile(in, S, k + 1, p + static_cast<size_t>(g) + S[k].size())) return true;
	return false;
}

enum MarkKind { MarkSentinel = 0, MarkDefault = 1, MarkNone = 2 };

// Transcode `in` (native order units of width sizeof(S)) to width sizeof(T) through library call `fn` and judge the result.
// Returns nullptr when fine, otherwise a description of the deviation.
template <class S, class T, class Fn>
const char* judge(const std::basic_string<S>& in, UtfEncodingErrorPolicy pol, MarkKind mk, Fn&& fn, std::string& detail) {
	using SStr = std::basic_string<S>; using TStr = std::basic_string<T>;
	const TStr sentinel = mark_str<T>(SENTINEL), dflt = mark_str<T>(0x2610);
	const T* markPtr = mk == MarkSentinel ? sentinel.c_str() : mk == MarkDefault ? dflt.c_str() : nullptr;
	const TStr prefix = mark_str<T>(0x78);
	TStr out = prefix;
	UtfEncodingErrorCode code; size_t itPos; size_t count;
	fn(in, out, pol, markPtr, code, itPos, count);
	if (out.compare(0, prefix.size(), prefix) != 0) return "existing output content was altered";
	TStr body = out.substr(prefix.size());
	detail = vf::cat("in=", units(in), " out=", units(body), " code=", static_cast<int>(code), " it=", itPos, " count=", count);
	if (itPos > in.size()) return "iterator outside the input";
	if (!well_formed(body)) return "output is ill-formed in the target encoding";
	const size_t ill = first_ill(in);
	const bool inputWf = ill == in.size();
	if (inputWf) {
		if (code != UtfEncodingErrorCode::Success || count != 0 || itPos != in.size()) return "well-formed input not reported as success";
		Scalars a, b; decode_all(in, a); decode_all(body, b); if (a != b) return "well-formed input transcoded to different text";
		return nullptr;
	}
	if (code == UtfEncodingErrorCode::UnexpectedEnd) {
		// legitimate only when the input really ends inside a sequence: the rest starts ill-formed and is shorter than its first unit declares
		SStr rest = in.substr(itPos); if (rest.empty()) return "UnexpectedEnd with the iterator at the end";
		if (Enc<S>::wf(rest, 0)) return "UnexpectedEnd at a well-formed sequence";
		int decl = sizeof(S) == 1 ? refutf::declared8(static_cast<unsigned char>(rest[0])) : 2;
		if (static_cast<int>(rest.size()) >= decl) return "UnexpectedEnd although the declared length is available";
		if (sizeof(S) == 2 && !(rest[0] >= 0xD800 && rest[0] <= 0xDBFF)) return "UnexpectedEnd at a unit that is not a high surrogate";
		if (sizeof(S) == 4) return "UnexpectedEnd for UTF-32 input";
		// everything before the iterator must have been handled per policy: the same prefix followed by a neutral 'A'
		// (so that its last unit is not itself "at the end") must give the same output plus 'A'
		SStr pre = in.substr(0, itPos); pre.push_back(static_cast<S>(0x41));
		if (pol == UtfEncodingErrorPolicy::ThrowError) { if (first_ill(pre) != pre.size()) return "ThrowError: UnexpectedEnd reported behind an earlier invalid sequence"; }
		TStr out2 = prefix; UtfEncodingErrorCode c2; size_t i2, n2; fn(pre, out2, pol, markPtr, c2, i2, n2);
		TStr expect = out; expect.push_back(static_cast<T>(0x41));
		if (c2 != UtfEncodingErrorCode::Success || i2 != pre.size()) return "UnexpectedEnd: the text before the incomplete sequence does not transcode successfully";
		if (out2 != expect) return "UnexpectedEnd: output differs from transcoding the text before the incomplete sequence";
		if (n2 != count) return "UnexpectedEnd: error count differs from transcoding the text before the incomplete sequence";
		const char* inner = (first_ill(pre) == pre.size()) ? nullptr : judge<S, T>(pre, pol, mk, fn, detail);
		return inner;
	}
	if (pol == UtfEncodingErrorPolicy::ThrowError) {
		if (code != UtfEncodingErrorCode::InvalidSequence) return "ThrowError policy: ill-formed input not reported as InvalidSequence";
		if (itPos != ill) return "ThrowError policy: iterator is not at the start of the first ill-formed sequence";
		Scalars a, b; decode_all(in.substr(0, ill), a); decode_all(body, b); if (a != b) return "ThrowError policy: output is not the transcoding of the well-formed prefix";
		return nullptr;
	}
	// Skip policy
	if (code != UtfEncodingErrorCode::Success) return "Skip policy returned a failure code";
	if (itPos != in.size()) return "Skip policy: iterator not at the end";
	if (count == 0) return "Skip policy: ill-formed input but zero errors reported";
	if (mk == MarkSentinel) {
		Scalars all; decode_all(body, all);
		std::vector<Scalars> Tx(1); for (char32_t c : all) { if (c == SENTINEL) Tx.emplace_back(); else Tx.back().push_back(c); }
		if (Tx.size() - 1 != count) return "Skip policy: InvalidSequencesCount differs from the number of marks written";
		std::vector<SStr> Sx; for (auto& t : Tx) Sx.push_back(Enc<S>::encode(t));
		if (in.compare(0, Sx[0].size(), Sx[0]) != 0) return "Skip policy: well-formed text before the first error was altered";
		if (!tile(in, Sx, 1, Sx[0].size())) return "Skip policy: output is not 'valid text with each ill-formed sequence replaced by one mark'";
	}
	else {
		// same call with the sentinel mark must give the same text with marks substituted / removed
		TStr ref = prefix; UtfEncodingErrorCode c2; size_t i2, n2; fn(in, ref, pol, sentinel.c_str(), c2, i2, n2);
		if (n2 != count) return "error count depends on the mark";
		TStr expect; const TStr& sub = mk == MarkDefault ? dflt : TStr();
		for (size_t i = 0; i < ref.size();) { if (ref.compare(i, sentinel.size(), sentinel) == 0) { expect += sub; i += sentinel.size(); } else expect.push_back(ref[i++]); }
		if (expect != out) return "default/empty mark output differs from the sentinel-mark output with marks substituted";
	}
	return nullptr;
}

// library entry points --------------------------------------------------------------------------
template <class S, class T> struct ViaClass {   // Utf8/Utf16/Utf32 ::Decode / ::Encode on native-order input
	void operator()(const std::basic_string<S>& in, std::basic_string<T>& out, UtfEncodingErrorPolicy pol, const T* mark, UtfEncodingErrorCode& code, size_t& itPos, size_t& count) const {
		if constexpr (sizeof(S) == 1) { auto r = Utf8::Decode(in.cbegin(), in.cend(), out, pol, mark); code = r.ErrorCode; itPos = static_cast<size_t>(r.Iterator - in.cbegin()); count = r.InvalidSequencesCount; }
		else if constexpr (sizeof(S) == 2) { auto r = Utf16::Decode(in.cbegin(), in.cend(), out, pol, mark); code = r.ErrorCode; itPos = static_cast<size_t>(r.Iterator - in.cbegin()); count = r.InvalidSequencesCount; }
		else { auto r = Utf32::Decode(in.cbegin(), in.cend(), out, pol, mark); code = r.ErrorCode; itPos = static_cast<size_t>(r.Iterator - in.cbegin()); count = r.InvalidSequencesCount; }
	}
};
template <class S, class T> struct ViaTranscode {
	void operator()(const std::basic_string<S>& in, std::basic_string<T>& out, UtfEncodingErrorPolicy pol, const T* mark, UtfEncodingErrorCode& code, size_t& itPos, size_t& count) const {
		std::basic_string_view<S> sv(in); auto r = Transcode(sv, out, pol, mark); code = r.ErrorCode; itPos = static_cast<size_t>(r.Iterator - sv.cbegin()); count = r.InvalidSequencesCount;
	}
};
template <class S, class T> struct ViaSwapped {   // Utf16Be / Utf32Be ::Decode on byte-swapped input (LE host)
	void operator()(const std::basic_string<S>& in, std::basic_string<T>& out, UtfEncodingErrorPolicy pol, const T* mark, UtfEncodingErrorCode& code, size_t& itPos, size_t& count) const {
		if constexpr (sizeof(S) == 2) { auto sw = refutf::swap16(in); auto r = Utf16Be::Decode(sw.cbegin(), sw.cend(), out, pol, mark); code = r.ErrorCode; itPos = static_cast<size_t>(r.Iterator - sw.cbegin()); count = r.InvalidSequencesCount; }
		else if constexpr (sizeof(S) == 4) { auto sw = refutf::swap32(in); auto r = Utf32Be::Decode(sw.cbegin(), sw.cend(), out, pol, mark); code = r.ErrorCode; itPos = static_cast<size_t>(r.Iterator - sw.cbegin()); count = r.InvalidSequencesCount; }
		else { auto r = Utf8::Decode(in.cbegin(), in.cend(), out, pol, mark); code = r.ErrorCode; itPos = static_cast<size_t>(r.Iterator - in.cbegin()); count = r.InvalidSequencesCount; }
	}
};
template <class S, class T> struct ViaEncodeTarget {   // Utf8/Utf16Le/Utf32Le ::Encode into the target class
	void operator()(const std::basic_string<S>& in, std::basic_string<T>& out, UtfEncodingErrorPolicy pol, const T* mark, UtfEncodingErrorCode& code, size_t& itPos, size_t& count) const {
		if constexpr (sizeof(T) == 1) { auto r = Utf8::Encode(in.cbegin(), in.cend(), out, pol, mark); code = r.ErrorCode; itPos = static_cast<size_t>(r.Iterator - in.cbegin()); count = r.InvalidSequencesCount; }
		else if constexpr (sizeof(T) == 2) { auto r = Utf16Le::Encode(in.cbegin(), in.cend(), out, pol, mark); code = r.ErrorCode; itPos = static_cast<size_t>(r.Iterator - in.cbegin()); count = r.InvalidSequencesCount; }
		else { auto r = Utf32Le::Encode(in.cbegin(), in.cend(), out, pol, mark); code = r.ErrorCode; itPos = static_cast<size_t>(r.Iterator - in.cbegin()); count = r.InvalidSequencesCount; }
	}
};

// run all entry points x policies x marks for one input of width S to width T; returns first deviation
template <class S, class T>
const char* check_pair(const std::basic_string<S>& in, std::string& detail, unsigned& evals, bool allMarks = true) {
	for (auto pol : { UtfEncodingErrorPolicy::Skip, UtfEncodingErrorPolicy::ThrowError }) {
		for (int mk = 0; mk < (allMarks && pol == UtfEncodingErrorPolicy::Skip ? 3 : 1); mk++) {
			const char* v;
			++evals; if ((v = judge<S, T>(in, pol, static_cast<MarkKind>(mk), ViaClass<S, T>(), detail))) { detail = vf::cat("Decode-class ", sizeof(S) * 8, "->", sizeof(T) * 8, " pol=", static_cast<int>(pol), " mark=", mk, " ", detail); return v; }
			++evals; if ((v = judge<S, T>(in, pol, static_cast<MarkKind>(mk), ViaTranscode<S, T>(), detail))) { detail = vf::cat("Transcode ", sizeof(S) * 8, "->", sizeof(T) * 8, " pol=", static_cast<int>(pol), " mark=", mk, " ", detail); return v; }
			++evals; if ((v = judge<S, T>(in, pol, static_cast<MarkKind>(mk), ViaEncodeTarget<S, T>(), detail))) { detail = vf::cat("Encode-class ", sizeof(S) * 8, "->", sizeof(T) * 8, " pol=", static_cast<int>(pol), " mark=", mk, " ", detail); return v; }
			if (sizeof(S) > 1) { ++evals; if ((v = judge<S, T>(in, pol, static_cast<MarkKind>(mk), ViaSwapped<S, T>(), detail))) { detail = vf::cat("BE-Decode ", sizeof(S) * 8, "->", sizeof(T) * 8, " pol=", static_cast<int>(pol), " mark=", mk, " ", detail); return v; } }
		}
	}
	return nullptr;
}
template <class S> const char* check_all_targets(const std::basic_string<S>& in, std::string& detail, unsigned& evals, bool allMarks = true) {
	const char* v = nullptr;
	if constexpr (sizeof(S) == 1) { if ((v = check_pair<char, char16_t>(in, detail, evals, allMarks))) return v; return check_pair<char, char32_t>(in, detail, evals, allMarks); }
	else if constexpr (sizeof(S) == 2) { if ((v = check_pair<char16_t, char>(in, detail, evals, allMarks))) return v; return check_pair<char16_t, char32_t>(in, detail, evals, allMarks); }
	else { if ((v = check_pair<char32_t, char>(in, detail, evals, allMarks))) return v; return check_pair<char32_t, char16_t>(in, detail, evals, allMarks); }
}

template <class S> void sweep_one(vf::SweepCtx& c, const std::basic_string<S>& in) {
	std::string detail; unsigned ev = 0;
	const char* v = nullptr;
	try { v = check_all_targets(in, detail, ev, false); }
	catch (const std::exception& e) { v = "exception escaped"; detail = e.what(); }
	c.evaluations += ev;
	if (!well_formed(in)) c.nontrivial++;
	if (v) c.fail(v, units(in), detail);
}

} // namespace

VF_SWEEP(utf8_len_le2, false, "exhaustive: every UTF-8 byte string of length 1..2 -> UTF-16 and UTF-32 through Decode/Transcode/Encode entry points, both policies; non-trivial = ill-formed per ref_utf")
{
	std::string s;
	for (unsigned a = 0; a < 256; a++) {
		if (c.skip(a, [&] { return vf::cat(std::hex, a); })) continue;
		s.assign(1, static_cast<char>(a)); sweep_one(c, s);
		for (unsigned b = 0; b < 256; b++) { s.assign(1, static_cast<char>(a)); s.push_back(static_cast<char>(b)); sweep_one(c, s); }
	}
	c.sample("80"); c.sample("C0 80"); c.sample("E2 82");
}

VF_SWEEP(utf8_len3, false, "exhaustive: every UTF-8 byte string of length 3 (16.7 M) -> UTF-16 and UTF-32, both policies, sentinel mark")
{
	std::string s(3, '\0');
	for (unsigned a = 0; a < 256; a++) for (unsigned b = 0; b < 256; b++) {
		if (c.skip(a * 256 + b, [&] { return vf::cat(std::hex, a, " ", b); })) continue;
		s[0] = static_cast<char>(a); s[1] = static_cast<char>(b);
		for (unsigned d = 0; d < 256; d++) { s[2] = static_cast<char>(d); sweep_one(c, s); }
	}
	c.sample("ED A0 80"); c.sample("E0 80 80"); c.sample("41 C2 41");
}

VF_SWEEP(utf8_len4_by_class, false, "every 4-byte string over 30 boundary bytes per position (810 k): all lead classes x continuation/non-continuation boundaries")
{
	static const unsigned char R[] = { 0x00, 0x41, 0x7F, 0x80, 0x8F, 0x90, 0x9F, 0xA0, 0xBF, 0xC0, 0xC1, 0xC2, 0xDF, 0xE0, 0xE1, 0xEC, 0xED, 0xEE, 0xEF, 0xF0, 0xF1, 0xF3, 0xF4, 0xF5, 0xF7, 0xF8, 0xFB, 0xFC, 0xFD, 0xFF };
	std::string s(4, '\0'); uint64_t idx = 0;
	for (unsigned char a : R) for (unsigned char b : R) { if (c.skip(idx++, [&] { return vf::cat(std::hex, +a, " ", +b); })) continue; for (unsigned char d : R) for (unsigned char e : R) { s[0] = static_cast<char>(a); s[1] = static_cast<char>(b); s[2] = static_cast<char>(d); s[3] = static_cast<char>(e); sweep_one(c, s); } }
	c.sample("F4 90 80 80"); c.sample("F0 8F BF BF");
}

VF_SWEEP(utf16_units, false, "every single UTF-16 unit, every pair of surrogate units (4.2 M), and all triples over 10 boundary units -> UTF-8 and UTF-32 (LE and BE decoders)")
{
	std::u16string s;
	for (unsigned a = 0; a < 0x10000; a++) { if (c.skip(a, [&] { return vf::cat("1:", std::hex, a); })) continue; s.assign(1, static_cast<char16_t>(a)); sweep_one(c, s); }
	for (unsigned a = 0xD800; a < 0xE000; a++) { if (c.skip(a, [&] { return vf::cat("2:", std::hex, a); })) continue; for (unsigned b = 0xD800; b < 0xE000; b++) { s.assign(1, static_cast<char16_t>(a)); s.push_back(static_cast<char16_t>(b)); sweep_one(c, s); } }
	static const char16_t R[] = { 0x0000, 0x0041, 0xD7FF, 0xD800, 0xDBFF, 0xDC00, 0xDFFF, 0xE000, 0xFFFD, 0xFFFF };
	uint64_t idx = 0;
	for (char16_t a : R) for (char16_t b : R) { if (c.skip(idx++, [&] { return vf::cat("3:", std::hex, +a, " ", +b); })) continue; for (char16_t d : R) { s.assign({ a, b, d }); sweep_one(c, s); } }
	c.sample("D800"); c.sample("D800 E000"); c.sample("DC00 D800");
}

VF_SWEEP(utf32_units, false, "every single UTF-32 unit 0..0x11FFFF plus high values, and all triples over 11 boundary units -> UTF-8 and UTF-16")
{
	std::u32string s;
	for (uint32_t a = 0; a < 0x120000; a++) { if (c.skip(a, [&] { return vf::cat("1:", std::hex, a); })) continue; s.assign(1, static_cast<char32_t>(a)); sweep_one(c, s); }
	static const char32_t R[] = { 0x0, 0x41, 0xD7FF, 0xD800, 0xDFFF, 0xE000, 0xFFFF, 0x10000, 0x10FFFF, 0x110000, 0xFFFFFFFF };
	uint64_t idx = 0;
	for (char32_t a : R) for (char32_t b : R) { if (c.skip(idx++, [&] { return vf::cat("3:", std::hex, static_cast<uint32_t>(a), " ", static_cast<uint32_t>(b)); })) continue; for (char32_t d : R) { s.assign({ a, b, d }); sweep_one(c, s); } }
	for (uint32_t k = 21; k < 32; k++) { if (c.skip(k, [&] { return vf::cat("hi:", k); })) continue; s.assign(1, static_cast<char32_t>(1u << k)); sweep_one(c, s); s.assign(1, static_cast<char32_t>((1u << k) | 0x41)); sweep_one(c, s); }
	c.sample("D800"); c.sample("110000");
}

// ---- generated: ill-formed chunks embedded in valid text ----------------------------------------
namespace {
char32_t gen_scalar(vf::Src& src) {
	for (;;) {
		char32_t c;
		switch (src.draw(6)) {
		case 0: c = static_cast<char32_t>(src.range(0x20, 0x7E)); break;
		case 1: c = static_cast<char32_t>(src.range(0x80, 0x7FF)); break;
		case 2: c = static_cast<char32_t>(src.range(0x800, 0xFFFF)); break;
		case 3: c = static_cast<char32_t>(src.range(0x10000, 0x10FFFF)); break;
		case 4: { const char32_t sp[] = { 0x0, 0x7F, 0x80, 0x7FF, 0x800, 0xD7FF, 0xE000, 0xFFFD, 0xFFFF, 0x10000, 0x10FFFF, 0xFEFF }; c = sp[src.draw(12)]; break; }
		default: c = static_cast<char32_t>(src.range(0x20, 0x7E)); break;
		}
		if (c >= 0xD800 && c <= 0xDFFF) c = 0xE000 + (c & 0xFF);
		if (c == SENTINEL || c == 0x2610) continue;
		return c;
	}
}
template <class S> void append_bad(vf::Src& src, std::basic_string<S>& out) {
	if constexpr (sizeof(S) == 1) {
		static const char* bad[] = { "\x80", "\xBF", "\xC0\x80", "\xC1\xBF", "\xC2", "\xC2\x41", "\xE0\x80\x80", "\xE0\x9F\xBF", "\xED\xA0\x80", "\xED\xBF\xBF", "\xE2\x82", "\xE2\x41\x41", "\xF0\x80\x80\x80", "\xF0\x8F\xBF\xBF",
			"\xF4\x90\x80\x80", "\xF5\x80\x80\x80", "\xF7\xBF\xBF\xBF", "\xF8\x88\x80\x80\x80", "\xFC\x84\x80\x80\x80\x80", "\xFE", "\xFF", "\xF0\x9F\x98", "\xF0\x41\x41\x41", "\xE2\x82\x41" };
		if (src.coin()) out += bad[src.draw(sizeof bad / sizeof *bad)]; else { size_t n = 1 + src.draw(4); for (size_t i = 0; i < n; i++) out.push_back(static_cast<char>(0x80 + src.draw(0x80))); }
	}
	else if constexpr (sizeof(S) == 2) {
		switch (src.draw(5)) { case 0: out.push_back(static_cast<S>(0xD800 + src.draw(0x400))); break; case 1: out.push_back(static_cast<S>(0xDC00 + src.draw(0x400))); break;
		case 2: out.push_back(static_cast<S>(0xDC00 + src.draw(0x400))); out.push_back(static_cast<S>(0xD800 + src.draw(0x400))); break;
		case 3: out.push_back(static_cast<S>(0xD800 + src.draw(0x400))); out.push_back(static_cast<S>(0xD800 + src.draw(0x400))); break;
		default: out.push_back(static_cast<S>(0xD800 + src.draw(0x400))); out.push_back(static_cast<S>(0xE000 + src.draw(0x1FFF))); break; }
	}
	else {
		switch (src.draw(3)) { case 0: out.push_back(static_cast<S>(0xD800 + src.draw(0x800))); break; case 1: out.push_back(static_cast<S>(0x110000 + src.draw(0x1000))); break; default: out.push_back(static_cast<S>(src.draw(0) | 0x80000000u)); break; }
	}
}
template <class S> void embedded(vf::Ctx& c) {
	std::basic_string<S> in; size_t segs = 1 + c.src.len(6); unsigned bads = 0;
	for (size_t i = 0; i < segs; i++) {
		size_t n = c.src.len(40); Scalars t; for (size_t k = 0; k < n; k++) t.push_back(gen_scalar(c.src));
		in += Enc<S>::encode(t);
		if (i + 1 < segs || c.src.chance(1, 3)) { append_bad(c.src, in); ++bads; }
	}
	c.nontrivial = !well_formed(in);
	c.describe(vf::cat("w", sizeof(S) * 8, " ", units(in), " h=", vf::hash_bytes(in.data(), in.size() * sizeof(S))));
	c.label(vf::cat("bad-chunks=", bads > 3 ? 4 : bads));
	std::string detail; unsigned ev = 0; const char* v = nullptr;
	try { v = check_all_targets(in, detail, ev, true); }
	catch (const std::exception& e) { c.fail("exception escaped", e.what()); }
	if (v) c.fail(v, detail);
	// the string-to-string conversions of Convert:: are transcodings with the fail policy: ill-formed input (a truncated tail included) must be
	// reported (exception / empty optional), well-formed input converts
	const bool ok = well_formed(in);
	auto conv = [&](auto tag, const char* name) { using T = decltype(tag); bool threw = false; try { (void)Convert::To<std::basic_string<T>>(in); } catch (const std::exception&) { threw = true; } const bool tried = Convert::TryTo<std::basic_string<T>>(in).has_value();
		if (ok ? (threw || !tried) : (!threw || tried)) c.fail(ok ? "Convert::To rejects well-formed text" : "Convert::To between string types accepts ill-formed text (fail policy: must be reported)", vf::cat("to ", name, " from w", sizeof(S) * 8, " ", units(in), " threw=", threw, " TryTo=", tried)); };
	if constexpr (sizeof(S) != 1) conv(char{}, "std::string"); if constexpr (sizeof(S) != 2) conv(char16_t{}, "std::u16string"); if constexpr (sizeof(S) != 4) { conv(char32_t{}, "std::u32string"); conv(wchar_t{}, "std::wstring"); }
}
}

VF_PROPERTY(embedded_utf8, 2, "valid text segments (all planes, U+0000, U+FFFF, U+10FFFF) with ill-formed UTF-8 chunks (stray continuation, overlong, surrogate, >U+10FFFF, 5/6-byte leads, truncated tails) between and after them; targets UTF-16/32; Skip with sentinel/default/empty mark and ThrowError; non-trivial = input ill-formed per ref_utf") { embedded<char>(c); }
VF_PROPERTY(embedded_utf16, 1, "same with ill-formed UTF-16 chunks (lone/swapped/doubled surrogates, high surrogate + non-surrogate); targets UTF-8/32; LE and BE decoders") { embedded<char16_t>(c); }
// wchar_t is a signed 32-bit type on this platform: the same units through std::wstring must give exactly what they give through std::u32string
VF_PROPERTY(wchar_source_equals_char32_source, 1, "UTF-32 unit sequences with surrogates, values above U+10FFFF and units with the top bit set (negative as wchar_t), embedded in valid text, transcoded from std::wstring and from std::u32string to UTF-8 and UTF-16 with both policies: identical output, error code, position and error count; non-trivial = a unit >= 0x80000000 is present")
{
	static_assert(sizeof(wchar_t) == 4, "32-bit wchar_t expected");
	std::u32string in; bool high = false; const size_t n = 1 + c.src.draw(8);
	for (size_t i = 0; i < n; i++) { switch (c.src.draw(6)) { case 0: in.push_back(static_cast<char32_t>(0xD800 + c.src.draw(0x800))); break; case 1: in.push_back(static_cast<char32_t>(0x110000 + c.src.draw(0x1000))); break; case 2: in.push_back(static_cast<char32_t>(c.src.draw(0x10000) | 0x80000000u)); high = true; break; case 3: in.push_back(static_cast<char32_t>(0xFFFF0000u | c.src.draw(0x10000))); high = true; break; default: in.push_back(static_cast<char32_t>(0x41 + c.src.draw(0x500))); } }
	const std::wstring win(in.begin(), in.end()); const auto pol = c.src.coin() ? UtfEncodingErrorPolicy::Skip : UtfEncodingErrorPolicy::ThrowError;
	c.nontrivial = high; c.describe(vf::cat("wchar ", refutf::show(in), " pol=", static_cast<int>(pol)));
	{ std::u16string a, b; std::u32string_view sv(in); std::wstring_view wv(win); auto ra = Transcode(sv, a, pol); auto rb = Transcode(wv, b, pol);
	  if (a != b || ra.ErrorCode != rb.ErrorCode || ra.InvalidSequencesCount != rb.InvalidSequencesCount || (ra.Iterator - sv.cbegin()) != (rb.Iterator - wv.cbegin())) c.fail("wchar_t source is transcoded differently from the same units as char32_t (to UTF-16)", vf::cat(refutf::show(in), " pol=", static_cast<int>(pol), " u32: ", vf::hex(std::string(reinterpret_cast<const char*>(a.data()), a.size() * 2)), " errors=", ra.InvalidSequencesCount, " wchar: ", vf::hex(std::string(reinterpret_cast<const char*>(b.data()), b.size() * 2)), " errors=", rb.InvalidSequencesCount)); }
	{ std::string a, b; std::u32string_view sv(in); std::wstring_view wv(win); auto ra = Transcode(sv, a, pol); auto rb = Transcode(wv, b, pol);
	  if (a != b || ra.ErrorCode != rb.ErrorCode || ra.InvalidSequencesCount != rb.InvalidSequencesCount || (ra.Iterator - sv.cbegin()) != (rb.Iterator - wv.cbegin())) c.fail("wchar_t source is transcoded differently from the same units as char32_t (to UTF-8)", vf::cat(refutf::show(in), " pol=", static_cast<int>(pol), " u32: ", vf::hex(a), " wchar: ", vf::hex(b))); }
}
VF_PROPERTY(embedded_utf32, 1, "same with invalid UTF-32 units (surrogates, > U+10FFFF); targets UTF-8/16") { embedded<char32_t>(c); }

int main(int argc, char** argv) {
	if (const char* e = refutf::selftest()) { fprintf(stderr, "ORACLE SELF-TEST FAILED: %s\n", e); return 2; }
	return vf::engine_main(argc, argv, "c12_utf_illformed");
}
