// C13 — encoded text streams: encoding detection, BOM and chunked decoding are lossless.
// Oracle: ref_utf (independent encoder); bounded ReadChunk call counter instead of a clock for "does not hang".
#include "common/arch.h"
#include "ref/ref_utf.h"
#include "bitserializer/types/std/vector.h"

using namespace arch;
using namespace BitSerializer::Convert::Utf;
using refutf::Scalars;

namespace {

const char32_t POOL[] = { U'a', U'Z', 0xE9, 0x416, 0x20AC, 0xFFFD, 0x1F600, 0x10FFFF, U'\n', 0xFFFF, 0x7F, 0x80, 0x7FF, 0x800, 0x10000, U'"', U',' };

// text whose multi-unit characters are placed around the chunk boundary
Scalars gen_text(vf::Src& s, size_t chunk, bool bomless) {
	Scalars t; const size_t target = s.coin() ? chunk - 6 + s.draw(12) : s.chance(1, 4) ? 2 * chunk - 6 + s.draw(12) : s.len(3 * chunk);   // bytes (roughly): place the interesting part near a boundary
	const char32_t filler = s.coin() ? U'a' : POOL[s.draw(sizeof POOL / sizeof *POOL)];
	size_t bytes = 0;
	while (bytes + 8 < target) { char32_t c = s.chance(1, 6) ? POOL[s.draw(sizeof POOL / sizeof *POOL)] : filler; t.push_back(c); bytes += s.coin() ? static_cast<size_t>(refutf::utf8_len(c)) : 2; }
	size_t tail = 1 + s.draw(8); for (size_t i = 0; i < tail; i++) t.push_back(POOL[s.draw(sizeof POOL / sizeof *POOL)]);
	if (s.chance(1, 10)) t.clear();
	if (bomless) {   // soundness rule 1: starts with an ASCII non-NUL character and holds no U+0000
		if (t.empty()) t.push_back(U'A'); t[0] = static_cast<char32_t>(0x21 + s.draw(0x5e)); for (auto& c : t) if (c == 0) c = U'0';
	}
	return t;
}
template <class C> std::basic_string<C> native(const Scalars& t) { if constexpr (sizeof(C) == 1) { auto e = refutf::enc8(t); return std::basic_string<C>(e.begin(), e.end()); } else if constexpr (sizeof(C) == 2) { auto e = refutf::enc16(t); return std::basic_string<C>(e.begin(), e.end()); } else return std::basic_string<C>(t.begin(), t.end()); }
template <class C> std::string show(const std::basic_string<C>& s) { std::string r; char b[12]; size_t n = 0; for (auto c : s) { snprintf(b, sizeof b, "%X ", static_cast<unsigned>(static_cast<std::make_unsigned_t<C>>(c))); r += b; if (++n > 60) { r += ".."; break; } } return r; }

struct ReadResult { bool hang = false, decodeError = false; int calls = 0; UtfType detected = UtfType::Utf8; };
template <class C, size_t Chunk> ReadResult read_all(std::istream& is, std::basic_string<C>& out, UtfEncodingErrorPolicy pol, const C* mark, size_t inputBytes) {
	ReadResult r; CEncodedStreamReader<C, Chunk> rd(is, pol, mark); r.detected = rd.GetSourceUtfType();
	const int limit = static_cast<int>(inputBytes / 1 + 64);   // every successful call consumes at least one byte
	for (;;) {
		auto res = rd.ReadChunk(out); ++r.calls;
		if (res == EncodedStreamReadResult::EndFile) { if (!rd.IsEnd()) r.hang = true; return r; }
		if (res == EncodedStreamReadResult::DecodeError) { r.decodeError = true; /* the reader must still come to an end */ int extra = 0; while (!rd.IsEnd() && extra < 8) { rd.ReadChunk(out); ++extra; } if (!rd.IsEnd()) r.hang = true; return r; }
		if (r.calls > limit) { r.hang = true; return r; }
	}
}
template <class C, size_t Chunk> ReadResult read_bytes(const std::string& bytes, std::basic_string<C>& out, UtfEncodingErrorPolicy pol, const C* mark, int kind, size_t piece) {
	if (kind == 0) { std::istringstream is(bytes); return read_all<C, Chunk>(is, out, pol, mark, bytes.size()); }
	ShortReadBuf b(bytes, piece); std::istream is(&b); return read_all<C, Chunk>(is, out, pol, mark, bytes.size());
}

template <class C, size_t Chunk> void roundtrip_case(vf::Ctx& c) {
	const int enc = static_cast<int>(c.src.draw(5)); const bool bom = c.src.coin(); const int kind = static_cast<int>(c.src.draw(2)); const size_t piece = 1 + c.src.draw(Chunk + 5);
	const Scalars text = gen_text(c.src, Chunk, !bom);
	const std::string bytes = (bom ? refutf::bom_bytes(enc) : std::string()) + refutf::enc_bytes(text, enc);
	const auto pol = c.src.coin() ? UtfEncodingErrorPolicy::Skip : UtfEncodingErrorPolicy::ThrowError;
	// non-trivial: a multi-unit character straddles a chunk boundary, or there is no BOM
	bool straddle = false; { size_t off = 0; for (char32_t ch : text) { size_t l = refutf::enc_bytes(Scalars(1, ch), enc).size(); if (l > static_cast<size_t>(refutf::unit_size(enc)) || l > 1) { if (off / Chunk != (off + l - 1) / Chunk) straddle = true; } off += l; } }
	c.nontrivial = straddle || !bom;
	c.describe(vf::cat("w", sizeof(C) * 8, "/", Chunk, " ", refutf::enc_name(enc), bom ? "+bom" : "-bom", " kind=", kind, "/", piece, " pol=", static_cast<int>(pol), " len=", text.size(), " ", refutf::show(text.substr(0, 12)), " h=", vf::hash_bytes(bytes.data(), bytes.size())));
	c.label(vf::cat("enc=", refutf::enc_name(enc), bom ? "+bom" : "-bom")); if (straddle) c.label("straddles-boundary");
	std::basic_string<C> got; const auto want = native<C>(text);
	const ReadResult r = read_bytes<C, Chunk>(bytes, got, pol, BitSerializer::Convert::Utf::Detail::GetDefaultErrorMark<C>(), kind, piece);
	const std::string d = vf::cat(refutf::enc_name(enc), bom ? "+bom" : "-bom", " chunk=", Chunk, " bytes=", vf::hex(bytes.substr(0, 80)), bytes.size() > 80 ? ".." : "", " (", bytes.size(), ") calls=", r.calls, " detected=", refutf::enc_name(static_cast<int>(r.detected)), " got=", show(got), " want=", show(want));
	if (r.hang) c.fail("the reader does not reach the end of the stream within a bounded number of ReadChunk calls", d);
	if (r.decodeError) c.fail("DecodeError on a well-formed stream", d);
	if (!bytes.empty() && static_cast<int>(r.detected) != enc) c.fail("wrong encoding detected", d);
	if (got != want) c.fail("decoded text differs from the text written", d);
}

template <class C, size_t Chunk> void truncation_case(vf::Ctx& c) {
	const int enc = static_cast<int>(c.src.draw(5)); const bool bom = c.src.chance(3, 4); const int kind = static_cast<int>(c.src.draw(2)); const size_t piece = 1 + c.src.draw(Chunk);
	Scalars text = gen_text(c.src, Chunk, !bom); if (text.empty()) text.push_back(0x1F600);
	const std::string head = bom ? refutf::bom_bytes(enc) : std::string(); const std::string full = head + refutf::enc_bytes(text, enc);
	// cut at a random point behind the BOM, biased to the last characters and to the chunk boundary
	size_t cut = head.size() + (c.src.coin() ? (full.size() - head.size() > 6 ? full.size() - head.size() - 1 - c.src.draw(6) : c.src.draw(full.size() - head.size())) : c.src.draw(full.size() - head.size()));
	if (!bom && cut < 4) cut = std::min<size_t>(4, full.size() - 1);   // keep the detection window meaningful
	const std::string bytes = full.substr(0, cut);
	Scalars pre; size_t used = head.size(); for (char32_t ch : text) { size_t l = refutf::enc_bytes(Scalars(1, ch), enc).size(); if (used + l <= cut) { pre.push_back(ch); used += l; } else break; }
	const bool inside = used != cut;
	const bool sameWidth = sizeof(C) == static_cast<size_t>(refutf::unit_size(enc)) && enc == refutf::U8;   // UTF-8 -> char passes bytes through unvalidated (by design)
	const auto pol = c.src.coin() ? UtfEncodingErrorPolicy::Skip : UtfEncodingErrorPolicy::ThrowError;
	c.nontrivial = inside; c.label(inside ? "cut-inside-character" : "cut-at-boundary");
	c.describe(vf::cat("trunc w", sizeof(C) * 8, "/", Chunk, " ", refutf::enc_name(enc), bom ? "+bom" : "-bom", " cut=", cut, "/", full.size(), " pol=", static_cast<int>(pol), " kind=", kind, "/", piece, " h=", vf::hash_bytes(bytes.data(), bytes.size())));
	static const C markStr[] = { static_cast<C>('#'), 0 };
	std::basic_string<C> got; const ReadResult r = read_bytes<C, Chunk>(bytes, got, pol, markStr, kind, piece);
	const std::string d = vf::cat(refutf::enc_name(enc), bom ? "+bom" : "-bom", " chunk=", Chunk, " cut=", cut, "/", full.size(), " inside=", inside, " pol=", static_cast<int>(pol), " bytes=", vf::hex(bytes.substr(bytes.size() > 40 ? bytes.size() - 40 : 0)), " calls=", r.calls, " err=", r.decodeError, " got=", show(got), " prefix=", show(native<C>(pre)));
	if (r.hang) c.fail("a stream cut inside a character makes the reader hang (never reaches the end)", d);
	if (!bom && static_cast<int>(r.detected) != enc) return;   // detection on a truncated BOM-less prefix is outside the property
	auto want = native<C>(pre);
	if (sameWidth) { if (r.decodeError) c.fail("DecodeError for a same-width copy", d); return; }
	if (!inside) { if (r.decodeError || got != want) c.fail("a stream cut at a character boundary is not decoded exactly", d); return; }
	if (pol == UtfEncodingErrorPolicy::ThrowError) { if (!r.decodeError) c.fail("a stream cut inside a character is not reported with the ThrowError policy", d); if (got.compare(0, want.size(), want) != 0 && got != want) c.fail("text before the cut was altered", d); return; }
	want.push_back(static_cast<C>('#'));
	if (r.decodeError || got != want) c.fail("a stream cut inside a character is not 'text + error mark' with the Skip policy", d);
}

} // namespace

VF_PROPERTY(read_char_32, 2, "text placed around the chunk boundary x 5 encodings x BOM on/off (BOM-less: starts with ASCII non-NUL, no U+0000) x stringstream/short-read streambuf x both policies -> CEncodedStreamReader<char,32>: decoded text == original, detected encoding == written one, bounded number of ReadChunk calls; non-trivial = a multi-unit character straddles a chunk boundary or no BOM") { roundtrip_case<char, 32>(c); }
VF_PROPERTY(read_char16_32, 2, "same for CEncodedStreamReader<char16_t,32>") { roundtrip_case<char16_t, 32>(c); }
VF_PROPERTY(read_char32_32, 2, "same for CEncodedStreamReader<char32_t,32>") { roundtrip_case<char32_t, 32>(c); }
VF_PROPERTY(read_char_64, 1, "same for CEncodedStreamReader<char,64>") { roundtrip_case<char, 64>(c); }
VF_PROPERTY(read_char32_256, 1, "same for CEncodedStreamReader<char32_t,256> (the chunk size the archives use)") { roundtrip_case<char32_t, 256>(c); }
VF_PROPERTY(read_char_256, 1, "same for CEncodedStreamReader<char,256>") { roundtrip_case<char, 256>(c); }
VF_PROPERTY(trunc_char32_32, 2, "encoded stream cut at any byte (biased to the last characters): cut at a character boundary -> exact prefix; cut inside a character -> prefix + error mark (Skip) or DecodeError (ThrowError), and the reader reaches EndFile within a bounded number of calls; non-trivial = cut inside a character") { truncation_case<char32_t, 32>(c); }
VF_PROPERTY(trunc_char_32, 2, "same for target char") { truncation_case<char, 32>(c); }
VF_PROPERTY(trunc_char16_64, 1, "same for target char16_t, chunk 64") { truncation_case<char16_t, 64>(c); }
VF_PROPERTY(trunc_char_256, 1, "same for target char, chunk 256") { truncation_case<char, 256>(c); }

VF_PROPERTY(writer_bytes, 2, "CEncodedStreamWriter(encoding, BOM) fed with the text in pieces of char / char16_t / char32_t strings: bytes == BOM + reference encoding; non-trivial = text has supplementary-plane characters or non-UTF-8 target")
{
	const int enc = static_cast<int>(c.src.draw(5)); const bool bom = c.src.coin(); const Scalars text = gen_text(c.src, 32, false);
	const bool strict = c.src.coin();
	// the stream may already hold data (second document in one stream, file opened for append): the writer still emits BOM + text behind it
	const std::string already = c.src.chance(1, 3) ? std::string(1 + c.src.draw(20), '#') : std::string(); if (!already.empty()) c.label("stream-already-holds-data");
	std::ostringstream os; os << already; { CEncodedStreamWriter w(os, static_cast<UtfType>(enc), bom, strict ? UtfEncodingErrorPolicy::ThrowError : UtfEncodingErrorPolicy::Skip);
		size_t i = 0; while (i < text.size()) { size_t n = 1 + c.src.draw(7); Scalars part = text.substr(i, n); i += part.size();
			// history on the same writer: a rejected Write (strict policy, ill-formed UTF-8 after a valid prefix; transcoding targets only) must write nothing and leave nothing behind
			if (strict && enc != refutf::U8 && c.src.chance(1, 5)) { static const char* bad[] = { "row-1;\xFFtail", "ab\xC3", "x\xED\xA0\x80y", "valid prefix \xF8" }; const std::string before = os.str(); const auto rc = w.Write(std::string(bad[c.src.draw(4)])); c.label("after-a-rejected-write");
				if (rc == UtfEncodingErrorCode::Success) c.fail("writer accepts ill-formed text under the strict policy", refutf::enc_name(enc)); if (os.str() != before) c.fail("a rejected Write() changed the stream", vf::cat(refutf::enc_name(enc), " ", os.str().size() - before.size(), " bytes appeared")); }
			UtfEncodingErrorCode rc; switch (c.src.draw(3)) { case 0: rc = w.Write(native<char>(part)); break; case 1: rc = w.Write(native<char16_t>(part)); break; default: rc = w.Write(native<char32_t>(part)); break; }
			if (rc != UtfEncodingErrorCode::Success) c.fail("writer reports an error for valid text", refutf::show(part)); } }
	const std::string want = already + (bom ? refutf::bom_bytes(enc) : std::string()) + refutf::enc_bytes(text, enc);
	bool astral = false; for (auto ch : text) if (ch >= 0x10000) astral = true;
	c.nontrivial = astral || enc != refutf::U8; c.describe(vf::cat("writer ", refutf::enc_name(enc), bom ? "+bom " : "-bom ", refutf::show(text.substr(0, 12)), " h=", vf::hash_bytes(want.data(), want.size())));
	if (os.str() != want) c.fail("writer output is not BOM + the configured encoding of the text", vf::cat(refutf::enc_name(enc), " got=", vf::hex(os.str().substr(0, 100)), " want=", vf::hex(want.substr(0, 100))));
}

VF_PROPERTY(detect_encoding, 2, "DetectEncoding(string_view) and DetectEncoding(istream, skipBom): encoding and BOM size for texts with BOM, and without BOM when the text starts with an ASCII non-NUL character; the stream is positioned behind the BOM (or at the start); non-trivial = BOM-less or text shorter than 4 bytes")
{
	const int enc = static_cast<int>(c.src.draw(5)); const bool bom = c.src.coin();
	Scalars text; size_t n = c.src.chance(1, 3) ? 1 + c.src.draw(3) : c.src.len(150); for (size_t i = 0; i < n; i++) { char32_t ch = POOL[c.src.draw(sizeof POOL / sizeof *POOL)]; text.push_back(ch == 0 ? U'a' : ch); }
	if (!bom) { if (text.empty()) text.push_back(U'A'); text[0] = static_cast<char32_t>(0x21 + c.src.draw(0x5e)); }
	const std::string head = bom ? refutf::bom_bytes(enc) : std::string(); const std::string bytes = head + refutf::enc_bytes(text, enc);
	c.nontrivial = !bom || bytes.size() < 4; c.describe(vf::cat("detect ", refutf::enc_name(enc), bom ? "+bom " : "-bom ", vf::hex(bytes.substr(0, 24)), " n=", bytes.size()));
	size_t off = 99; const UtfType d1 = DetectEncoding(std::string_view(bytes), off);
	if (bytes.empty()) return;
	if (static_cast<int>(d1) != enc || off != head.size()) c.fail("DetectEncoding(string_view) wrong", vf::cat(refutf::enc_name(enc), bom ? "+bom " : "-bom ", vf::hex(bytes.substr(0, 40)), " -> ", refutf::enc_name(static_cast<int>(d1)), " offset ", off));
	// the text may start anywhere in the stream (a preamble was consumed before): detection and positioning are relative to the current position
	const bool skip = c.src.coin(); const std::string preamble = c.src.coin() ? std::string() : std::string(1 + c.src.draw(40), '#'); if (!preamble.empty()) c.label("stream-not-at-zero");
	std::istringstream is(preamble + bytes); is.seekg(static_cast<std::streamoff>(preamble.size())); const UtfType d2 = DetectEncoding(is, skip);
	if (static_cast<int>(d2) != enc) c.fail("DetectEncoding(istream) wrong", vf::cat(refutf::enc_name(enc), bom ? "+bom " : "-bom ", vf::hex(bytes.substr(0, 40)), " -> ", refutf::enc_name(static_cast<int>(d2))));
	std::string rest((std::istreambuf_iterator<char>(is)), std::istreambuf_iterator<char>());
	const std::string wantRest = skip ? bytes.substr(head.size()) : bytes;
	if (rest != wantRest) c.fail("stream position after DetectEncoding(istream) is wrong", vf::cat("skipBom=", skip, " rest ", rest.size(), " bytes, expected ", wantRest.size()));
}

namespace {
struct Row { std::string name; int n = 0; template <class Ar> void Serialize(Ar& a) { a << KeyValue("name", name) << KeyValue("n", n); } };
}
VF_PROPERTY(archives_foreign_stream, 2, "a CSV / JSON / XML document written by the reference encoder (not by the library) in any of the 5 encodings with or without BOM, with non-ASCII text, of a size around the chunk boundary, is loaded from a stream to the same values; non-trivial = non-UTF-8 encoding or no BOM")
{
	const int enc = static_cast<int>(c.src.draw(5)); const bool bom = c.src.coin(); const int which = static_cast<int>(c.src.draw(3));
	size_t rows = 1 + c.src.draw(6); std::vector<Row> want; Scalars doc;
	auto add = [&](const std::string& ascii) { for (unsigned char ch : ascii) doc.push_back(ch); };
	static const char32_t letters[] = { U'a', 0xE9, 0x416, 0x20AC, 0x1F600, U'z', 0x10FFFF };
	for (size_t i = 0; i < rows; i++) { Row r; Scalars nm; size_t l = 1 + c.src.draw(c.src.chance(1, 4) ? 120 : 10); for (size_t k = 0; k < l; k++) nm.push_back(letters[c.src.draw(7)]); r.name = refutf::enc8(nm); r.n = static_cast<int>(c.src.draw(100000)); want.push_back(r); }
	auto addScalars = [&](const std::string& u8) { Scalars t; refutf::dec8(u8, t); doc += t; };
	if (which == 0) { add("name,n\r\n"); for (auto& r : want) { addScalars(r.name); add("," + std::to_string(r.n) + "\r\n"); } }
	else if (which == 1) { add("["); for (size_t i = 0; i < want.size(); i++) { add(i ? ",{\"name\":\"" : "{\"name\":\""); addScalars(want[i].name); add("\",\"n\":" + std::to_string(want[i].n) + "}"); } add("]"); }
	else { add("<?xml version=\"1.0\"?><array>"); for (auto& r : want) { add("<object><name>"); addScalars(r.name); add("</name><n>" + std::to_string(r.n) + "</n></object>"); } add("</array>"); }
	const std::string bytes = (bom ? refutf::bom_bytes(enc) : std::string()) + refutf::enc_bytes(doc, enc);
	c.nontrivial = enc != refutf::U8 || !bom; c.describe(vf::cat("foreign ", which == 0 ? "csv " : which == 1 ? "json " : "xml ", refutf::enc_name(enc), bom ? "+bom" : "-bom", " rows=", rows, " bytes=", bytes.size(), " h=", vf::hash_bytes(bytes.data(), bytes.size())));
	// XML without BOM in UTF-16/32: pugixml auto-detects from '<'; JSON likewise (RFC 4627 heuristics); CSV by the library's DetectEncoding
	std::vector<Row> got; Cfg cfg; cfg.stream = true; cfg.streamKind = gen_stream_kind(c.src, false); cfg.chunk = 1 + c.src.draw(300);
	Outcome lo = which == 0 ? load<CsvArchive>(got, bytes, cfg) : which == 1 ? load<JsonArchive>(got, bytes, cfg) : load<XmlArchive>(got, bytes, cfg);
	const std::string d = vf::cat(which == 0 ? "csv " : which == 1 ? "json " : "xml ", refutf::enc_name(enc), bom ? "+bom" : "-bom", " ", bytes.size(), " bytes ", vf::hex(bytes.substr(0, 60)), " => ", lo.str(), " rows=", got.size());
	if (!lo.ok()) c.fail("a conforming encoded document is rejected", d);
	if (got.size() != want.size()) c.fail("number of rows differs", d);
	for (size_t i = 0; i < want.size(); i++) if (got[i].name != want[i].name || got[i].n != want[i].n) c.fail("loaded text differs from the text in the encoded document", vf::cat(d, " row ", i, " got ", vf::hex(got[i].name.substr(0, 40)), " want ", vf::hex(want[i].name.substr(0, 40))));
}

VF_PROPERTY(archives_written_stream, 2, "records with non-ASCII text saved through the CSV / JSON / XML stream entry point with streamOptions.encoding = any of the 5 encodings, writeBom on/off and compact or pretty-printed (indent char and width generated): the bytes in the stream are exactly the BOM of that encoding (iff requested) followed by the reference encoding of the document that the same save gives in memory; also when the stream already holds data; non-trivial = non-UTF-8 encoding or pretty-printed with BOM")
{
	const int enc = static_cast<int>(c.src.draw(5)); const bool bom = c.src.chance(2, 3); const int which = static_cast<int>(c.src.draw(3)); const bool pretty = which != 0 && c.src.coin();
	static const char32_t letters[] = { U'a', 0xE9, 0x416, 0x20AC, 0x1F600, U'z', 0x10FFFF, U'<', U'"', U',' };
	std::vector<Row> rows(1 + c.src.draw(5)); for (auto& r : rows) { Scalars nm; size_t l = 1 + c.src.draw(c.src.chance(1, 4) ? 120 : 10); for (size_t k = 0; k < l; k++) nm.push_back(letters[c.src.draw(10)]); r.name = refutf::enc8(nm); r.n = static_cast<int>(c.src.draw(100000)); }
	BitSerializer::SerializationOptions opt; opt.streamOptions.encoding = static_cast<UtfType>(enc); opt.streamOptions.writeBom = bom; opt.formatOptions.enableFormat = pretty; opt.formatOptions.paddingChar = c.src.coin() ? ' ' : '\t'; opt.formatOptions.paddingCharNum = static_cast<uint16_t>(1 + c.src.draw(4));
	const std::string before = c.src.chance(1, 4) ? std::string("earlier\n") : std::string();
	c.nontrivial = enc != refutf::U8 || (pretty && bom); c.label(vf::cat(which == 0 ? "csv " : which == 1 ? "json " : "xml ", pretty ? "pretty" : "compact", bom ? "+bom" : "-bom"));
	c.describe(vf::cat("written ", which == 0 ? "csv " : which == 1 ? "json " : "xml ", refutf::enc_name(enc), bom ? "+bom" : "-bom", pretty ? vf::cat(" pretty ", static_cast<int>(opt.formatOptions.paddingChar), "x", opt.formatOptions.paddingCharNum) : std::string(" compact"), " rows=", rows.size(), " before=", before.size(), " h=", vf::hash_bytes(rows[0].name.data(), rows[0].name.size())));
	std::string mem; std::ostringstream os; os << before;
	try {
		if (which == 0) { BitSerializer::SaveObject<CsvArchive>(rows, mem, opt); BitSerializer::SaveObject<CsvArchive>(rows, os, opt); }
		else if (which == 1) { BitSerializer::SaveObject<JsonArchive>(rows, mem, opt); BitSerializer::SaveObject<JsonArchive>(rows, os, opt); }
		else { BitSerializer::SaveObject<XmlArchive>(rows, mem, opt); BitSerializer::SaveObject<XmlArchive>(rows, os, opt); }
	}
	catch (const std::exception& e) { c.fail("saving valid text to an encoded stream fails", e.what()); }
	Scalars doc; if (!refutf::dec8(mem, doc)) c.fail("the document saved in memory is not valid UTF-8", vf::hex(mem.substr(0, 80)));
	const std::string want = before + (bom ? refutf::bom_bytes(enc) : std::string()) + refutf::enc_bytes(doc, enc), got = os.str();
	if (got != want) { size_t i = 0; while (i < got.size() && i < want.size() && got[i] == want[i]) ++i;
		c.fail("an archive's stream output is not BOM + the configured encoding of the document", vf::cat(which == 0 ? "csv " : which == 1 ? "json " : "xml ", refutf::enc_name(enc), bom ? "+bom" : "-bom", pretty ? " pretty" : " compact", " first difference at byte ", i, ": stream ", vf::hex(got.substr(i > 4 ? i - 4 : 0, 24)), " expected ", vf::hex(want.substr(i > 4 ? i - 4 : 0, 24)), " (", got.size(), " / ", want.size(), " bytes)")); }
}

int main(int argc, char** argv) {
	if (const char* e = refutf::selftest()) { fprintf(stderr, "ORACLE SELF-TEST FAILED: %s\n", e); return 2; }
	return vf::engine_main(argc, argv, "c13_encoded_streams");
}
