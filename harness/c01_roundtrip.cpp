// C01 — save then load reproduces the value, in every archive and output configuration; load-save-load is a fixed point.
// Oracle: the round trip itself (deep equality, floats bitwise) over typed models that instantiate the library's own templates.
// C18 — loading into a populated target equals loading into a fresh one — is decided by the same cases (prior value generated too).
// Build with -DC01_ARCH=<0 msgpack|1 json|2 xml|3 csv> and -DC01_GROUP=<0..2> (compile-time split only).
#ifdef C01_GROUP
#define MODEL_GROUP C01_GROUP
#endif
#include "common/model_types.h"

using namespace arch;
using namespace mdl;
namespace ch = std::chrono;

#ifndef C01_ARCH
#define C01_ARCH 0
#endif
#ifndef C01_GROUP
#define C01_GROUP 0
#endif

namespace {

#if C01_ARCH == 0
using A = MsgPackArchive; constexpr int ARCH = MSGPACK;
#elif C01_ARCH == 1
using A = JsonArchive; constexpr int ARCH = JSON;
#elif C01_ARCH == 2
using A = XmlArchive; constexpr int ARCH = XML;
#else
using A = CsvArchive; constexpr int ARCH = CSV;
#endif


// member position: the value under a key inside an object
template <class T> struct Holder { int before = 7; T v{}; int after = 9; template <class Ar> void Serialize(Ar& a) { a << KeyValue("before", before) << KeyValue("v", v) << KeyValue("after", after); } };

// XML cannot carry map keys that are not XML Names (recorded finding KF-44): integer / floating / date keys are not generated for XML.
template <class T> struct is_non_name_key_map : std::false_type {};
template <class K, class V> struct is_non_name_key_map<std::map<K, V>> : std::bool_constant<!std::is_same_v<K, std::string> && !std::is_same_v<K, std::wstring> && !std::is_same_v<K, std::u16string> && !std::is_enum_v<K>> {};
template <class K, class V> struct is_non_name_key_map<std::unordered_map<K, V>> : std::bool_constant<!std::is_same_v<K, std::string>> {};
template <> struct is_non_name_key_map<MapEnum> : std::true_type {};   // "Dark violet" contains a space

template <class T> struct is_unordered : std::false_type {};
template <class T> struct is_unordered<std::unordered_set<T>> : std::true_type {};
template <class T> struct is_unordered<std::unordered_multiset<T>> : std::true_type {};
template <class K, class V> struct is_unordered<std::unordered_map<K, V>> : std::true_type {};
template <class K, class V> struct is_unordered<std::unordered_multimap<K, V>> : std::true_type {};

template <class T> constexpr bool root_capable() {
	if constexpr (ARCH == XML) return false;          // XML has no keyless root scalar; arrays/objects at the root are exercised through the Holder
	else return true;
}

// one round trip under a configuration; `prior` (when given) is the previous content of the target (C18)
template <class T, bool AsRoot> const char* roundtrip(vf::Ctx& c, T& value, const T* prior, const Cfg& cfg, std::string& detail) {
	std::string bytes; Outcome so;
	if constexpr (AsRoot) so = save<A>(value, bytes, cfg);
	else { Holder<T> h; h.v = std::move(value); so = save<A>(h, bytes, cfg); value = std::move(h.v); }
	if (!so.ok()) { c.label("save-threw"); detail = "save: " + so.str(); return nullptr; }     // "or the save fails with an exception" (rate reported)
	detail = vf::cat(AsRoot ? "root " : "member ", cfg.str(), " doc=", ARCH == MSGPACK ? vf::hex(bytes.substr(0, 120)) : bytes.substr(0, 240));
	T loaded{}; Outcome lo; int before = 7, after = 9;
	if constexpr (AsRoot) { if (prior) { if constexpr (std::is_copy_assignable_v<T>) loaded = *prior; } lo = load<A>(loaded, bytes, cfg); }
	else { Holder<T> h; h.before = h.after = 0; if (prior) { if constexpr (std::is_copy_assignable_v<T>) h.v = *prior; } lo = load<A>(h, bytes, cfg); loaded = std::move(h.v); before = h.before; after = h.after; }
	if (!lo.ok()) { detail += " => load: " + lo.str(); return prior ? "document saved by the library cannot be loaded into a populated target" : "document saved by the library cannot be loaded"; }
	if (before != 7 || after != 9) { detail += " => neighbours changed"; return "neighbouring members changed in the round trip"; }
	if (!mdl::eq(loaded, value)) { detail += " => loaded " + mdl::show(loaded); return prior ? "loading into a populated target gives a different value than the saved one" : "loaded value differs from the saved one"; }
	// fixed point: save(loaded) must load to the same value again (and, for the binary format, give the same bytes)
	if constexpr (AsRoot) {
		std::string bytes2; Outcome s2 = save<A>(loaded, bytes2, cfg);
		if (!s2.ok()) { detail += " => re-save: " + s2.str(); return "re-saving a loaded value fails"; }
		T again{}; Outcome l2 = load<A>(again, bytes2, cfg); if (!l2.ok() || !mdl::eq(again, loaded)) { detail += " => second load differs"; return "load-save-load is not a fixed point"; }
		if (ARCH == MSGPACK && bytes2 != bytes && !is_unordered<T>::value) { detail += " => re-saved bytes " + vf::hex(bytes2.substr(0, 120)); return "re-saving a loaded value produces different bytes"; }
	}
	return nullptr;
}

// a prior value must not make the document "incomplete for the element schema" (an absent member legitimately keeps its old value, C03)
template <class T> void normalize_prior(const T&, T&) {}
inline void normalize_prior(const Derived& value, Derived& prior) { if (!value.hasExtra) prior.extra = 0; }
inline void normalize_prior(const std::shared_ptr<Derived>& value, std::shared_ptr<Derived>& prior) { if (value && prior && !value->hasExtra) prior->extra = 0; }

// history: state must not leak from an earlier (failing or succeeding) operation of the same thread into the next one
template <class Arch> void history(vf::Ctx& c) {
	if (!c.src.chance(1, 4)) return;
	c.label("after-another-operation");
	switch (c.src.draw(5)) {
	case 0: { std::vector<int> t; (void)capture([&] { LoadObject<Arch>(t, std::string("\x01garbage{[<,\"\xff")); }); break; }                       // failing load from memory
	case 1: { std::vector<int> t; (void)capture([&] { std::istringstream is(std::string("\xc1\xff{{<a", 7)); LoadObject<Arch>(t, is); }); break; }   // failing load from a stream
	case 2: { std::vector<double> v{ 1.5, std::nan(""), 2.5 }; std::string out; (void)capture([&] { SaveObject<Arch>(v, out); }); break; }              // JSON: fails (NaN); others: succeeds
	case 3: { std::vector<int> v{ 1, 2, 3 }; std::ostringstream os; os.setstate(std::ios::badbit); (void)capture([&] { SaveObject<Arch>(v, os); }); break; }   // output stream already failed
	default: { std::vector<std::string> v{ "previous", "document", std::string(300, 'p') }, w; std::string out; (void)capture([&] { SaveObject<Arch>(v, out); LoadObject<Arch>(w, out); }); }
	}
}

template <class T> void run_type(vf::Ctx& c, const char* tname, bool withPrior) {
	if constexpr (ARCH == XML && (is_non_name_key_map<T>::value || std::is_same_v<T, EmptyKey>)) { c.label("excluded:KF-44-xml-non-name-keys"); c.discard("KF-44"); }
	GenCtx g = GenCtx::forArch(ARCH);
	Cfg cfg = gen_cfg(c.src, ARCH);
	g.noNulChar = cfg.stream && !cfg.opt.streamOptions.writeBom;
	T value = gen<T>(c.src, g);
	const bool asRoot = root_capable<T>() && c.src.chance(1, 3);
	// recorded finding KF-34: a BOM-less UTF-16/32 JSON stream shorter than 4 bytes cannot be detected by the parser
	if (ARCH == JSON && cfg.stream && !cfg.opt.streamOptions.writeBom && cfg.opt.streamOptions.encoding != Convert::Utf::UtfType::Utf8 && asRoot) { c.label("excluded:KF-34-short-bomless-json"); cfg.opt.streamOptions.writeBom = true; }
	Features f; mdl::features(value, f);
	const bool nonDefaultCfg = cfg.stream || cfg.opt.formatOptions.enableFormat;
	c.nontrivial = f.any() && nonDefaultCfg;
	c.label(vf::cat("type=", tname)); if (cfg.stream) c.label(vf::cat("enc=", static_cast<int>(cfg.opt.streamOptions.encoding), cfg.opt.streamOptions.writeBom ? "+bom" : ""));
	std::optional<T> prior; if (withPrior) { GenCtx gp = g; gp.noEmptyContainers = false; gp.noNulls = false; prior.emplace(gen<T>(c.src, gp)); normalize_prior(value, *prior); }
	c.describe(vf::cat(arch_name(ARCH), " ", tname, " ", mdl::show(value), asRoot ? " root " : " member ", cfg.str(), withPrior ? " prior=" + mdl::show(*prior) : ""));
	history<A>(c);
	std::string d; const char* e = nullptr;
	if constexpr (root_capable<T>()) { e = asRoot ? roundtrip<T, true>(c, value, prior ? &*prior : nullptr, cfg, d) : roundtrip<T, false>(c, value, prior ? &*prior : nullptr, cfg, d); }
	else e = roundtrip<T, false>(c, value, prior ? &*prior : nullptr, cfg, d);
	if (e) c.fail(e, vf::cat(tname, " ", mdl::show(value), withPrior ? " prior=" + mdl::show(*prior) : "", " | ", d));
}

} // namespace

#if C01_ARCH != 3
VF_PROPERTY(roundtrip_typed, 5, "typed model value (fundamental types, 4 string widths, enum, classes with base class / external serialization, chrono, every std container, optional, smart pointers, tuple, pair, nested combinations) saved at root or as an object member under a generated configuration (memory / stringstream / short-read stream, 5 encodings, BOM, pretty print with padding) and loaded into a fresh object: equal value, neighbours intact, load-save-load fixed point; non-trivial = value has non-ASCII text, empty or nested container, numeric extreme, null or long float AND the configuration is not the default")
{
	const size_t idx = group_first[C01_GROUP] + c.src.draw(group_first[C01_GROUP + 1] - group_first[C01_GROUP]);
	with_model(idx, [&](auto tag, const char* tname) { using T = typename decltype(tag)::type; run_type<T>(c, tname, false); });
}
VF_PROPERTY(reload_populated, 3, "(C18) the same round trip into a target that already holds an independent random value of the same type (longer, shorter, empty, other keys, null): the result must equal the saved value - no stale element survives, nothing loaded is lost; non-trivial as above")
{
	const size_t idx = group_first[C01_GROUP] + c.src.draw(group_first[C01_GROUP + 1] - group_first[C01_GROUP]);
	with_model(idx, [&](auto tag, const char* tname) { using T = typename decltype(tag)::type; if constexpr (std::is_copy_assignable_v<T>) run_type<T>(c, tname, true); else c.discard("move-only"); });
}
#else
// ---- CSV: a flat array of flat objects --------------------------------------------------------------------------------------------------
struct Row {
	bool b = false; int8_t i8 = 0; uint64_t u64 = 0; int64_t i64 = 0; double d = 0; float f = 0; std::string s; std::u16string s16; std::wstring ws; Color col = Color::Red; TpMs tp; ch::seconds dur{}; std::optional<int> oi; std::optional<std::string> os;
	template <class Ar> void Serialize(Ar& a) { a << KeyValue("b", b) << KeyValue("i8", i8) << KeyValue("u64", u64) << KeyValue("i64", i64) << KeyValue("d", d) << KeyValue("f", f) << KeyValue("s", s) << KeyValue("s16", s16) << KeyValue("ws", ws) << KeyValue("col", col) << KeyValue("tp", tp) << KeyValue("dur", dur) << KeyValue("oi", oi) << KeyValue("os", os); }
};
std::string row_diff(const Row& a, const Row& b) {
	std::string r;
	if (a.b != b.b) r += " b"; if (a.i8 != b.i8) r += " i8"; if (a.u64 != b.u64) r += " u64"; if (a.i64 != b.i64) r += " i64"; if (!mdl::eq(a.d, b.d)) r += vf::cat(" d(", mdl::show(a.d), "!=", mdl::show(b.d), ")"); if (!mdl::eq(a.f, b.f)) r += vf::cat(" f(", mdl::show(a.f), "!=", mdl::show(b.f), ")");
	if (a.s != b.s) r += vf::cat(" s(", mdl::show(a.s), "!=", mdl::show(b.s), ")"); if (a.s16 != b.s16) r += " s16"; if (a.ws != b.ws) r += " ws"; if (a.col != b.col) r += " col"; if (a.tp != b.tp) r += " tp"; if (a.dur != b.dur) r += " dur";
	if (a.oi != b.oi) r += " oi"; if (a.os != b.os) r += vf::cat(" os(", a.os ? mdl::show(*a.os) : "null", "!=", b.os ? mdl::show(*b.os) : "null", ")");
	return r;
}
VF_PROPERTY(roundtrip_csv, 5, "vector of flat rows (bool, integers, double, float, 3 string widths with any Unicode incl. separators, quotes, CR, LF, enum, time point, duration, optionals) x 5 separators x memory/stream x 5 encodings x BOM: equal rows after loading into a fresh vector and into a populated one; non-trivial = some cell needs quoting or is non-ASCII, and the configuration is not the default")
{
	GenCtx g = GenCtx::forArch(CSV); Cfg cfg = gen_cfg(c.src, CSV); g.noNulChar = cfg.stream && !cfg.opt.streamOptions.writeBom;
	if (c.src.chance(1, 4)) {   // history: an earlier failing or succeeding operation of the same thread must leave nothing behind
		c.label("after-another-operation");
		switch (c.src.draw(3)) {
		case 0: { std::vector<Row> t; (void)capture([&] { LoadObject<CsvArchive>(t, std::string("b,i8\r\n\"unterminated,1\r\nx")); }); break; }
		case 1: { std::vector<Row> t; (void)capture([&] { std::istringstream is("a,b\n1\n2,3,4\n"); LoadObject<CsvArchive>(t, is); }); break; }
		default: { std::vector<Row> v(2), w; v[0].s = std::string(300, 'p'); std::string out; (void)capture([&] { SaveObject<CsvArchive>(v, out); LoadObject<CsvArchive>(w, out); }); }
		}
	}
	size_t n = 1 + c.src.len(5); std::vector<Row> rows(n); bool special = false;
	for (auto& r : rows) { r.b = c.src.coin(); r.i8 = c.src.integer<int8_t>(); r.u64 = c.src.integer<uint64_t>(); r.i64 = c.src.integer<int64_t>(); r.d = gen<double>(c.src, g); r.f = gen<float>(c.src, g); r.s = gen<std::string>(c.src, g); r.s16 = gen<std::u16string>(c.src, g); r.ws = gen<std::wstring>(c.src, g);
		r.col = gen<Color>(c.src, g); r.tp = gen<TpMs>(c.src, g); r.dur = gen<ch::seconds>(c.src, g); r.oi = gen<std::optional<int>>(c.src, g); r.os = gen<std::optional<std::string>>(c.src, g);
		// a CSV cell cannot distinguish an empty string from null (format limit): optional<string> is generated present and non-empty
		if (!r.os || r.os->empty()) r.os = "x";
		for (unsigned char ch2 : r.s) if (ch2 >= 0x80 || ch2 == '"' || ch2 == '\n' || ch2 == '\r' || ch2 == static_cast<unsigned char>(cfg.opt.valuesSeparator)) special = true; }
	c.nontrivial = special && (cfg.stream || cfg.opt.valuesSeparator != ',');
	c.describe(vf::cat("csv rows=", n, " ", cfg.str(), " s0=", mdl::show(rows[0].s), " d0=", rows[0].d));
	std::string bytes; Outcome so = save<A>(rows, bytes, cfg);
	if (!so.ok()) { if (std::isfinite(rows[0].d)) c.fail("saving rows failed", so.str()); c.label("save-threw"); return; }
	const bool withPrior = c.src.coin(); std::vector<Row> loaded; if (withPrior) { loaded.resize(c.src.draw(8)); for (auto& r : loaded) { r.s = "stale"; r.i8 = 5; r.oi = 77; r.os = "stale"; } }
	Outcome lo = load<A>(loaded, bytes, cfg);
	const std::string d = vf::cat(cfg.str(), withPrior ? " populated-target" : "", " doc=", bytes.substr(0, 300));
	if (!lo.ok()) c.fail("document saved by the library cannot be loaded", d + " => " + lo.str());
	if (loaded.size() != rows.size()) c.fail("number of rows differs after the round trip", vf::cat(d, " => ", loaded.size(), " rows"));
	for (size_t i = 0; i < rows.size(); i++) { const std::string df = row_diff(loaded[i], rows[i]); if (!df.empty()) c.fail(withPrior ? "loading into a populated target gives a different value than the saved one" : "loaded value differs from the saved one", vf::cat(d, " row ", i, " differs in:", df)); }
}
#endif

VF_MAIN("c01_roundtrip")
