// libFuzzer target (C02): arbitrary strings for the string conversion functions, in four character widths.
// Oracle: Convert::To<T>(text) returns or throws a std::exception; when it returns, printing the value and parsing it again gives the
// same value (print / parse fixed point) - so a parser that accepts garbage into an inconsistent value is caught, not only crashes.
// Non-trivial = the conversion succeeded, or the text contains a digit (it got beyond blank skipping / sign handling).
#include <chrono>
#include <ctime>
#include <memory>
#include "bitserializer/convert.h"
#include "bitserializer/types/std/chrono.h"
#include "fuzz_common.h"
using namespace BitSerializer; using namespace std::chrono;
namespace { enum class FzColor { Red, Green, Blue, DarkViolet }; }
REGISTER_ENUM(FzColor, { { FzColor::Red, "Red" }, { FzColor::Green, "Green" }, { FzColor::Blue, "Blue" }, { FzColor::DarkViolet, "Dark violet" } })
namespace {
bool g_ok = false;
template <class T, class S> void tryTo(const S& s) { try { auto v = Convert::To<T>(s); (void)v; g_ok = true; } catch (const std::exception&) { } }
template <class T> bool same(const T& a, const T& b) { if constexpr (std::is_floating_point_v<T>) return memcmp(&a, &b, sizeof(T)) == 0 || (a != a && b != b) || (a == 0 && b == 0); else return a == b; }
template <class T> struct is_tp : std::false_type {}; template <class C, class D> struct is_tp<time_point<C, D>> : std::true_type {};
const char* g_excl = nullptr;
template <class T, class S> void roundTrip(const S& s) {
	T v; try { v = Convert::To<T>(s); } catch (const std::exception&) { return; }
	g_ok = true; std::string txt; T w;
	if constexpr (is_tp<T>::value) {   // the recorded findings of the chrono printer / parser are excluded by construction and counted (witnessed in C14 / C15)
		using D = typename T::duration; using R = typename D::rep; const __int128 cnt = v.time_since_epoch().count();
		const __int128 ticksPerDay = static_cast<__int128>(86400) * D::period::den / D::period::num;
		if (cnt - static_cast<__int128>(std::numeric_limits<R>::min()) < (ticksPerDay > 0 ? ticksPerDay : 1)) { g_excl = "excluded:KF-27-first-day-of-the-range"; return; }
		if (D::period::num == 86400 && sizeof(R) == 8 && cnt + 719468 >= (static_cast<__int128>(INT64_MAX) / 146097 + 1) * 146097) { g_excl = "excluded:KF-33-last-era-of-days"; return; }
	}
	try { txt = Convert::ToString(v); } catch (const std::exception&) { return; }   // e.g. a time point that is not printable (reported elsewhere: C14)
	try { w = Convert::To<T>(txt); } catch (const std::exception&) { vfz::fail("a value accepted by Convert::To prints to text that Convert::To rejects"); }
	if (!same(v, w)) vfz::fail("a value accepted by Convert::To does not survive printing and parsing again");
}
using days_t = duration<int64_t, std::ratio<86400>>;
template <class S> void all(const S& s, uint8_t sel) {
	switch (sel % 34) {
	case 0: roundTrip<int8_t>(s); break; case 1: roundTrip<uint8_t>(s); break; case 2: roundTrip<int16_t>(s); break; case 3: roundTrip<uint16_t>(s); break; case 4: roundTrip<int32_t>(s); break; case 5: roundTrip<uint32_t>(s); break; case 6: roundTrip<int64_t>(s); break; case 7: roundTrip<uint64_t>(s); break;
	case 8: roundTrip<float>(s); break; case 9: roundTrip<double>(s); break; case 10: roundTrip<bool>(s); break; case 11: roundTrip<FzColor>(s); break;
	case 12: roundTrip<time_point<system_clock, nanoseconds>>(s); break; case 13: roundTrip<time_point<system_clock, microseconds>>(s); break; case 14: roundTrip<time_point<system_clock, milliseconds>>(s); break; case 15: roundTrip<time_point<system_clock, seconds>>(s); break;
	case 16: roundTrip<time_point<system_clock, minutes>>(s); break; case 17: roundTrip<time_point<system_clock, hours>>(s); break; case 18: roundTrip<time_point<system_clock, days_t>>(s); break;
	case 19: roundTrip<nanoseconds>(s); break; case 20: roundTrip<microseconds>(s); break; case 21: roundTrip<milliseconds>(s); break; case 22: roundTrip<seconds>(s); break; case 23: roundTrip<minutes>(s); break; case 24: roundTrip<duration<int32_t, std::ratio<3600>>>(s); break; case 25: roundTrip<days_t>(s); break;
	case 26: tryTo<CRawTime>(s); break; case 27: tryTo<tm>(s); break; case 28: tryTo<long double>(s); break; case 29: tryTo<char>(s); break; case 30: tryTo<std::string>(s); break; case 31: tryTo<std::u16string>(s); break; case 32: tryTo<std::u32string>(s); break;
	default: tryTo<std::wstring>(s); break;
	}
}
}
void vf_write_seeds(const std::string& dir) {
	const char* texts[] = { "0", "-128", "255", "65535", "-2147483648", "18446744073709551615", "1.5", "-3.4028235e38", "1.7976931348623157e308", "true", "false", "Red", "Dark violet",
		"2024-02-29T23:59:59.123456789Z", "1969-12-31T23:59:59Z", "2262-04-11T23:47:16.854775807Z", "1677-09-21T00:12:43Z", "P1DT2H3M4.5S", "-PT0.000000001S", "P106751DT23H47M16.854775807S", "PT1H", "P1W", "2024-01-01", "  42 ", "+7", "0x1F", "1e5", "nan", "inf", "-0",
		"P9223372036854775807D", "-P9223372036854775808D", "PT16450570252850764905M", "PT9223372036854775807S", "-PT9223372036854775808S", "P106751991167300DT15H30M7S", "+292277026596-12-04T15:30:07Z", "-292277022657-01-27T08:29:52Z", "24297872682070010-04-04T00:00:00Z", "-9223372036854775807-01-27T08:29:52Z", "+1052197288658909-10-10T07:00:00Z", "9223372036854775807", "-9223372036854775808", "1e400", "4.9e-324", "PT2562047788015215H", "-PT153722867280912930M", "P15250284452W", "12e+", "7E-", "1e", "1.", "12e", "1e+5", "0e", "1E+" };
	int n = 0; for (const char* t : texts) for (int sel = 0; sel < 34; sel += (n % 3) + 1) { std::string b; b.push_back(static_cast<char>(sel)); b.push_back(0); b += t; vfz::write_seed(dir, "seed" + std::to_string(n++), b); }
	for (const char* t : { "12345", "2024-02-29T23:59:59Z", "PT5S" }) { for (int w = 1; w < 3; w++) { std::string b; b.push_back(static_cast<char>(n % 34)); b.push_back(static_cast<char>(w)); for (const char* p = t; *p; p++) { b.push_back(*p); for (int k = 1; k < (w == 1 ? 2 : 4); k++) b.push_back(0); } vfz::write_seed(dir, "wseed" + std::to_string(n++), b); } }
}
extern "C" int LLVMFuzzerTestOneInput(const uint8_t* data, size_t size) {
	if (size < 2) return 0; const uint8_t sel = data[0], w = data[1] % 4; const uint8_t* p = data + 2; const size_t n = size - 2; g_ok = false; g_excl = nullptr; bool digit = false; for (size_t i = 0; i < n; i++) if (p[i] >= '0' && p[i] <= '9') digit = true;
	try {
		// the text is also handed over as a view into an exact-size heap block (not NUL-terminated), so that a read one character past the end is an ASan report
		if (w == 0) { std::string s(reinterpret_cast<const char*>(p), n); if ((sel & 0x80) || sel % 34 == 28) all(s, sel); /* long double: libstdc++ 12's from_chars calls strlen on its input (toolchain defect, not the library's), keep it NUL-terminated */ else { std::unique_ptr<char[]> b(new char[n ? n : 1]); memcpy(b.get(), p, n); all(std::string_view(b.get(), n), sel); } }
		else if (w == 1) { std::u16string s(n / 2, 0); memcpy(s.data(), p, n / 2 * 2); if (sel & 0x80) all(s, sel); else { std::unique_ptr<char16_t[]> b(new char16_t[n / 2 ? n / 2 : 1]); memcpy(b.get(), p, n / 2 * 2); all(std::u16string_view(b.get(), n / 2), sel); } }
		else if (w == 2) { std::u32string s(n / 4, 0); memcpy(s.data(), p, n / 4 * 4); if (sel & 0x80) all(s, sel); else { std::unique_ptr<char32_t[]> b(new char32_t[n / 4 ? n / 4 : 1]); memcpy(b.get(), p, n / 4 * 4); all(std::u32string_view(b.get(), n / 4), sel); } }
		else { std::wstring s(n / 4, 0); memcpy(s.data(), p, n / 4 * 4); all(s, sel); }
	} catch (const std::exception&) { } catch (...) { vfz::fail("something that is not derived from std::exception escapes Convert::To"); }
	static const char* wl[] = { "char", "char16_t", "char32_t", "wchar_t" };
	vfz::note(data, size, g_ok || digit, g_excl ? g_excl : g_ok ? "converted" : wl[w]);
	return 0;
}
