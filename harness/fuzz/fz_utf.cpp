// libFuzzer target (C02): arbitrary code-unit sequences for every UTF decoder / encoder / transcoder and both error policies.
// Oracle: terminates, no sanitizer report, the returned iterator stays inside the input, and with the Skip policy the output is
// well-formed in the target encoding (checked with an independent validator).  Non-trivial = the input is ill-formed or longer than 3 units.
#include "bitserializer/convert.h"
#include "../ref/ref_utf.h"
#include "fuzz_common.h"
using namespace BitSerializer; using namespace BitSerializer::Convert::Utf;
namespace {
template <class T> bool well_formed(const std::basic_string<T>& s) {
	if constexpr (sizeof(T) == 1) return refutf::valid8(std::string(s.begin(), s.end()));
	else if constexpr (sizeof(T) == 2) return refutf::valid16(std::u16string(s.begin(), s.end()));
	else { for (auto c : s) if (!refutf::is_scalar(static_cast<uint32_t>(c))) return false; return true; }
}
bool g_illformed = false;
template <class S, class T> void one(const std::basic_string<S>& in, UtfEncodingErrorPolicy pol, int markKind, int via) {
	const T markBuf[] = { T('?'), T('!'), 0 }; const T* mark = markKind == 0 ? BitSerializer::Convert::Utf::Detail::GetDefaultErrorMark<T>() : markKind == 1 ? markBuf : markBuf + 2;
	std::basic_string<T> out; out.assign(3, T('p')); size_t itPos = 0; UtfEncodingErrorCode code;
	if (via == 0) { std::basic_string_view<S> sv(in); auto r = Transcode(sv, out, pol, mark); code = r.ErrorCode; itPos = static_cast<size_t>(r.Iterator - sv.cbegin()); }
	else if (via == 1) {
		if constexpr (sizeof(S) == 1) { auto r = Utf8::Decode(in.cbegin(), in.cend(), out, pol, mark); code = r.ErrorCode; itPos = static_cast<size_t>(r.Iterator - in.cbegin()); }
		else if constexpr (sizeof(S) == 2) { auto r = Utf16Le::Decode(in.cbegin(), in.cend(), out, pol, mark); code = r.ErrorCode; itPos = static_cast<size_t>(r.Iterator - in.cbegin()); }
		else { auto r = Utf32Le::Decode(in.cbegin(), in.cend(), out, pol, mark); code = r.ErrorCode; itPos = static_cast<size_t>(r.Iterator - in.cbegin()); }
	}
	else if (via == 2) {
		if constexpr (sizeof(S) == 2) { auto r = Utf16Be::Decode(in.cbegin(), in.cend(), out, pol, mark); code = r.ErrorCode; itPos = static_cast<size_t>(r.Iterator - in.cbegin()); }
		else if constexpr (sizeof(S) == 4) { auto r = Utf32Be::Decode(in.cbegin(), in.cend(), out, pol, mark); code = r.ErrorCode; itPos = static_cast<size_t>(r.Iterator - in.cbegin()); }
		else { auto r = Utf8::Decode(in.cbegin(), in.cend(), out, pol, mark); code = r.ErrorCode; itPos = static_cast<size_t>(r.Iterator - in.cbegin()); }
	}
	else {
		if constexpr (sizeof(T) == 1) { auto r = Utf8::Encode(in.cbegin(), in.cend(), out, pol, mark); code = r.ErrorCode; itPos = static_cast<size_t>(r.Iterator - in.cbegin()); }
		else if constexpr (sizeof(T) == 2) { auto r = Utf16Le::Encode(in.cbegin(), in.cend(), out, pol, mark); code = r.ErrorCode; itPos = static_cast<size_t>(r.Iterator - in.cbegin()); }
		else { auto r = Utf32Le::Encode(in.cbegin(), in.cend(), out, pol, mark); code = r.ErrorCode; itPos = static_cast<size_t>(r.Iterator - in.cbegin()); }
	}
	if (itPos > in.size()) vfz::fail("a UTF converter returns an iterator outside its input");
	if (code != UtfEncodingErrorCode::Success) g_illformed = true;
	if (out.size() < 3 || out[0] != T('p') || out[1] != T('p') || out[2] != T('p')) vfz::fail("a UTF converter overwrites the existing content of its output string");
	if (via != 2 && via != 3 && pol == UtfEncodingErrorPolicy::Skip && markKind != 1) {   // native-order result of a skipping conversion: well-formed (big-endian decoders read swapped units; Encode takes native input)
		if (code == UtfEncodingErrorCode::Success && !well_formed(out)) vfz::fail("a UTF converter with the Skip policy produces ill-formed output");
	}
}
template <class S> void from(const std::basic_string<S>& in, uint8_t cfg) {
	const auto pol = (cfg & 1) ? UtfEncodingErrorPolicy::Skip : UtfEncodingErrorPolicy::ThrowError; const int mark = (cfg >> 1) % 3; const int via = (cfg >> 3) % 4;
	const bool second = (cfg >> 5) & 1;   // one of the two other widths
	if constexpr (sizeof(S) == 1) { if (second) one<S, char32_t>(in, pol, mark, via); else one<S, char16_t>(in, pol, mark, via); }
	else if constexpr (sizeof(S) == 2) { if (second) one<S, char32_t>(in, pol, mark, via); else one<S, char>(in, pol, mark, via); }
	else { if (second) one<S, char16_t>(in, pol, mark, via); else one<S, char>(in, pol, mark, via); }
	if (cfg & 0x80) { try { if constexpr (sizeof(S) == 1) { auto x = Convert::To<std::u16string>(in); (void)x; auto y = Convert::To<std::u32string>(in); (void)y; } else { auto x = Convert::To<std::string>(in); (void)x; } } catch (const std::exception&) { } }
}
}
void vf_write_seeds(const std::string& dir) {
	const char* t8[] = { "abc", "\xD0\x96\xE2\x82\xAC\xF0\x9F\x98\x80", "a\xC3", "\xED\xA0\x80", "\xF4\x90\x80\x80", "\xC0\xAF", "x\xF0\x9F\x98" }; int n = 0;
	for (const char* t : t8) for (int cfg : { 0, 1, 3, 9, 33, 65, 73, 129 }) { std::string b; b.push_back(0); b.push_back(static_cast<char>(cfg)); b += t; vfz::write_seed(dir, "s8_" + std::to_string(n++), b); }
	const char16_t t16[][4] = { { 0x41, 0x416, 0x20AC, 0 }, { 0xD83D, 0xDE00, 0x41, 0 }, { 0xD83D, 0x41, 0, 0 }, { 0xDE00, 0x41, 0, 0 } };
	for (auto& t : t16) for (int cfg : { 0, 1, 17, 33, 65, 129 }) { std::string b; b.push_back(1); b.push_back(static_cast<char>(cfg)); for (int i = 0; i < 4 && t[i]; i++) { b.push_back(static_cast<char>(t[i] & 0xFF)); b.push_back(static_cast<char>(t[i] >> 8)); } vfz::write_seed(dir, "s16_" + std::to_string(n++), b); }
	const char32_t t32[][3] = { { 0x41, 0x1F600, 0 }, { 0x110000, 0x41, 0 }, { 0xD800, 0x41, 0 } };
	for (auto& t : t32) for (int cfg : { 0, 1, 17, 33, 65 }) { std::string b; b.push_back(2); b.push_back(static_cast<char>(cfg)); for (int i = 0; i < 3 && t[i]; i++) for (int k = 0; k < 4; k++) b.push_back(static_cast<char>((t[i] >> (8 * k)) & 0xFF)); vfz::write_seed(dir, "s32_" + std::to_string(n++), b); }
}
extern "C" int LLVMFuzzerTestOneInput(const uint8_t* data, size_t size) {
	if (size < 2) return 0; const uint8_t w = data[0] % 3, cfg = data[1]; const uint8_t* p = data + 2; const size_t n = size - 2; g_illformed = false; size_t units = 0;
	try {
		if (w == 0) { std::string s(reinterpret_cast<const char*>(p), n); units = s.size(); from(s, cfg); }
		else if (w == 1) { std::u16string s(n / 2, 0); memcpy(s.data(), p, n / 2 * 2); units = s.size(); from(s, cfg); }
		else { std::u32string s(n / 4, 0); memcpy(s.data(), p, n / 4 * 4); units = s.size(); from(s, cfg); }
	} catch (const std::exception&) { } catch (...) { vfz::fail("something that is not derived from std::exception escapes a UTF converter"); }
	vfz::note(data, size, g_illformed || units > 3, g_illformed ? "ill-formed" : "well-formed");
	return 0;
}
