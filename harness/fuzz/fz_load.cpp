// libFuzzer target (C02): arbitrary bytes as a document for LoadObject<FZ_ARCH> into a target type chosen by the first byte,
// policies and medium (memory / istringstream / short-read / non-seekable streambuf) chosen by the second byte.
// Oracle: the call returns or throws something derived from std::exception; ASan/UBSan clean; single allocations bounded
// (-malloc_limit_mb), per-input time bounded (-timeout).  Non-trivial = the document got past the syntax level: the load
// returned normally, or failed with something other than a parsing error (mismatch, overflow, out of range, validation, UTF).
#include "../common/dyn.h"
#include "bitserializer/types/std/vector.h"
#include "bitserializer/types/std/map.h"
#include "bitserializer/types/std/optional.h"
#include "bitserializer/types/std/chrono.h"
#include "bitserializer/types/std/tuple.h"
#include "bitserializer/types/std/array.h"
#include "bitserializer/types/std/pair.h"
#include "bitserializer/types/std/memory.h"
#include "bitserializer/types/std/set.h"
#include "bitserializer/types/std/list.h"
#include "bitserializer/types/std/deque.h"
#include "bitserializer/types/std/bitset.h"
#include "fuzz_common.h"
#include "../common/kf61.h"

#ifndef FZ_ARCH
#define FZ_ARCH 0
#endif
using namespace arch;
using refmp::Val;
using A = std::conditional_t<FZ_ARCH == MSGPACK, MsgPackArchive, std::conditional_t<FZ_ARCH == JSON, JsonArchive, std::conditional_t<FZ_ARCH == XML, XmlArchive, CsvArchive>>>;

namespace {
enum class FzColor { Red, Green, Blue };
}
REGISTER_ENUM(FzColor, { { FzColor::Red, "Red" }, { FzColor::Green, "Green" }, { FzColor::Blue, "Blue" } })
namespace {
using TimeNs = std::chrono::system_clock::time_point;
using TimeS = std::chrono::time_point<std::chrono::system_clock, std::chrono::seconds>;
struct In { int q = 0; std::string t; std::optional<double> od;
	template <class Ar> void Serialize(Ar& a) { a << KeyValue("q", q, Required()) << KeyValue("t", t, MaxSize(16)) << KeyValue("od", od); } };
struct Cls { int64_t a = 0; uint8_t b = 0; std::string s; std::vector<int> v; In in; std::vector<In> arr; std::map<std::string, int> m; TimeNs tp{}; std::vector<uint8_t> bin; std::unique_ptr<In> p; float f = 0; bool flag = false; FzColor col = FzColor::Red; std::u16string w; std::chrono::seconds dur{}; std::pair<int, std::string> pr; std::optional<std::vector<std::string>> ov; std::array<int16_t, 3> fixed{};
	template <class Ar> void Serialize(Ar& ar) { ar << KeyValue("a", a, Range<int64_t>(-1000, 1000000)) << KeyValue("b", b) << KeyValue("s", s, Email()) << KeyValue("v", v, MinSize(1)) << KeyValue("in", in) << KeyValue("arr", arr) << KeyValue("m", m) << KeyValue("tp", tp) << KeyValue("bin", bin) << KeyValue("p", p) << KeyValue("f", f) << KeyValue("flag", flag) << KeyValue("col", col) << KeyValue("w", w) << KeyValue("dur", dur) << KeyValue("pr", pr) << KeyValue("ov", ov) << KeyValue("fixed", fixed); } };
struct Row { std::string a; int n = 0; double d = 0; bool f = false; std::optional<std::string> o; FzColor col = FzColor::Red; TimeS tp{};
	template <class Ar> void Serialize(Ar& ar) { ar << KeyValue("a", a) << KeyValue("n", n, Required()) << KeyValue("d", d) << KeyValue("f", f) << KeyValue("o", o) << KeyValue("col", col) << KeyValue("tp", tp); } };
struct RowPos { std::string a; int n = 0; template <class Ar> void Serialize(Ar& ar) { ar << KeyValue("n", n) << KeyValue("a", a) << KeyValue("missing", a); } };

template <class T> void load_into(T& t, const std::string& doc, uint8_t cfg, const SerializationOptions& o) {
	const int medium = (cfg >> 3) & 3; const size_t chunk = 1 + ((cfg >> 5) & 7) * 5;
	if (medium == 0) LoadObject<A>(t, doc, o);
	else if (medium == 1) { std::istringstream is(doc); LoadObject<A>(t, is, o); }
	else if (medium == 2) { ShortReadBuf b(doc, chunk); std::istream is(&b); LoadObject<A>(t, is, o); }
	else { NonSeekableBuf b(doc, chunk); std::istream is(&b); LoadObject<A>(t, is, o); }
}
template <class T> void load(const std::string& doc, uint8_t cfg, const SerializationOptions& o) { T t{}; load_into(t, doc, cfg, o); }
Val dyn_shape(int k) {
	using namespace refmp;
	switch (k) {
	case 0: return mkArr({ mkInt(-1), mkUInt(1), mkStr("s"), mkF64(0.5), mkBool(false) });
	case 1: return mkMap({ { mkStr("a"), mkInt(-1) }, { mkStr("b"), mkStr("s") }, { mkStr("c"), mkArr({ mkInt(-1), mkStr("x") }) }, { mkStr("d"), mkMap({ { mkStr("x"), mkF64(1.5) } }) } });
	case 2: return mkArr({ mkArr({ mkArr({ mkInt(-1), mkInt(-2) }), mkArr({ mkStr("x") }) }), mkArr({ mkMap({ { mkStr("k"), mkBool(true) } }) }) });
	default: return FZ_ARCH == MSGPACK ? mkMap({ { mkInt(-5), mkBin("b") }, { mkUInt(7), mkTs(1, 2) }, { mkF64(1.5), mkNil() }, { mkStr("s"), mkF32(0.5f) } }) : mkMap({ { mkStr("k1"), mkNil() }, { mkStr("k2"), mkF32(0.5f) } });
	}
}
constexpr int kSelCount = FZ_ARCH == CSV ? 5 : 30;

void dispatch(uint8_t sel, const std::string& doc, uint8_t cfg, const SerializationOptions& o) {
	if constexpr (FZ_ARCH == CSV) {
		switch (sel % kSelCount) {
		case 0: load<std::vector<Row>>(doc, cfg, o); break;
		case 1: load<std::vector<std::map<std::string, std::string>>>(doc, cfg, o); break;
		case 2: load<std::vector<RowPos>>(doc, cfg, o); break;
		case 3: load<std::list<Row>>(doc, cfg, o); break;
		default: load<std::vector<std::map<std::string, int>>>(doc, cfg, o); break;
		}
	} else {
		switch (sel % kSelCount) {
		case 0: load<Cls>(doc, cfg, o); break;
		case 1: load<std::vector<int>>(doc, cfg, o); break;
		case 2: load<std::vector<std::string>>(doc, cfg, o); break;
		case 3: load<std::map<std::string, std::vector<int>>>(doc, cfg, o); break;
		case 4: load<std::map<int, std::string>>(doc, cfg, o); break;
		case 5: load<std::vector<std::tuple<int, std::string, double>>>(doc, cfg, o); break;
		case 6: load<std::vector<std::array<int, 3>>>(doc, cfg, o); break;
		case 7: load<std::vector<uint8_t>>(doc, cfg, o); break;
		case 8: load<std::vector<In>>(doc, cfg, o); break;
		case 9: load<std::map<double, int>>(doc, cfg, o); break;
		case 10: load<std::map<TimeS, int>>(doc, cfg, o); break;
		case 11: load<std::vector<std::vector<uint8_t>>>(doc, cfg, o); break;
		case 12: load<std::vector<Cls>>(doc, cfg, o); break;
		case 13: load<std::map<std::string, Cls>>(doc, cfg, o); break;
		case 14: load<std::vector<std::optional<int64_t>>>(doc, cfg, o); break;
		case 15: load<std::set<std::string>>(doc, cfg, o); break;
		case 16: load<std::deque<double>>(doc, cfg, o); break;
		case 17: load<std::vector<bool>>(doc, cfg, o); break;
		case 18: load<std::vector<std::u16string>>(doc, cfg, o); break;
		case 19: load<std::vector<TimeNs>>(doc, cfg, o); break;
		case 20: load<std::vector<std::chrono::milliseconds>>(doc, cfg, o); break;
		case 21: if (cfg & 0x80) load<std::map<FzColor, std::vector<float>>>(doc, cfg, o); else if (cfg & 0x40) load<std::bitset<130>>(doc, cfg, o); else load<std::vector<std::bitset<9>>>(doc, cfg, o); break;
		case 22: case 23: case 24: case 25: { Val t = dyn_shape(sel % kSelCount - 22); dyn::Root r{ &t }; load_into(r, doc, cfg, o); break; }
		default:
			if constexpr (FZ_ARCH != XML) {   // the XML archive has no scalar root
				switch (sel % kSelCount) { case 26: load<int8_t>(doc, cfg, o); break; case 27: load<uint64_t>(doc, cfg, o); break; case 28: load<double>(doc, cfg, o); break; default: load<std::string>(doc, cfg, o); }
			} else load<std::vector<std::map<std::string, std::string>>>(doc, cfg, o);
		}
	}
}
template <class T> std::string doc_of(T v) { std::string out; SaveObject<A>(v, out); return out; }
}

void vf_write_seeds(const std::string& dir) {
	int n = 0; auto put = [&](uint8_t sel, uint8_t cfg, const std::string& doc) { std::string b; b.push_back(static_cast<char>(sel)); b.push_back(static_cast<char>(cfg)); b += doc; vfz::write_seed(dir, "seed" + std::to_string(n++), b); };
	if constexpr (FZ_ARCH == CSV) {
		std::vector<Row> rows(2); rows[0].a = "x,\"y\"\r\nz"; rows[0].n = 5; rows[0].o = "opt"; rows[1].a = "plain"; rows[1].d = 1.5; rows[1].col = FzColor::Blue;
		for (uint8_t cfg : { 0, 8, 16, 24, 7 }) put(0, cfg, doc_of(rows));
		put(1, 0, "a,b\r\n1,2\r\n3,4\r\n"); put(2, 0, "n,a\n1,x\n"); put(4, 1, "a;b\n1;x\n"); put(0, 8, std::string("\xEF\xBB\xBF") + "a,n\r\nx,1\r\n"); put(0, 8, std::string("\xFF\xFE" "a\0,\0n\0\n\0x\0,\0" "1\0\n\0", 18));
	} else {
		Cls c; c.a = 5; c.b = 200; c.s = "a@b.cd"; c.v = { 1, -2, 300000 }; c.in.q = 7; c.in.t = "tt"; c.in.od = 0.5; c.arr.resize(2); c.arr[1].q = -1; c.m = { { "k1", 1 }, { "k2", -2 } }; c.tp = TimeNs(std::chrono::nanoseconds(1700000000123456789ll)); c.bin = { 0, 1, 255 }; c.p = std::make_unique<In>(); c.f = 1.5f; c.flag = true; c.col = FzColor::Green; c.w = u"Жx"; c.dur = std::chrono::seconds(-5); c.pr = { 3, "three" }; c.ov = std::vector<std::string>{ "o1", "o2" }; c.fixed = { 1, -2, 3 };
		{ std::string d; SaveObject<A>(c, d); for (uint8_t cfg : { 0, 7, 8, 16, 24 + 32 }) put(0, cfg, d); std::vector<Cls> vc; vc.emplace_back(); { std::string dd; SaveObject<A>(vc, dd); put(12, 0, dd); } }
		put(1, 0, doc_of(std::vector<int>{ 1, -2, 70000 })); put(2, 0, doc_of(std::vector<std::string>{ "a", "", std::string(40, 'z') })); put(3, 0, doc_of(std::map<std::string, std::vector<int>>{ { "a", { 1 } }, { "b", { 2, 3 } } }));
		put(4, 0, doc_of(std::map<int, std::string>{ { -1, "m" }, { 70000, "p" } })); put(5, 0, doc_of(std::vector<std::tuple<int, std::string, double>>{ { 1, "x", 2.5 } })); put(6, 0, doc_of(std::vector<std::array<int, 3>>{ { 1, 2, 3 } })); put(8, 0, doc_of(std::vector<In>(2)));
		put(14, 0, doc_of(std::vector<std::optional<int64_t>>{ 1, std::nullopt, -5 })); put(15, 0, doc_of(std::set<std::string>{ "a", "b" })); put(16, 0, doc_of(std::deque<double>{ 0.5, -1e300 })); put(17, 0, doc_of(std::vector<bool>{ true, false })); put(19, 0, doc_of(std::vector<TimeNs>{ c.tp })); put(20, 0, doc_of(std::vector<std::chrono::milliseconds>{ std::chrono::milliseconds(1500) }));
		if constexpr (FZ_ARCH == MSGPACK) { put(7, 0, doc_of(std::vector<uint8_t>{ 1, 2, 3 })); put(9, 0, doc_of(std::map<double, int>{ { 0.5, 1 } })); put(10, 0, doc_of(std::map<TimeS, int>{ { TimeS(std::chrono::seconds(5)), 1 } })); put(11, 0, doc_of(std::vector<std::vector<uint8_t>>{ { 1 }, { 2, 3 } })); }
		{ std::bitset<130> bs; bs.set(1); bs.set(129); put(21, 0x40, doc_of(bs)); put(21, 0, doc_of(std::vector<std::bitset<9>>(2))); put(21, 0x40, doc_of(std::vector<bool>(300, true))); put(21, 0x80, doc_of(std::map<std::string, std::vector<float>>{ { "Red", { 1.5f } } })); }
		// numeric extremes into targets of another width / kind
		put(16, 0, doc_of(std::vector<uint64_t>{ UINT64_MAX, uint64_t(1) << 63, 9007199254740993ull })); put(16, 3, doc_of(std::vector<int64_t>{ INT64_MIN, INT64_MAX })); put(21, 0, doc_of(std::map<std::string, std::vector<uint64_t>>{ { "Red", { UINT64_MAX, 16777217 } }, { "Blue", { 0 } } }));
		put(1, 0, doc_of(std::vector<double>{ 1e300, -1e300, 2147483648.0, -0.5 })); put(1, 3, doc_of(std::vector<uint64_t>{ UINT64_MAX, 2147483648ull })); put(20, 0, doc_of(std::vector<int64_t>{ INT64_MIN, INT64_MAX, -1 })); put(19, 0, doc_of(std::vector<std::string>{ "+292277026596-12-04T15:30:07Z", "1677-09-21T00:12:43.145224192Z" }));
		for (int k = 0; k < 4; k++) { Val t = dyn_shape(k); std::string d; dyn::Root r{ &t }; try { SaveObject<A>(r, d); put(static_cast<uint8_t>(22 + k), 0, d); put(static_cast<uint8_t>(22 + ((k + 1) % 4)), 1, d); } catch (const std::exception&) { } }
		if constexpr (FZ_ARCH != XML) { put(26, 0, doc_of(int8_t(-5))); put(27, 0, doc_of(uint64_t(1) << 63)); put(28, 0, doc_of(1.5e300)); put(29, 0, doc_of(std::string("text \xD0\x96"))); }
	}
}

extern "C" int LLVMFuzzerTestOneInput(const uint8_t* data, size_t size) {
	if (size < 2) return 0;
	if (FZ_ARCH == JSON && kf61::literal(std::string(reinterpret_cast<const char*>(data) + 2, size - 2))) { vfz::note(data, size, false, "excluded:KF-61-json-literal-beyond-1e300"); return 0; }
	const uint8_t sel = data[0], cfg = data[1]; const std::string doc(reinterpret_cast<const char*>(data) + 2, size - 2);
	SerializationOptions o; o.mismatchedTypesPolicy = (cfg & 1) ? MismatchedTypesPolicy::Skip : MismatchedTypesPolicy::ThrowError; o.overflowNumberPolicy = (cfg & 2) ? OverflowNumberPolicy::Skip : OverflowNumberPolicy::ThrowError;
	o.utfEncodingErrorPolicy = (cfg & 4) ? Convert::Utf::UtfEncodingErrorPolicy::Skip : Convert::Utf::UtfEncodingErrorPolicy::ThrowError; if (FZ_ARCH == CSV && (sel & 0x80)) o.valuesSeparator = ';'; if (sel & 0x40) o.maxValidationErrors = 1;
	bool nontrivial = false; const char* label = "rejected-at-syntax-level";
	try { dispatch(sel & 0x3f, doc, cfg, o); nontrivial = true; label = "loaded"; }
	catch (const ValidationException&) { nontrivial = true; label = "validation"; }
	catch (const SerializationException& e) { if (e.GetErrorCode() != SerializationErrorCode::ParsingError) { nontrivial = true; label = "semantic-error"; } }
	catch (const std::exception&) { label = "std-exception"; }
	catch (...) { vfz::fail("something that is not derived from std::exception escapes LoadObject"); }
	vfz::note(data, size, nontrivial, label);
	return 0;
}
