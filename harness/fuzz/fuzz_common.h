// fuzz_common.h — shared scaffolding of the libFuzzer targets (C02): statistics with a stated non-triviality rule, oracle failures
// as traps with a "VF-ORACLE: <kind>" line, and a seed writer (VF_WRITE_SEEDS=<dir>: write valid seed documents and exit).
#pragma once
#include <cstdint>
#include <cstdio>
#include <cstdlib>
#include <cstring>
#include <string>
#include <vector>
#include <map>
#include <unordered_set>
#include <fstream>

namespace vfz {
struct Stats { uint64_t execs = 0, nontrivial = 0; std::unordered_set<uint64_t> distinct; std::map<std::string, uint64_t> labels; std::vector<std::string> samples; };
inline Stats& stats() { static Stats* s = new Stats; return *s; }   // never destroyed: read by the atexit handler
inline uint64_t fnv(const uint8_t* d, size_t n) { uint64_t h = 1469598103934665603ull; for (size_t i = 0; i < n; i++) { h ^= d[i]; h *= 1099511628211ull; } return h; }
inline std::string hex(const uint8_t* d, size_t n, size_t max = 48) { static const char* x = "0123456789abcdef"; std::string r; for (size_t i = 0; i < n && i < max; i++) { r.push_back(x[d[i] >> 4]); r.push_back(x[d[i] & 15]); } if (n > max) r += ".."; return r; }
inline void dump() {
	const char* p = getenv("VF_FUZZ_STATS"); if (!p) return; Stats& s = stats(); FILE* f = fopen(p, "w"); if (!f) return;
	fprintf(f, "{\"execs\":%llu,\"nontrivial\":%llu,\"distinct_nontrivial\":%llu,\"labels\":{", static_cast<unsigned long long>(s.execs), static_cast<unsigned long long>(s.nontrivial), static_cast<unsigned long long>(s.distinct.size()));
	bool first = true; for (auto& kv : s.labels) { fprintf(f, "%s\"%s\":%llu", first ? "" : ",", kv.first.c_str(), static_cast<unsigned long long>(kv.second)); first = false; }
	fprintf(f, "},\"samples\":["); first = true; for (auto& x : s.samples) { fprintf(f, "%s\"%s\"", first ? "" : ",", x.c_str()); first = false; } fprintf(f, "]}\n"); fclose(f);
}
inline void note(const uint8_t* data, size_t size, bool nontrivial, const char* label) {
	Stats& s = stats(); s.execs++; if (label) s.labels[label]++;
	if (nontrivial) { s.nontrivial++; if (s.distinct.size() < (1u << 22)) s.distinct.insert(fnv(data, size)); if (s.samples.size() < 6 && (s.nontrivial % 997) == 1) s.samples.push_back(std::string(label ? label : "") + " " + hex(data, size)); }
}
[[noreturn]] inline void fail(const char* kind) { fprintf(stderr, "\nVF-ORACLE: %s\n", kind); fflush(stderr); dump(); __builtin_trap(); }
inline void write_seed(const std::string& dir, const std::string& name, const std::string& bytes) { std::ofstream f(dir + "/" + name, std::ios::binary); f.write(bytes.data(), static_cast<std::streamsize>(bytes.size())); }
}
void vf_write_seeds(const std::string& dir);   // defined by every target
extern "C" int LLVMFuzzerInitialize(int*, char***) {
	if (const char* d = getenv("VF_WRITE_SEEDS")) { vf_write_seeds(d); exit(0); }
	atexit(vfz::dump); return 0;
}
