// libFuzzer target (C02): arbitrary bytes as an encoded text stream for DetectEncoding and CEncodedStreamReader<char|char16_t|char32_t, 32|256>
// over an istringstream or a short-read streambuf.  Oracle: the reader reaches the end of the stream within a number of ReadChunk calls
// bounded by the input size (no hang), no sanitizer report, and with the Skip policy what it delivers is well-formed in the target width.
// Non-trivial = more than one chunk, or a BOM, or a decoding error.
#include <sstream>
#include "bitserializer/convert.h"
#include "../common/arch.h"
#include "../ref/ref_utf.h"
#include "fuzz_common.h"
using namespace BitSerializer; using namespace BitSerializer::Convert::Utf;
namespace {
bool g_nt = false;
template <class C, size_t Chunk> void read_all(std::istream& is, UtfEncodingErrorPolicy pol, size_t bytes) {
	CEncodedStreamReader<C, Chunk> rd(is, pol); std::basic_string<C> out; size_t calls = 0; const size_t limit = bytes + 64; bool err = false;
	for (;;) {
		const auto res = rd.ReadChunk(out); ++calls;
		if (res == EncodedStreamReadResult::EndFile) { if (!rd.IsEnd()) vfz::fail("the encoded stream reader reports the end of file but IsEnd() is false"); break; }
		if (res == EncodedStreamReadResult::DecodeError) {   // with ThrowError the caller is expected to stop here (the error is persistent); with Skip there is nothing to report
			err = true; if (pol == UtfEncodingErrorPolicy::Skip) vfz::fail("the encoded stream reader reports a decoding error although the policy is Skip"); break; }
		if (calls > limit) vfz::fail("the encoded stream reader does not reach the end of the stream within a bounded number of ReadChunk calls");
	}
	if (calls > 2 || err) g_nt = true;
	if (pol == UtfEncodingErrorPolicy::Skip && !err) {
		bool ok = true; if constexpr (sizeof(C) == 1) ok = refutf::valid8(out); else if constexpr (sizeof(C) == 2) ok = refutf::valid16(out); else { for (auto c : out) if (!refutf::is_scalar(static_cast<uint32_t>(c))) ok = false; }
		const auto st = rd.GetSourceUtfType(); const size_t srcUnit = st == UtfType::Utf8 ? 1 : (st == UtfType::Utf16le || st == UtfType::Utf16be) ? 2 : 4;
		if (!ok && srcUnit != sizeof(C)) vfz::fail("the encoded stream reader with the Skip policy delivers ill-formed text");   // same-width sources are copied unvalidated by design (C12)
	}
}
}
void vf_write_seeds(const std::string& dir) {
	const refutf::Scalars text = { 'a', 0x416, 0x20AC, 0x1F600, '\n', 'z' }; int n = 0;
	for (int enc = 0; enc < 5; enc++) for (int bom = 0; bom < 2; bom++) for (int cfg : { 0, 1, 6, 0x15 }) { std::string body; for (int rep = 0; rep < (cfg & 4 ? 30 : 1); rep++) body += refutf::enc_bytes(text, enc); std::string b; b.push_back(static_cast<char>(cfg)); b.push_back(7); b += (bom ? refutf::bom_bytes(enc) : std::string()) + body; vfz::write_seed(dir, "seed" + std::to_string(n++), b); }
}
extern "C" int LLVMFuzzerTestOneInput(const uint8_t* data, size_t size) {
	if (size < 2) return 0; const uint8_t cfg = data[0]; const size_t piece = 1 + data[1] % 64; const std::string bytes(reinterpret_cast<const char*>(data) + 2, size - 2); g_nt = false;
	const auto pol = (cfg & 1) ? UtfEncodingErrorPolicy::Skip : UtfEncodingErrorPolicy::ThrowError;
	try {
		size_t off = 0; const UtfType t = DetectEncoding(std::string_view(bytes), off); if (off > bytes.size() || off > 4) vfz::fail("DetectEncoding returns a data offset outside the input"); if (off) g_nt = true; (void)t;
		{ std::istringstream is(bytes); DetectEncoding(is, (cfg & 2) != 0); }
		arch::ShortReadBuf sb(bytes, piece); std::istringstream iss(bytes); std::istream sis(&sb); std::istream& is = (cfg & 8) ? sis : static_cast<std::istream&>(iss);
		switch ((cfg >> 4) % 6) { case 0: read_all<char, 32>(is, pol, bytes.size()); break; case 1: read_all<char, 256>(is, pol, bytes.size()); break; case 2: read_all<char16_t, 32>(is, pol, bytes.size()); break; case 3: read_all<char16_t, 256>(is, pol, bytes.size()); break; case 4: read_all<char32_t, 32>(is, pol, bytes.size()); break; default: read_all<char32_t, 256>(is, pol, bytes.size()); }
	} catch (const std::exception&) { } catch (...) { vfz::fail("something that is not derived from std::exception escapes the encoded stream reader"); }
	vfz::note(data, size, g_nt, g_nt ? "multi-chunk-or-bom-or-error" : "single-chunk");
	return 0;
}
