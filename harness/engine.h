// engine.h — choice-sequence property engine (generated-input search with integrated shrinking).
//
// Every property is a function  void prop(vf::Ctx&)  that builds its case from vf::Src draws
// (a recorded sequence of bounded integers, the way Hypothesis does it).  The same function is
// driven by
//   * the random generator (pure function of --seed, property name, shard and case index),
//   * the shrinker (deletes / zeroes / lowers recorded draws while the same failure kind persists),
//   * replay files (the recorded sequence, no RNG involved),
//   * libFuzzer (draws are decoded from the fuzz bytes; see fuzz_main.h).
// No harness uses any other source of randomness, the clock, or container iteration order.
#pragma once
#include <cstdint>
#include <limits>
#include <type_traits>
#include <cstdio>
#include <cstdlib>
#include <cstring>
#include <string>
#include <vector>
#include <map>
#include <set>
#include <unordered_set>
#include <functional>
#include <exception>
#include <algorithm>
#include <fstream>
#include <sstream>
#include <csignal>
#include <unistd.h>
#include <fcntl.h>
#include <sys/mman.h>
#include <sys/time.h>
#include <sys/wait.h>
#include <sys/resource.h>

namespace vf {

inline uint64_t mix64(uint64_t x) { x += 0x9E3779B97F4A7C15ull; x = (x ^ (x >> 30)) * 0xBF58476D1CE4E5B9ull; x = (x ^ (x >> 27)) * 0x94D049BB133111EBull; return x ^ (x >> 31); }
inline uint64_t hash_bytes(const void* p, size_t n, uint64_t h = 0xcbf29ce484222325ull) { auto* b = static_cast<const unsigned char*>(p); for (size_t i = 0; i < n; i++) { h ^= b[i]; h *= 0x100000001b3ull; } return mix64(h); }
inline uint64_t hash_str(const std::string& s, uint64_t h = 0xcbf29ce484222325ull) { return hash_bytes(s.data(), s.size(), h); }

inline std::string hex(const void* p, size_t n) { static const char* d = "0123456789abcdef"; std::string r; auto* b = static_cast<const unsigned char*>(p); for (size_t i = 0; i < n; i++) { r.push_back(d[b[i] >> 4]); r.push_back(d[b[i] & 15]); } return r; }
inline std::string hex(const std::string& s) { return hex(s.data(), s.size()); }
inline std::string unhex(const std::string& h) { std::string r; auto v = [](char c) { return c <= '9' ? c - '0' : (c | 32) - 'a' + 10; }; for (size_t i = 0; i + 1 < h.size(); i += 2) r.push_back(static_cast<char>(v(h[i]) * 16 + v(h[i + 1]))); return r; }
inline std::string json_escape(const std::string& s) {
	std::string r; char b[8];
	for (unsigned char c : s) { if (c == '"') r += "\\\""; else if (c == '\\') r += "\\\\"; else if (c < 0x20 || c >= 0x7f) { snprintf(b, sizeof b, "\\u%04x", c); r += b; } else r.push_back(static_cast<char>(c)); }
	return r;
}

// ---------------------------------------------------------------------------------------------
// Source of choices
// ---------------------------------------------------------------------------------------------
class Src {
public:
	enum Mode { Gen, Replay };
	Src(uint64_t seed, unsigned size) : mMode(Gen), mState(seed), mSize(size) {}
	explicit Src(std::vector<uint64_t> seq, unsigned size = 100) : mMode(Replay), mState(0), mSize(size), mIn(std::move(seq)) {}

	/// Uniform integer in [0, bound); bound == 0 means any 64-bit value.
	uint64_t draw(uint64_t bound) {
		uint64_t v;
		if (mMode == Gen) { v = next(); if (bound) v = mulhi(v, bound); }
		else { v = mPos < mIn.size() ? mIn[mPos] : 0; ++mPos; if (bound && v >= bound) v %= bound; }
		mRec.push_back(v);
		if (traceDraw()) traceDraw()(v);
		return v;
	}
	static std::function<void(uint64_t)>& traceDraw() { static std::function<void(uint64_t)> f; return f; }
	bool coin() { return draw(2) != 0; }
	/// true with probability num/den (replay: recorded 0 = false, the "simple" branch)
	bool chance(unsigned num, unsigned den) { return draw(den) >= den - num; }
	/// inclusive range
	int64_t range(int64_t lo, int64_t hi) { return lo + static_cast<int64_t>(draw(static_cast<uint64_t>(hi - lo) + 1)); }
	size_t pick(size_t n) { return static_cast<size_t>(draw(n)); }
	template <class T, size_t N> const T& oneOf(const T (&arr)[N]) { return arr[draw(N)]; }
	/// Length in [0, max] biased to small values, scaled by the size parameter (0..100).
	size_t len(size_t max) {
		if (max == 0) return 0;
		size_t cap = std::max<size_t>(1, max * std::min(mSize, 100u) / 100);
		uint64_t cls = draw(8);
		if (cls < 4) return static_cast<size_t>(draw(std::min<size_t>(cap, 4) + 1));
		if (cls < 7) return static_cast<size_t>(draw(std::min<size_t>(cap, 24) + 1));
		return static_cast<size_t>(draw(cap + 1));
	}
	/// Integer of type T from a mix of classes: small, limits, powers of two +-2, uniform.
	template <class T> T integer() {
		using U = std::make_unsigned_t<T>; using L = std::numeric_limits<T>;
		switch (draw(6)) {
		case 0: return static_cast<T>(static_cast<int64_t>(draw(33)) - (std::is_signed_v<T> ? 16 : 0));
		case 1: { const T c[] = { L::min(), L::max(), static_cast<T>(L::min() + 1), static_cast<T>(L::max() - 1), 0, static_cast<T>(1), static_cast<T>(-1) }; return c[draw(7)]; }
		case 2: { unsigned k = static_cast<unsigned>(draw(sizeof(T) * 8)); U v = static_cast<U>(U(1) << k); int64_t d = static_cast<int64_t>(draw(5)) - 2; v = static_cast<U>(v + static_cast<U>(d)); if (std::is_signed_v<T> && coin()) v = static_cast<U>(0) - v; return static_cast<T>(v); }
		case 3: { unsigned k = static_cast<unsigned>(draw(sizeof(T) * 8)) + 1; U v = static_cast<U>(draw(0)); if (k < sizeof(T) * 8) v &= static_cast<U>((U(1) << k) - 1); if (std::is_signed_v<T> && coin()) v = static_cast<U>(0) - v; return static_cast<T>(v); }
		default: return static_cast<T>(static_cast<U>(draw(0)));
		}
	}
	std::string bytes(size_t n) { std::string r(n, '\0'); for (auto& c : r) c = static_cast<char>(draw(256)); return r; }

	unsigned size() const { return mSize; }
	const std::vector<uint64_t>& recorded() const { return mRec; }
	bool exhausted() const { return mMode == Replay && mPos > mIn.size(); }

private:
	static uint64_t mulhi(uint64_t a, uint64_t b) { return static_cast<uint64_t>((static_cast<unsigned __int128>(a) * b) >> 64); }
	uint64_t next() { mState += 0x9E3779B97F4A7C15ull; uint64_t z = mState; z = (z ^ (z >> 30)) * 0xBF58476D1CE4E5B9ull; z = (z ^ (z >> 27)) * 0x94D049BB133111EBull; return z ^ (z >> 31); }
	Mode mMode; uint64_t mState; unsigned mSize; std::vector<uint64_t> mIn; size_t mPos = 0; std::vector<uint64_t> mRec;
};

// ---------------------------------------------------------------------------------------------
// Verdicts
// ---------------------------------------------------------------------------------------------
struct Failure { std::string kind, detail; };   // deliberately NOT derived from std::exception
struct Discard { std::string why; };            // case outside the property's domain / excluded known finding

struct Ctx {
	Src& src;
	bool nontrivial = false;
	std::string desc;                       // canonical description of the case (hash + samples)
	std::vector<std::string> labels;
	std::set<std::string>* activeKf = nullptr;

	explicit Ctx(Src& s) : src(s) {}
	void label(const char* l) { labels.emplace_back(l); }
	void label(const std::string& l) { labels.push_back(l); }
	void describe(std::string d) { desc = std::move(d); if (onDescribe()) onDescribe()(desc); }
	static std::function<void(const std::string&)>& onDescribe() { static std::function<void(const std::string&)> f; return f; }
	[[noreturn]] void fail(std::string kind, std::string detail = {}) { throw Failure{ std::move(kind), std::move(detail) }; }
	[[noreturn]] void discard(std::string why) { throw Discard{ std::move(why) }; }
	/// A listed known finding is active (recorded, not fixed): generators avoid its trigger class.
	bool kf(const char* id) const { return activeKf && activeKf->count(id); }
};

using PropFn = void (*)(Ctx&);
struct PropInfo { const char* name; PropFn fn; const char* rule; unsigned weight; };
inline std::vector<PropInfo>& registry() { static std::vector<PropInfo> r; return r; }
struct Registrar { Registrar(const char* n, PropFn f, const char* rule, unsigned w) { registry().push_back({ n, f, rule, w }); } };
#define VF_PROPERTY(name, weight, rule) \
	static void name(vf::Ctx& c); \
	static vf::Registrar reg_##name(#name, name, rule, weight); \
	static void name(vf::Ctx& c)

#define VF_CHECK(c, cond, kind, ...) do { if (!(cond)) (c).fail(kind, vf::cat(__VA_ARGS__)); } while (0)

template <class... A> std::string cat(const A&... a) { std::ostringstream o; ((o << a), ...); return o.str(); }

// ---------------------------------------------------------------------------------------------
// Sweeps: exhaustive enumeration of a finite domain named by the property's quantifier.
// Cases are distinct by construction (each index is visited by exactly one shard, once).
// ---------------------------------------------------------------------------------------------
struct SweepFailure { std::string kind, caseDesc, detail; };
struct SweepCtx {
	unsigned shard = 0, shards = 1; bool thorough = false;
	uint64_t evaluations = 0, nontrivial = 0, failedCases = 0;
	std::vector<std::string> samples; std::vector<SweepFailure> failures; std::map<std::string, uint64_t> labels, kindCount;
	std::string only;   // replay: visit just this case
	bool mine(uint64_t idx) const { return idx % shards == shard; }
	/// true when the enumerated case idx (described lazily by descFn) is not for this process
	template <class F> bool skip(uint64_t idx, F descFn) const { if (!only.empty()) return descFn() != only; return idx % shards != shard; }
	void sample(const std::string& s) { if (samples.size() < 4) samples.push_back(s); }
	void fail(const std::string& kind, const std::string& caseDesc, const std::string& detail = {}) {
		++failedCases; if (kindCount[kind]++ < 2 && failures.size() < 8) failures.push_back({ kind, caseDesc, detail });
	}
};
using SweepFn = void (*)(SweepCtx&);
struct SweepInfo { const char* name; SweepFn fn; const char* rule; bool thoroughOnly; };
inline std::vector<SweepInfo>& sweep_registry() { static std::vector<SweepInfo> r; return r; }
struct SweepRegistrar { SweepRegistrar(const char* n, SweepFn f, const char* rule, bool t) { sweep_registry().push_back({ n, f, rule, t }); } };
#define VF_SWEEP(name, thoroughOnly, rule) \
	static void name(vf::SweepCtx& c); \
	static vf::SweepRegistrar sreg_##name(#name, name, rule, thoroughOnly); \
	static void name(vf::SweepCtx& c)

// ---------------------------------------------------------------------------------------------
// Running one case
// ---------------------------------------------------------------------------------------------
struct CaseResult {
	enum K { Pass, Discarded, Failed } k = Pass;
	std::string kind, detail, desc, why; bool nontrivial = false; std::vector<std::string> labels; std::vector<uint64_t> seq;
};

inline std::set<std::string>& active_kf() { static std::set<std::string> s; return s; }

// breadcrumb: lets the driver recover the case when a sanitizer / signal kills the process
struct Crumb { char* p = nullptr; size_t cap = 1 << 20; };
inline Crumb& crumb() { static Crumb c; return c; }
inline void crumb_open(const std::string& path) {
	int fd = open(path.c_str(), O_RDWR | O_CREAT | O_TRUNC, 0644); if (fd < 0) return;
	if (ftruncate(fd, static_cast<off_t>(crumb().cap)) != 0) { close(fd); return; }
	void* m = mmap(nullptr, crumb().cap, PROT_READ | PROT_WRITE, MAP_SHARED, fd, 0); close(fd);
	if (m != MAP_FAILED) crumb().p = static_cast<char*>(m);
}
inline void crumb_set(const std::string& s) { if (crumb().p) { size_t n = std::min(s.size(), crumb().cap - 1); memcpy(crumb().p, s.data(), n); crumb().p[n] = 0; } }

inline CaseResult run_case(const PropInfo& p, Src& src) {
	Ctx c(src); c.activeKf = &active_kf(); CaseResult r;
	try { p.fn(c); }
	catch (const Failure& f) { r.k = CaseResult::Failed; r.kind = f.kind; r.detail = f.detail; }
	catch (const Discard& d) { r.k = CaseResult::Discarded; r.why = d.why; }
	catch (const std::exception& e) { r.k = CaseResult::Failed; r.kind = "harness-uncaught-exception"; r.detail = e.what(); }
	catch (...) { r.k = CaseResult::Failed; r.kind = "non-std-exception-escaped"; }
	r.desc = std::move(c.desc); r.nontrivial = c.nontrivial; r.labels = std::move(c.labels); r.seq = src.recorded();
	return r;
}

// ---------------------------------------------------------------------------------------------
// Isolation: run one case in a forked child, so that terminate / SIGSEGV / sanitizer aborts /
// CPU-budget overruns of the code under test become ordinary failures (kind "died:...") that
// the shrinker can minimise like any other.
// ---------------------------------------------------------------------------------------------
inline void put_field(std::string& o, const std::string& f) { uint32_t n = static_cast<uint32_t>(f.size()); o.append(reinterpret_cast<const char*>(&n), 4); o += f; }
inline bool get_field(const std::string& in, size_t& pos, std::string& f) { if (pos + 4 > in.size()) return false; uint32_t n; memcpy(&n, in.data() + pos, 4); pos += 4; if (pos + n > in.size()) return false; f.assign(in, pos, n); pos += n; return true; }
inline int& g_term_fd() { static int fd = -1; return fd; }
inline void isolated_terminate_handler() { const char m[] = "TERMINATE"; if (g_term_fd() >= 0) (void)!write(g_term_fd(), m, sizeof m - 1); _exit(70); }

struct SharedTrace { uint64_t n; char desc[2048]; uint64_t v[1 << 18]; };
inline SharedTrace* shared_trace() { static SharedTrace* t = [] { void* m = mmap(nullptr, sizeof(SharedTrace), PROT_READ | PROT_WRITE, MAP_SHARED | MAP_ANONYMOUS, -1, 0); return m == MAP_FAILED ? nullptr : static_cast<SharedTrace*>(m); }(); return t; }

inline CaseResult run_case_isolated(const PropInfo& p, Src& src, unsigned cpuSeconds) {
	SharedTrace* tr = shared_trace(); if (tr) { tr->n = 0; tr->desc[0] = 0; }
	int fds[2]; if (pipe(fds) != 0) { CaseResult r; r.k = CaseResult::Failed; r.kind = "harness-pipe"; return r; }
	fflush(stdout); fflush(stderr);
	pid_t pid = fork();
	if (pid == 0) {
		close(fds[0]);
		struct rlimit rl { cpuSeconds, cpuSeconds + 1 }; setrlimit(RLIMIT_CPU, &rl);
		int tfd = dup(fds[1]); g_term_fd() = tfd; std::set_terminate(isolated_terminate_handler);
		if (tr) Src::traceDraw() = [](uint64_t v) { SharedTrace* t = shared_trace(); if (t->n < (1 << 18)) t->v[t->n++] = v; };
		if (tr) Ctx::onDescribe() = [](const std::string& d) { SharedTrace* t = shared_trace(); size_t n = std::min(d.size(), sizeof(t->desc) - 1); memcpy(t->desc, d.data(), n); t->desc[n] = 0; };
		CaseResult r = run_case(p, src);
		std::string o; o.push_back(static_cast<char>('0' + r.k)); put_field(o, r.kind); put_field(o, r.detail); put_field(o, r.desc); put_field(o, r.why);
		o.push_back(r.nontrivial ? '1' : '0'); std::string ls; for (auto& l : r.labels) { ls += l; ls.push_back('\n'); } put_field(o, ls);
		put_field(o, std::string(reinterpret_cast<const char*>(r.seq.data()), r.seq.size() * 8));
		size_t w = 0; while (w < o.size()) { ssize_t k = write(fds[1], o.data() + w, o.size() - w); if (k <= 0) break; w += static_cast<size_t>(k); }
		close(fds[1]); close(tfd);
		exit(0);   // exit(), not _exit(): LeakSanitizer runs at exit and turns a leak into exit code 86
	}
	close(fds[1]); std::string in; char buf[4096]; ssize_t k; while ((k = read(fds[0], buf, sizeof buf)) > 0) in.append(buf, static_cast<size_t>(k)); close(fds[0]);
	int st = 0; waitpid(pid, &st, 0);
	CaseResult r; r.seq = src.recorded();
	if (tr) { r.seq.assign(tr->v, tr->v + tr->n); r.desc = tr->desc; }
	auto parse = [&]() {
		if (in.empty()) return false; size_t pos = 1; std::string nt, ls, sq;
		r.k = static_cast<CaseResult::K>(in[0] - '0');
		if (!get_field(in, pos, r.kind) || !get_field(in, pos, r.detail) || !get_field(in, pos, r.desc) || !get_field(in, pos, r.why)) return false;
		if (pos >= in.size()) return false; r.nontrivial = in[pos++] == '1';
		if (!get_field(in, pos, ls) || !get_field(in, pos, sq)) return false;
		size_t a = 0; while (a < ls.size()) { size_t b = ls.find('\n', a); r.labels.push_back(ls.substr(a, b - a)); a = b + 1; }
		r.seq.resize(sq.size() / 8); memcpy(r.seq.data(), sq.data(), r.seq.size() * 8); return true;
	};
	bool parsed = in.rfind("TERMINATE", 0) != 0 && parse();
	if (WIFSIGNALED(st)) { r.k = CaseResult::Failed; int sg = WTERMSIG(st); r.kind = (sg == SIGXCPU || sg == SIGKILL) ? "died:cpu-budget" : cat("died:signal-", sg); return r; }
	int ec = WEXITSTATUS(st);
	if (ec == 70) { r.k = CaseResult::Failed; r.kind = "died:std-terminate"; return r; }
	if (ec == 97) { r.k = CaseResult::Failed; r.kind = "died:cpu-budget"; return r; }
	if (ec != 0) { bool afterResult = parsed; r.k = CaseResult::Failed; r.kind = afterResult ? "died:leak-or-exit-report" : "died:sanitizer-or-abort"; r.detail = cat("exit=", ec); return r; }
	if (!parsed) { r.k = CaseResult::Failed; r.kind = "harness-protocol"; }
	return r;
}

inline bool& g_isolate() { static bool b = false; return b; }
inline unsigned& g_cpu() { static unsigned c = 20; return c; }
inline CaseResult run_any(const PropInfo& p, Src& s) { return g_isolate() ? run_case_isolated(p, s, g_cpu()) : run_case(p, s); }

// ---------------------------------------------------------------------------------------------
// Shrinking: delta debugging over the recorded draws, keeping the same failure kind
// ---------------------------------------------------------------------------------------------
inline CaseResult shrink(const PropInfo& p, CaseResult best, unsigned budget = 3000) {
	if (g_isolate()) budget = std::min(budget, 200u);
	// candidates of a hanging case are tried with a short CPU budget (the shrunk case is confirmed with the full budget afterwards)
	const unsigned savedCpu = g_cpu(); if (best.kind == "died:cpu-budget") { budget = std::min(budget, 40u); g_cpu() = 2; }
	auto attempt = [&](const std::vector<uint64_t>& cand, CaseResult& out) {
		if (budget == 0) return false; --budget;
		Src s(cand); CaseResult r = run_any(p, s);
		if (r.k == CaseResult::Failed && r.kind == best.kind) { out = std::move(r); return true; }
		return false;
	};
	bool progress = true;
	while (progress && budget) {
		progress = false;
		// 1. lower values (0, then bisect towards the smallest value that still fails)
		for (size_t i = 0; i < best.seq.size() && budget; i++) {
			uint64_t v = best.seq[i]; if (v == 0) continue;
			std::vector<uint64_t> cand = best.seq; cand[i] = 0; CaseResult r;
			if (attempt(cand, r)) { best = std::move(r); progress = true; continue; }
			uint64_t lo = 0, hi = v;
			for (int it = 0; it < 10 && hi - lo > 1 && budget; it++) {
				uint64_t mid = lo + (hi - lo) / 2; cand = best.seq; if (i >= cand.size()) break; cand[i] = mid;
				if (attempt(cand, r)) { best = std::move(r); progress = true; hi = mid; } else lo = mid;
			}
		}
		// 2. delete blocks, large to small
		for (size_t blk = std::max<size_t>(1, best.seq.size() / 2); blk >= 1 && budget; blk /= 2) {
			for (size_t i = 0; i + blk <= best.seq.size() && budget;) {
				std::vector<uint64_t> cand(best.seq.begin(), best.seq.begin() + static_cast<long>(i));
				cand.insert(cand.end(), best.seq.begin() + static_cast<long>(i + blk), best.seq.end());
				CaseResult r; if (attempt(cand, r)) { best = std::move(r); progress = true; } else i += blk;
			}
			if (blk == 1) break;
		}
	}
	g_cpu() = savedCpu;
	return best;
}

// ---------------------------------------------------------------------------------------------
// Statistics and output
// ---------------------------------------------------------------------------------------------
struct PropStats {
	uint64_t evaluations = 0, discarded = 0, nontrivial = 0, failedCases = 0;
	std::unordered_set<uint64_t> distinct; std::vector<uint64_t> hashDump;
	std::map<std::string, uint64_t> labels, excluded;
	std::vector<std::string> samples; std::vector<CaseResult> failures; std::set<std::string> failureKinds;
};

inline std::string seq_json(const std::vector<uint64_t>& s) { std::string r = "["; for (size_t i = 0; i < s.size(); i++) { if (i) r += ","; r += std::to_string(s[i]); } return r + "]"; }

inline std::map<std::string, SweepCtx>& sweep_stats() { static std::map<std::string, SweepCtx> m; return m; }

inline void write_stats(const std::string& path, const std::string& unit, const std::map<std::string, PropStats>& st, uint64_t seed, bool complete) {
	std::ostringstream o; o << "{\"unit\":\"" << unit << "\",\"seed\":" << seed << ",\"complete\":" << (complete ? "true" : "false") << ",\"props\":{";
	bool first = true;
	for (auto& [name, s] : sweep_stats()) {
		if (!first) o << ","; first = false;
		o << "\"" << name << "\":{\"sweep\":true,\"evaluations\":" << s.evaluations << ",\"discarded\":0,\"nontrivial\":" << s.nontrivial
		  << ",\"distinct_nontrivial\":" << s.nontrivial << ",\"failed_cases\":" << s.failedCases << ",\"labels\":{";
		bool f2 = true; for (auto& [l, n] : s.labels) { if (!f2) o << ","; f2 = false; o << "\"" << json_escape(l) << "\":" << n; }
		o << "},\"excluded\":{},\"samples\":["; f2 = true; for (auto& x : s.samples) { if (!f2) o << ","; f2 = false; o << "\"" << json_escape(x) << "\""; }
		o << "],\"failures\":["; f2 = true;
		for (auto& f : s.failures) { if (!f2) o << ","; f2 = false; o << "{\"kind\":\"" << json_escape(f.kind) << "\",\"detail\":\"" << json_escape(f.detail) << "\",\"desc\":\"" << json_escape(f.caseDesc) << "\",\"sweep\":\"" << name << "\"}"; }
		o << "]}";
	}
	for (auto& [name, s] : st) {
		if (!first) o << ","; first = false;
		o << "\"" << name << "\":{\"evaluations\":" << s.evaluations << ",\"discarded\":" << s.discarded << ",\"nontrivial\":" << s.nontrivial
		  << ",\"distinct_nontrivial\":" << s.distinct.size() << ",\"failed_cases\":" << s.failedCases << ",\"labels\":{";
		bool f2 = true; for (auto& [l, n] : s.labels) { if (!f2) o << ","; f2 = false; o << "\"" << json_escape(l) << "\":" << n; }
		o << "},\"excluded\":{"; f2 = true; for (auto& [l, n] : s.excluded) { if (!f2) o << ","; f2 = false; o << "\"" << json_escape(l) << "\":" << n; }
		o << "},\"samples\":["; f2 = true; for (auto& x : s.samples) { if (!f2) o << ","; f2 = false; o << "\"" << json_escape(x) << "\""; }
		o << "],\"failures\":["; f2 = true;
		for (auto& f : s.failures) { if (!f2) o << ","; f2 = false; o << "{\"kind\":\"" << json_escape(f.kind) << "\",\"detail\":\"" << json_escape(f.detail) << "\",\"desc\":\"" << json_escape(f.desc) << "\",\"seq\":" << seq_json(f.seq) << "}"; }
		o << "]}";
	}
	o << "}}\n";
	std::ofstream f(path + ".tmp"); f << o.str(); f.close(); rename((path + ".tmp").c_str(), path.c_str());
	// distinct hashes (for the union across shards)
	std::ofstream h(path + ".hashes", std::ios::binary);
	for (auto& [name, s] : st) for (uint64_t x : s.hashDump) h.write(reinterpret_cast<const char*>(&x), 8);
}

// minimal parser for replay files: {"prop":"...","seq":[...], ...}
inline bool parse_replay(const std::string& text, std::string& prop, std::vector<uint64_t>& seq) {
	auto k = text.find("\"prop\""); if (k == std::string::npos) return false;
	auto q1 = text.find('"', text.find(':', k)); auto q2 = text.find('"', q1 + 1); prop = text.substr(q1 + 1, q2 - q1 - 1);
	auto s = text.find("\"seq\""); if (s == std::string::npos) return false;
	auto b = text.find('[', s), e = text.find(']', b); std::string body = text.substr(b + 1, e - b - 1);
	seq.clear(); const char* p = body.c_str(); while (*p) { while (*p == ',' || *p == ' ' || *p == '\n') ++p; if (!*p) break; char* end; seq.push_back(strtoull(p, &end, 10)); if (end == p) return false; p = end; }
	return true;
}

// per-case CPU budget (virtual timer = process CPU time, immune to machine load)
inline void on_cpu_budget(int) { const char m[] = "\nVF-CPU-BUDGET\n"; if (crumb().p) memcpy(crumb().p + crumb().cap - 32, "CPU-BUDGET", 11); (void)!write(2, m, sizeof m - 1); _exit(97); }
inline void arm_cpu_budget(unsigned seconds) { struct itimerval it {}; it.it_value.tv_sec = seconds; setitimer(ITIMER_VIRTUAL, &it, nullptr); }

inline bool name_selected(const std::string& only, const std::string& skipPrefix, const char* name) {
	std::string n = name;
	if (!skipPrefix.empty() && n.rfind(skipPrefix, 0) == 0) return false;
	if (only.empty()) return true;
	size_t p = 0;   // comma-separated list of names; a trailing '*' makes a prefix pattern
	while (p <= only.size()) {
		size_t q = only.find(',', p); if (q == std::string::npos) q = only.size();
		const std::string pat = only.substr(p, q - p);
		if (!pat.empty() && (pat.back() == '*' ? n.rfind(pat.substr(0, pat.size() - 1), 0) == 0 : n == pat)) return true;
		p = q + 1;
	}
	return false;
}

inline int engine_main(int argc, char** argv, const char* unitName) {
	uint64_t seed = 1; uint64_t cases = 1000; std::string out, only, skipPrefix, replay, crumbPath; unsigned shard = 0, shards = 1; unsigned cpuBudget = 10; bool list = false, doShrink = false, thorough = false, noSweeps = false, onlySweeps = false; unsigned maxSize = 100; std::string regen;
	for (int i = 1; i < argc; i++) {
		std::string a = argv[i]; auto val = [&]() { return std::string(i + 1 < argc ? argv[++i] : ""); };
		if (a == "--seed") seed = strtoull(val().c_str(), nullptr, 10); else if (a == "--cases") cases = strtoull(val().c_str(), nullptr, 10);
		else if (a == "--out") out = val(); else if (a == "--prop") only = val(); else if (a == "--skip-prefix") skipPrefix = val(); else if (a == "--replay") replay = val(); else if (a == "--crumb") crumbPath = val();
		else if (a == "--shard") { std::string v = val(); sscanf(v.c_str(), "%u/%u", &shard, &shards); }
		else if (a == "--cpu") cpuBudget = static_cast<unsigned>(atoi(val().c_str())); else if (a == "--max-size") maxSize = static_cast<unsigned>(atoi(val().c_str()));
		else if (a == "--kf") { std::string v = val(); size_t p = 0; while (p < v.size()) { size_t q = v.find(',', p); if (q == std::string::npos) q = v.size(); if (q > p) active_kf().insert(v.substr(p, q - p)); p = q + 1; } }
		else if (a == "--tier") thorough = (val() == "thorough"); else if (a == "--list") list = true; else if (a == "--no-sweeps") noSweeps = true; else if (a == "--only-sweeps") onlySweeps = true; else if (a == "--isolate") g_isolate() = true; else if (a == "--regen") regen = val(); else if (a == "--shrink") doShrink = true;
	}
	if (seed == 0) seed = 1;
	if (list) { for (auto& p : registry()) printf("prop\t%s\t%u\t%s\n", p.name, p.weight, p.rule); for (auto& p : sweep_registry()) printf("sweep\t%s\t%d\t%s\n", p.name, p.thoroughOnly, p.rule); return 0; }
	if (!crumbPath.empty()) crumb_open(crumbPath);
	signal(SIGVTALRM, on_cpu_budget);
	g_cpu() = cpuBudget;

	if (!regen.empty()) {
		// "--regen prop:gen_seed:size": regenerate a case from its generator seed, tracing every draw into the crumb
		char pn[128]; unsigned long long gs; unsigned sz; if (sscanf(regen.c_str(), "%127[^:]:%llu:%u", pn, &gs, &sz) != 3) return 2;
		for (auto& p : registry()) if (std::string(pn) == p.name) {
			static std::string trace; trace = cat("{\"prop\":\"", p.name, "\",\"seq\":[");
			Src::traceDraw() = [](uint64_t v) { trace += std::to_string(v); trace += ","; crumb_set(trace + "0]}"); };
			crumb_set(trace + "]}");
			arm_cpu_budget(cpuBudget);
			Src s(gs, sz); CaseResult r = run_any(p, s);
			arm_cpu_budget(0);
			Src::traceDraw() = nullptr;
			crumb_set(cat("{\"prop\":\"", p.name, "\",\"seq\":", seq_json(r.seq), "}"));
			printf("REGEN-%s prop=%s kind=%s\n", r.k == CaseResult::Failed ? "FAIL" : "PASS", p.name, r.kind.c_str());
			return r.k == CaseResult::Failed ? 1 : 0;
		}
		return 2;
	}

	if (!replay.empty()) {
		std::ifstream f(replay); std::stringstream ss; ss << f.rdbuf(); std::string prop; std::vector<uint64_t> seq;
		if (auto k = ss.str().find("\"sweep\""); k != std::string::npos && ss.str().find("\"seq\"") == std::string::npos) {
			std::string t = ss.str(); auto q1 = t.find('"', t.find(':', k)); auto q2 = t.find('"', q1 + 1); std::string sn = t.substr(q1 + 1, q2 - q1 - 1);
			std::string want; if (auto d = t.find("\"kind\""); d != std::string::npos) { auto a = t.find('"', t.find(':', d)); auto b = t.find('"', a + 1); want = t.substr(a + 1, b - a - 1); }
			for (auto& sw : sweep_registry()) if (sn == sw.name) {
				SweepCtx sc; sc.thorough = true;
				if (auto d = t.find("\"desc\""); d != std::string::npos) { auto a = t.find('"', t.find(':', d)); auto b = t.find('"', a + 1); sc.only = t.substr(a + 1, b - a - 1); }
				sw.fn(sc);
				for (auto& fl : sc.failures) if (want.empty() || fl.kind == want) { printf("REPLAY-FAIL prop=%s kind=%s detail=%s\n", sw.name, fl.kind.c_str(), json_escape(fl.caseDesc + " " + fl.detail).c_str()); return 1; }
				printf("REPLAY-PASS prop=%s\n", sw.name); return 0;
			}
			return 2;
		}
		if (!parse_replay(ss.str(), prop, seq)) { fprintf(stderr, "cannot parse replay file %s\n", replay.c_str()); return 2; }
		for (auto& p : registry()) if (prop == p.name) {
			crumb_set(cat("{\"prop\":\"", p.name, "\",\"seq\":", seq_json(seq), "}"));
			arm_cpu_budget(cpuBudget);
			Src s(seq); CaseResult r = run_any(p, s);
			arm_cpu_budget(0);
			if (r.k == CaseResult::Failed && doShrink) { r = shrink(p, r); printf("SHRUNK %s\n", cat("{\"prop\":\"", p.name, "\",\"kind\":\"", json_escape(r.kind), "\",\"detail\":\"", json_escape(r.detail), "\",\"desc\":\"", json_escape(r.desc), "\",\"seq\":", seq_json(r.seq), "}").c_str()); }
			if (r.k == CaseResult::Failed) { printf("REPLAY-FAIL prop=%s kind=%s detail=%s\n", p.name, r.kind.c_str(), json_escape(r.detail).c_str()); return 1; }
			printf("REPLAY-%s prop=%s %s\n", r.k == CaseResult::Pass ? "PASS" : "DISCARD", p.name, r.why.c_str()); return 0;
		}
		fprintf(stderr, "unknown property %s in %s\n", prop.c_str(), replay.c_str()); return 2;
	}

	std::map<std::string, PropStats> stats; unsigned totalWeight = 0;
	for (auto& sw : sweep_registry()) {
		if (!name_selected(only, skipPrefix, sw.name)) continue;
		if (sw.thoroughOnly && !thorough) continue;
		if (noSweeps) continue;
		SweepCtx& sc = sweep_stats()[sw.name]; sc.shard = shard; sc.shards = shards; sc.thorough = thorough;
		crumb_set(cat("{\"sweep\":\"", sw.name, "\"}"));
		sw.fn(sc);
		if (!out.empty()) write_stats(out, unitName, stats, seed, false);
	}
	for (auto& p : registry()) if (name_selected(only, skipPrefix, p.name)) totalWeight += p.weight;
	for (auto& p : registry()) {
		if (!name_selected(only, skipPrefix, p.name)) continue;
		if (onlySweeps) continue;
		PropStats& st = stats[p.name];
		uint64_t n = std::max<uint64_t>(1, cases * p.weight / std::max(1u, totalWeight));
		for (uint64_t i = 0; i < n; i++) {
			uint64_t cs = mix64(seed * 0x100000001b3ull ^ hash_str(p.name) ^ mix64(shard * 7919ull + 13) ^ mix64(i + 1));
			unsigned size = static_cast<unsigned>(std::min<uint64_t>(maxSize, 5 + (i * 2 * maxSize) / std::max<uint64_t>(1, n)));
			crumb_set(cat("{\"prop\":\"", p.name, "\",\"gen_seed\":", cs, ",\"size\":", size, "}"));
			arm_cpu_budget(cpuBudget);
			Src s(cs, size); CaseResult r = run_any(p, s);
			arm_cpu_budget(0);
			st.evaluations++;
			for (auto& l : r.labels) { if (l.rfind("excluded:", 0) == 0) st.excluded[l.substr(9)]++; else st.labels[l]++; }
			if (r.k == CaseResult::Discarded) { st.discarded++; st.labels["discard:" + r.why]++; continue; }
			if (r.nontrivial) {
				st.nontrivial++;
				uint64_t h = r.desc.empty() ? hash_bytes(r.seq.data(), r.seq.size() * 8, hash_str(p.name)) : hash_str(r.desc, hash_str(p.name));
				if (st.distinct.insert(h).second) { if (st.hashDump.size() < 200000) st.hashDump.push_back(h); if (st.samples.size() < 4 && !r.desc.empty()) st.samples.push_back(r.desc.substr(0, 600)); }
			}
			if (r.k == CaseResult::Failed) {
				st.failedCases++;
				if (st.failureKinds.insert(r.kind).second && st.failures.size() < 6) {
					CaseResult m = shrink(p, r);
					st.failures.push_back(std::move(m));
					if (!out.empty()) write_stats(out, unitName, stats, seed, false);
				}
			}
		}
	}
	crumb_set("");
	if (!out.empty()) write_stats(out, unitName, stats, seed, true);
	int rc = 0;
	for (auto& [name, s] : sweep_stats()) {
		printf("%-32s sweep eval=%lu nontrivial=%lu failed=%lu\n", name.c_str(), s.evaluations, s.nontrivial, s.failedCases);
		for (auto& f : s.failures) { rc = 1; printf("  FAIL kind=%s case=%s detail=%s\n", f.kind.c_str(), json_escape(f.caseDesc).c_str(), json_escape(f.detail).c_str()); }
	}
	for (auto& [name, s] : stats) {
		printf("%-32s eval=%lu nontrivial=%lu distinct=%zu discarded=%lu failed=%lu\n", name.c_str(), s.evaluations, s.nontrivial, s.distinct.size(), s.discarded, s.failedCases);
		for (auto& f : s.failures) { rc = 1; printf("  FAIL kind=%s detail=%s\n       desc=%s\n       seq=%s\n", f.kind.c_str(), json_escape(f.detail).c_str(), json_escape(f.desc).c_str(), seq_json(f.seq).c_str()); }
	}
	return rc;
}

} // namespace vf

#define VF_MAIN(unit) int main(int argc, char** argv) { return vf::engine_main(argc, argv, unit); }
