// C07 — the MsgPack reader accepts every valid encoding and matches a reference decoder.
// Documents are produced by the independent encoder (ref_msgpack) with adversarial format choices; outcomes are compared
// with the independent decoder.  Build with -DMODEL_GROUP=<0..2> (compile-time split only).
#include <functional>
#include "common/model_types.h"
#include "common/to_ref.h"
#include "common/dyn.h"
#include <tuple>
#include "bitserializer/types/std/tuple.h"
#include "bitserializer/types/std/map.h"

using namespace arch;
using namespace mdl;
using refmp::Val; using RT = refmp::T;

namespace {

bool needs_ts96(const Val& v) { return v.t == RT::Ts && !(v.tsSec >= 0 && v.tsSec < (1LL << 34)); }
bool contains_ts96(const Val& v) { if (needs_ts96(v)) return true; for (auto& e : v.arr) if (contains_ts96(e)) return true; for (auto& e : v.map) if (contains_ts96(e.first) || contains_ts96(e.second)) return true; return false; }

// Recorded finding KF-35: the reader takes the 96-bit timestamp seconds-first.  Until it is repaired, documents holding a 96-bit
// timestamp are encoded the way the library expects (so that everything else about them is still checked); the conformant form is
// exercised by the witness property below.
bool g_usedTs96 = false;
void encode_tree(std::string& out, const Val& v, vf::Src& src, bool adversarial, bool& nonMinimal, bool libTs96) {
	auto choose = [&](size_t n) -> size_t { if (!adversarial || n <= 1) return 0; size_t k = src.draw(n); if (k) nonMinimal = true; return k; };
	if (v.t == RT::Ts) {   // any layout able to hold the instant is legal; the 96-bit one is written the way the library reads it (KF-35)
		auto ls = refmp::legalTsLayouts(v.tsSec, v.tsNs); const int layout = ls[choose(ls.size())];
		std::string p; if (layout == 12 && libTs96) { refmp::put(p, static_cast<uint64_t>(v.tsSec), 8); refmp::put(p, v.tsNs, 4); g_usedTs96 = true; } else p = refmp::tsPayload(v.tsSec, v.tsNs, layout);
		std::vector<int> ws; if (layout != 12) ws.push_back(0); ws.push_back(1); ws.push_back(2); ws.push_back(4); refmp::encodeExtHdr(out, p.size(), -1, ws[choose(ws.size())]); out += p; return;
	}
	switch (v.t) {
	case RT::Arr: { std::vector<int> ws; if (v.arr.size() <= 15) ws.push_back(0); if (v.arr.size() <= 0xffff) ws.push_back(2); ws.push_back(4); refmp::encodeArrHdr(out, v.arr.size(), ws[choose(ws.size())]); for (auto& e : v.arr) encode_tree(out, e, src, adversarial, nonMinimal, libTs96); break; }
	case RT::Map: { std::vector<int> ws; if (v.map.size() <= 15) ws.push_back(0); if (v.map.size() <= 0xffff) ws.push_back(2); ws.push_back(4); refmp::encodeMapHdr(out, v.map.size(), ws[choose(ws.size())]); for (auto& e : v.map) { encode_tree(out, e.first, src, adversarial, nonMinimal, libTs96); encode_tree(out, e.second, src, adversarial, nonMinimal, libTs96); } break; }
	default: refmp::encode(out, v, choose); break;
	}
}
// shuffle the entries of every map (any key order is a legal encoding)
void shuffle_maps(Val& v, vf::Src& src, bool& shuffled) {
	for (auto& e : v.arr) shuffle_maps(e, src, shuffled);
	for (auto& e : v.map) shuffle_maps(e.second, src, shuffled);
	if (v.map.size() > 1 && src.coin()) { for (size_t i = v.map.size() - 1; i > 0; i--) { size_t j = src.draw(i + 1); if (i != j) { std::swap(v.map[i], v.map[j]); shuffled = true; } } }
}
// a float that is exactly representable in the other width may legally be written in it
void flip_float_width(Val& v, vf::Src& src, bool& flipped) {
	for (auto& e : v.arr) flip_float_width(e, src, flipped);
	for (auto& e : v.map) flip_float_width(e.second, src, flipped);
	// non-finite values keep their width: a float64 infinity into a float target may be reported by the overflow policy (C04, soundness rule 2)
	if (v.t == RT::F32 && src.chance(1, 3)) { const double d = v.f; if (std::isfinite(d)) { v.t = RT::F64; v.d = d; flipped = true; } }
	else if (v.t == RT::F64 && src.chance(1, 3)) { const float f = static_cast<float>(v.d); if (std::isfinite(v.d) && static_cast<double>(f) == v.d) { v.t = RT::F32; v.f = f; flipped = true; } }
}

template <class T> constexpr bool is_multimap_like = false;
template <class K, class V> constexpr bool is_multimap_like<std::multimap<K, V>> = true;
template <class K, class V> constexpr bool is_multimap_like<std::unordered_multimap<K, V>> = true;

std::string outcome_of(const Outcome& o) { return o.str(); }

// the set of leaf offsets of a document, for corruption at meaningful places
void node_offsets(const std::string& bytes, std::vector<size_t>& offs) {
	// walk with the reference decoder, collecting the start offset of every node
	struct W { const std::string& d; std::vector<size_t>& o; size_t p = 0; bool ok = true;
		uint64_t be(int n) { uint64_t r = 0; for (int k = 0; k < n && p < d.size(); k++) r = (r << 8) | static_cast<uint8_t>(d[p++]); return r; }
		void go(int depth) { if (!ok || p >= d.size() || depth > 64) { ok = false; return; } o.push_back(p); uint8_t c = static_cast<uint8_t>(d[p++]);
			auto skip = [&](uint64_t n) { if (n > d.size() - p) { ok = false; p = d.size(); } else p += n; };
			if (c <= 0x7f || c >= 0xe0 || c == 0xc0 || c == 0xc2 || c == 0xc3) return;
			if (c >= 0x80 && c <= 0x8f) { for (int i = 0; i < 2 * (c & 15) && ok; i++) go(depth + 1); return; }
			if (c >= 0x90 && c <= 0x9f) { for (int i = 0; i < (c & 15) && ok; i++) go(depth + 1); return; }
			if (c >= 0xa0 && c <= 0xbf) { skip(c & 31); return; }
			switch (c) { case 0xc4: case 0xd9: skip(be(1)); break; case 0xc5: case 0xda: skip(be(2)); break; case 0xc6: case 0xdb: skip(be(4)); break;
			case 0xc7: { uint64_t n = be(1); skip(n + 1); break; } case 0xc8: { uint64_t n = be(2); skip(n + 1); break; } case 0xc9: { uint64_t n = be(4); skip(n + 1); break; }
			case 0xca: skip(4); break; case 0xcb: skip(8); break; case 0xcc: case 0xd0: skip(1); break; case 0xcd: case 0xd1: skip(2); break; case 0xce: case 0xd2: skip(4); break; case 0xcf: case 0xd3: skip(8); break;
			case 0xd4: skip(2); break; case 0xd5: skip(3); break; case 0xd6: skip(5); break; case 0xd7: skip(9); break; case 0xd8: skip(17); break;
			case 0xdc: { uint64_t n = be(2); for (uint64_t i = 0; i < n && ok; i++) go(depth + 1); break; } case 0xdd: { uint64_t n = be(4); for (uint64_t i = 0; i < n && ok && i < 100000; i++) go(depth + 1); break; }
			case 0xde: { uint64_t n = be(2); for (uint64_t i = 0; i < 2 * n && ok; i++) go(depth + 1); break; } case 0xdf: { uint64_t n = be(4); for (uint64_t i = 0; i < 2 * n && ok && i < 100000; i++) go(depth + 1); break; }
			default: ok = false; break; } } };
	W w{ bytes, offs }; w.go(0);
}

// ---- dynamic trees --------------------------------------------------------------------------------------------------------
Val gen_key(vf::Src& s, size_t idx, bool typedKeys) {
	if (typedKeys) switch (s.draw(6)) {
	case 0: return refmp::mkInt(static_cast<int64_t>(idx) * 7 - 20);
	case 1: return refmp::mkUInt((1ull << 40) + idx);
	case 2: return refmp::mkF64(0.5 + static_cast<double>(idx));
	case 3: return refmp::mkTs(1000 + static_cast<int64_t>(idx), 5);
	default: break; }
	std::string k = "k" + std::to_string(idx); if (s.chance(1, 4)) k += std::string(s.draw(40), 'x'); if (s.chance(1, 6)) k += "\xD0\x96";
	return refmp::mkStr(k);
}
Val gen_tree(vf::Src& s, int depth, bool typedKeys) {
	const uint64_t k = s.draw(depth > 0 ? 12 : 9);
	switch (k) {
	case 0: return refmp::mkNil();
	case 1: return refmp::mkBool(s.coin());
	case 2: { int64_t v = s.integer<int64_t>(); return v >= 0 ? refmp::mkUInt(static_cast<uint64_t>(v)) : refmp::mkInt(v); }
	case 3: return refmp::mkUInt(s.integer<uint64_t>());
	case 4: { double d; uint64_t b = s.coin() ? s.draw(0) : static_cast<uint64_t>(0x3ff0000000000000ull + s.draw(1 << 20)); memcpy(&d, &b, 8); if (std::isnan(d)) d = 1.5; return refmp::mkF64(d); }
	case 5: { float f; uint32_t b = static_cast<uint32_t>(s.draw(0)); memcpy(&f, &b, 4); if (std::isnan(f)) f = 2.5f; return refmp::mkF32(f); }
	case 6: { size_t n = s.chance(1, 10) ? 250 + s.draw(20) : s.len(40); std::string t; for (size_t i = 0; i < n; i++) t.push_back(static_cast<char>(0x20 + s.draw(0x5f))); return refmp::mkStr(t); }
	case 7: { size_t n = s.chance(1, 10) ? 250 + s.draw(20) : s.len(20); return refmp::mkBin(s.bytes(n)); }
	case 8: { int64_t sec = s.coin() ? static_cast<int64_t>(s.draw(1ull << 34)) : s.coin() ? static_cast<int64_t>(s.draw(0xffffffffull)) : s.integer<int64_t>(); uint32_t ns = s.coin() ? 0 : static_cast<uint32_t>(s.draw(1000000000)); return refmp::mkTs(sec, ns); }
	case 9: case 10: { size_t n = s.chance(1, 12) ? 14 + s.draw(6) : s.len(5); std::vector<Val> a; for (size_t i = 0; i < n; i++) a.push_back(gen_tree(s, depth - 1, typedKeys)); return refmp::mkArr(a); }
	default: { size_t n = s.chance(1, 12) ? 14 + s.draw(6) : s.len(5); std::vector<std::pair<Val, Val>> m; for (size_t i = 0; i < n; i++) m.push_back({ gen_key(s, i, typedKeys), gen_tree(s, depth - 1, typedKeys) }); return refmp::mkMap(m); }
	}
}
bool has_nil(const Val& v) { if (v.t == RT::Nil) return true; for (auto& e : v.arr) if (has_nil(e)) return true; for (auto& e : v.map) if (has_nil(e.second)) return true; return false; }
bool marked_not_loaded(const Val& v) { if (v.fmt == 0xc1) return true; for (auto& e : v.arr) if (marked_not_loaded(e)) return true; for (auto& e : v.map) if (marked_not_loaded(e.second)) return true; return false; }

Cfg gen_read_cfg(vf::Src& s) { Cfg c; c.stream = s.coin(); c.streamKind = c.stream ? gen_stream_kind(s, true) : 0; c.chunk = 1 + s.draw(20); return c; }

} // namespace

VF_PROPERTY(typed_adversarial_encoding, 6, "typed model value -> its MessagePack tree -> independent encoder choosing any legal format per node (fixint vs uint8..64 vs int8..64, fixstr vs str8/16/32, bin8/16/32, fixarray vs array16/32, fixmap vs map16/32, float32 <-> float64 when exact, fixext vs ext8/16/32 timestamps in any sufficient layout) and any map key order -> loaded into the typed target from memory and streams: must equal the value; non-trivial = at least one non-minimal format, flipped float width or shuffled map")
{
	const size_t lo = MODEL_GROUP < 0 ? 0 : group_first[MODEL_GROUP], hi = MODEL_GROUP < 0 ? group_first[3] : group_first[MODEL_GROUP + 1];
	const size_t idx = lo + c.src.draw(hi - lo);
	with_model(idx, [&](auto tag, const char* tname) { using T = typename decltype(tag)::type;
		GenCtx g = GenCtx::forArch(MSGPACK); T value = gen<T>(c.src, g);
		Val tree = mdl::to_ref(value); bool nonMinimal = false, shuffled = false, flipped = false;
		// element order carries meaning in arrays of pairs (multimaps); keys of real maps may come in any order
		if constexpr (!is_multimap_like<T>) shuffle_maps(tree, c.src, shuffled);
		flip_float_width(tree, c.src, flipped);
		g_usedTs96 = false; std::string bytes; encode_tree(bytes, tree, c.src, true, nonMinimal, true); if (g_usedTs96) c.label("excluded:KF-35-ts96-field-order");
		const Cfg cfg = gen_read_cfg(c.src);
		c.nontrivial = nonMinimal || shuffled || flipped; c.label(vf::cat("type=", tname));
		c.describe(vf::cat(tname, " ", mdl::show(value), " bytes=", vf::hex(bytes.substr(0, 100)), " ", cfg.str()));
		try { Val chk = refmp::Decoder::document(bytes, true); if (!refmp::same(chk, tree)) c.fail("harness: reference encoder/decoder disagree", vf::hex(bytes)); } catch (const refmp::IllFormed& e) { c.fail("harness: reference encoder produced an ill-formed document", e.what()); }
		T loaded{}; Outcome lo2 = load<MsgPackArchive>(loaded, bytes, cfg);
		const std::string d = vf::cat(tname, " ", mdl::show(value), " bytes=", vf::hex(bytes.substr(0, 200)), " [", cfg.str(), "] => ", lo2.str());
		if (!lo2.ok()) c.fail("a valid encoding of the value was rejected", d);
		if (!mdl::eq(loaded, value)) c.fail("a valid encoding loaded to a different value", d + " loaded=" + mdl::show(loaded));
	});
}

#if MODEL_GROUP < 0 || MODEL_GROUP == 0
VF_PROPERTY(dyn_tree_any_encoding, 5, "arbitrary-shape tree (nil, bool, int64, uint64, float32/64, str, bin, timestamp, arrays, maps with string / integer / float / timestamp keys; depth <= 4) encoded with any legal formats and key order, loaded through the public scope API into the tree's shape from memory and streams (IsEnd-driven arrays): equals what the reference decoder reads; non-trivial = non-minimal format or typed keys")
{
	const bool typedKeys = c.src.chance(1, 3); Val tree = gen_tree(c.src, 3, typedKeys); bool nonMinimal = false, shuffled = false;
	Val enc = tree; shuffle_maps(enc, c.src, shuffled);
	g_usedTs96 = false; std::string bytes; encode_tree(bytes, enc, c.src, true, nonMinimal, true); if (g_usedTs96) c.label("excluded:KF-35-ts96-field-order"); const Cfg cfg = gen_read_cfg(c.src);
	c.nontrivial = nonMinimal || typedKeys || shuffled;
	c.describe(vf::cat(refmp::show(tree).substr(0, 200), " bytes=", vf::hex(bytes.substr(0, 120)), " ", cfg.str()));
	Val target = dyn::shape(tree); dyn::LoadLog lg; Outcome lo = dyn::load<MsgPackArchive>(target, bytes, cfg, &lg);
	const std::string d = vf::cat(refmp::show(tree).substr(0, 300), " bytes=", vf::hex(bytes.substr(0, 240)), " [", cfg.str(), "] => ", lo.str(), " loaded=", refmp::show(target).substr(0, 300), lg.notes.empty() ? "" : " " + lg.notes[0]);
	if (!lo.ok()) c.fail("a valid encoding of the tree was rejected", d);
	if (lg.arraysShort || lg.arraysLong) c.fail("an array scope delivered a different number of elements than the document holds", d);
	// nil is "not loaded" for its target by design; everything else must be delivered
	if (!has_nil(tree) && (lg.notLoaded || marked_not_loaded(target))) c.fail("a present value was reported as not loaded", d);
	if (!has_nil(tree) && !refmp::same(target, tree)) c.fail("the loader delivered something else than the reference decoder reads", d);
}

// members the target does not know (and map entries rejected by a Skip policy) are skipped whatever they hold - application-defined ext
// values of every size class included - and the known members behind them are still delivered
namespace {
Val gen_any(vf::Src& s, int depth) {
	if (s.chance(1, 3)) { static const size_t sizes[] = { 1, 2, 4, 8, 16, 0, 3, 5, 17, 255, 256, 300 }; Val v; v.t = RT::Ext; v.extType = static_cast<int8_t>(s.coin() ? 1 + static_cast<int>(s.draw(126)) : -2 - static_cast<int>(s.draw(100))); v.s = std::string(sizes[s.draw(12)], static_cast<char>(0x80 + s.draw(0x20))); return v; }
	if (depth > 0 && s.chance(1, 4)) { std::vector<Val> a; for (size_t n = s.draw(4); n > 0; n--) a.push_back(gen_any(s, depth - 1)); return refmp::mkArr(a); }
	if (depth > 0 && s.chance(1, 4)) { std::vector<std::pair<Val, Val>> m; for (size_t n = s.draw(3), i = 0; i < n; i++) m.push_back({ refmp::mkStr("u" + std::to_string(i)), gen_any(s, depth - 1) }); return refmp::mkMap(m); }
	return gen_tree(s, 0, false);
}
}
VF_PROPERTY(unknown_members_skipped, 3, "object with 1..5 known members (integers, strings) interleaved with 0..5 members the target does not know, holding anything (scalars, nested containers, application-defined ext values of every fixext / ext8 / ext16 size class, timestamps), rendered by the reference encoder in any legal widths; loaded into a target that lists only the known members in any order, from memory and streams, followed by a sentinel: every known member is delivered exactly; non-trivial = an unknown member holds an ext value or a container")
{
	std::vector<std::pair<Val, Val>> doc, known; bool nt = false; const size_t nk = 1 + c.src.draw(5);
	for (size_t i = 0; i < nk; i++) { for (size_t u = c.src.draw(3); u > 0; u--) { Val v = gen_any(c.src, 2); if (v.t == RT::Ext || v.t == RT::Arr || v.t == RT::Map) nt = true; doc.push_back({ refmp::mkStr(vf::cat("unknown", doc.size())), v }); }
		Val kv = c.src.coin() ? refmp::mkInt(-1 - static_cast<int64_t>(c.src.draw(100000))) : refmp::mkStr("value" + std::to_string(c.src.draw(1000))); doc.push_back({ refmp::mkStr(vf::cat("k", i)), kv }); known.push_back(doc.back()); }
	if (c.src.coin()) { Val v = gen_any(c.src, 2); if (v.t == RT::Ext) nt = true; doc.push_back({ refmp::mkStr("unknown_tail"), v }); }
	const Val env = refmp::mkArr({ refmp::mkMap(doc), refmp::mkStr("sentinel") });
	bool nm = false; std::string bytes; encode_tree(bytes, env, c.src, c.src.coin(), nm, true); const Cfg cfg = gen_read_cfg(c.src);
	for (size_t k = known.size(); k > 1; k--) if (c.src.coin()) std::swap(known[k - 1], known[c.src.draw(k)]);   // request order
	c.nontrivial = nt; c.describe(vf::cat("unknown members: ", refmp::show(refmp::mkMap(doc)).substr(0, 200), " ", cfg.str()));
	Val target = refmp::mkArr({ dyn::shape(refmp::mkMap(known)), refmp::mkStr("") }); Outcome lo = dyn::load<MsgPackArchive>(target, bytes, cfg);
	const std::string d = vf::cat(vf::hex(bytes.substr(0, 200)), " of ", refmp::show(env).substr(0, 300), " [", cfg.str(), "] => ", lo.str(), " loaded ", refmp::show(target).substr(0, 200));
	if (!lo.ok()) c.fail("a valid encoding of the tree was rejected", d);
	if (!refmp::same(target, refmp::mkArr({ refmp::mkMap(known), refmp::mkStr("sentinel") }))) c.fail("the loader delivered something else than the reference decoder reads", d);
}

VF_PROPERTY(typed_key_maps_with_skipped_entries, 2, "maps with integer keys loaded into std::map<uint8_t,int> / std::map<int16_t,std::string> under the Skip policies from a document in which some keys do not fit the key type or are strings: those entries are skipped, every other entry is delivered with its own value, the data behind the map still loads; any legal encoding, memory and streams; non-trivial = a skipped entry is followed by a loadable one")
{
	const bool small = c.src.coin(); std::vector<std::pair<Val, Val>> doc; std::map<int64_t, Val> want; bool skippedBefore = false, nt = false; const size_t n = 1 + c.src.draw(6);
	for (size_t i = 0; i < n; i++) {
		Val key; bool fits = true; const int64_t lim = small ? 255 : 32767, low = small ? 0 : -32768;
		switch (c.src.draw(4)) { case 0: key = refmp::mkInt(lim + 1 + static_cast<int64_t>(c.src.draw(1000))); fits = false; break; case 1: key = small ? refmp::mkInt(-1 - static_cast<int64_t>(c.src.draw(100))) : refmp::mkInt(low - 1 - static_cast<int64_t>(c.src.draw(100))); fits = false; break; case 2: key = refmp::mkStr("key" + std::to_string(i)); fits = false; break; default: { int64_t k = low + static_cast<int64_t>(c.src.draw(static_cast<uint64_t>(lim - low + 1))); if (want.count(k)) k = lim - static_cast<int64_t>(i); key = refmp::mkInt(k); if (want.count(k)) fits = false; } }
		Val value = small ? refmp::mkInt(static_cast<int64_t>(c.src.draw(100000)) - 50000) : refmp::mkStr("v" + std::to_string(c.src.draw(1000)));
		if (fits) { want[static_cast<int64_t>(refmp::intValue(key))] = value; if (skippedBefore) nt = true; } else { if (key.t != RT::Str || true) skippedBefore = true; }
		bool dup = false; for (auto& kv : doc) if (refmp::same(kv.first, key)) dup = true; if (dup) { if (fits) want.erase(static_cast<int64_t>(refmp::intValue(key))); continue; }
		doc.push_back({ key, value });
	}
	const Val env = refmp::mkArr({ refmp::mkMap(doc), refmp::mkStr("sentinel") }); bool nm = false; std::string bytes; encode_tree(bytes, env, c.src, c.src.coin(), nm, true);
	Cfg cfg = gen_read_cfg(c.src); cfg.opt.overflowNumberPolicy = OverflowNumberPolicy::Skip; cfg.opt.mismatchedTypesPolicy = MismatchedTypesPolicy::Skip;
	c.nontrivial = nt; c.describe(vf::cat("typed-key map ", small ? "uint8" : "int16", " ", refmp::show(refmp::mkMap(doc)).substr(0, 200), " ", cfg.str()));
	std::string got, wantS; Outcome lo; std::string sentinel;
	if (small) { std::tuple<std::map<uint8_t, int>, std::string> t; lo = load<MsgPackArchive>(t, bytes, cfg); for (auto& kv : std::get<0>(t)) got += vf::cat(static_cast<int>(kv.first), "=", kv.second, " "); sentinel = std::get<1>(t); for (auto& kv : want) wantS += vf::cat(kv.first, "=", static_cast<int64_t>(refmp::intValue(kv.second)), " "); }
	else { std::tuple<std::map<int16_t, std::string>, std::string> t; lo = load<MsgPackArchive>(t, bytes, cfg); for (auto& kv : std::get<0>(t)) got += vf::cat(kv.first, "=", kv.second, " "); sentinel = std::get<1>(t); for (auto& kv : want) wantS += vf::cat(kv.first, "=", kv.second.s, " "); }
	const std::string d = vf::cat(vf::hex(bytes.substr(0, 160)), " of ", refmp::show(env).substr(0, 300), " [", cfg.str(), "] => ", lo.str(), " loaded {", got, "} want {", wantS, "} sentinel='", sentinel, "'");
	if (!lo.ok()) c.fail("a valid encoding of the tree was rejected", d);
	if (got != wantS || sentinel != "sentinel") c.fail("the loader delivered something else than the reference decoder reads", d);
}

VF_PROPERTY(truncated_documents, 3, "every strict prefix of a valid document (typed class / dynamic tree) must be rejected with a SerializationException - from memory and from streams; non-trivial = prefix ends inside a nested container")
{
	Val tree = gen_tree(c.src, 3, c.src.chance(1, 4)); if (tree.t != RT::Arr && tree.t != RT::Map) tree = refmp::mkArr({ tree, refmp::mkStr("tail") });
	bool nm = false; std::string bytes; encode_tree(bytes, tree, c.src, c.src.coin(), nm, true);
	if (bytes.size() < 2) c.discard("tiny");
	const size_t cut = c.src.draw(bytes.size()); const std::string pre = bytes.substr(0, cut); const Cfg cfg = gen_read_cfg(c.src);
	c.nontrivial = cut > 1; c.describe(vf::cat("cut ", cut, "/", bytes.size(), " ", vf::hex(pre.substr(0, 120)), " ", cfg.str()));
	Val target = dyn::shape(tree);
	// a target that does not know every member: the unknown ones are skipped (by key lookup or when the scope is closed); truncation inside them must still be noticed
	if (c.src.chance(1, 3)) { std::function<void(Val&)> prune = [&](Val& n) { if (n.t == RT::Map) { for (size_t i = n.map.size(); i > 0; i--) if (c.src.chance(1, 2)) n.map.erase(n.map.begin() + static_cast<long>(i - 1)); for (auto& kv : n.map) prune(kv.second); } else if (n.t == RT::Arr) for (auto& e : n.arr) prune(e); }; prune(target); c.label("partial-target"); }
	Outcome lo = dyn::load<MsgPackArchive>(target, pre, cfg);
	const std::string d = vf::cat("prefix ", cut, "/", bytes.size(), " ", vf::hex(pre.substr(0, 200)), " of ", refmp::show(tree).substr(0, 200), " target-shape ", refmp::show(target).substr(0, 200), " [", cfg.str(), "] => ", lo.str());
	if (lo.ok()) c.fail("a truncated document was accepted", d);
	if (lo.k != Outcome::SerEx) c.fail("a truncated document was rejected with something else than a SerializationException", d);
	if (lo.code != SerializationErrorCode::ParsingError && lo.code != SerializationErrorCode::OutOfRange) c.fail("a truncated document was rejected with an unexpected error code", d);
}

VF_PROPERTY(corrupted_documents, 5, "one byte of a valid document is replaced (at a node's format byte, a length byte or a payload byte): if the reference decoder still reads one well-formed object, loading into THAT object's shape must deliver exactly it; otherwise loading into the original shape must end with a SerializationException or a complete in-shape value - never with a crash or a std:: exception; non-trivial = the corruption changes the structure")
{
	Val tree = gen_tree(c.src, 3, false); if (tree.t != RT::Arr && tree.t != RT::Map) tree = refmp::mkArr({ tree, refmp::mkStr("tail") });
	bool nm = false; std::string bytes; encode_tree(bytes, tree, c.src, c.src.coin(), nm, true);
	std::vector<size_t> offs; node_offsets(bytes, offs);
	size_t pos = c.src.coin() && !offs.empty() ? offs[c.src.draw(offs.size())] : c.src.draw(bytes.size());
	if (c.src.chance(1, 3) && pos + 1 < bytes.size()) pos++;
	std::string bad = bytes; uint8_t nb; do { static const uint8_t interesting[] = { 0xc0, 0xc1, 0xc2, 0xc4, 0xc7, 0xca, 0xcb, 0xcc, 0xcf, 0xd0, 0xd3, 0xd6, 0xd7, 0xd9, 0xdb, 0xdc, 0xdd, 0xde, 0xdf, 0x80, 0x8f, 0x90, 0x9f, 0xa0, 0xbf, 0x00, 0x7f, 0xe0, 0xff }; nb = c.src.coin() ? interesting[c.src.draw(sizeof interesting)] : static_cast<uint8_t>(c.src.draw(256)); } while (nb == static_cast<uint8_t>(bytes[pos]));
	bad[pos] = static_cast<char>(nb); const Cfg cfg = gen_read_cfg(c.src);
	c.describe(vf::cat("pos ", pos, " ", std::hex, +static_cast<uint8_t>(bytes[pos]), "->", +nb, " ", vf::hex(bad.substr(0, 120)), " ", cfg.str()));
	Val reread; bool wf = true; size_t used = 0; try { refmp::Decoder dec(bad, true); reread = dec.value(); used = dec.pos(); } catch (const refmp::IllFormed&) { wf = false; }
	auto supported = [&](const Val& v, auto&& self) -> bool { if (v.t == RT::Ext) return false; for (auto& e : v.arr) if (!self(e, self)) return false; for (auto& e : v.map) { if (e.first.t == RT::Nil || e.first.t == RT::Bool || e.first.t == RT::Arr || e.first.t == RT::Map || e.first.t == RT::Bin || e.first.t == RT::Ext) return false; if (!self(e.second, self)) return false; } return true; };
	auto dupKeys = [&](const Val& v, auto&& self) -> bool { for (size_t i = 0; i < v.map.size(); i++) for (size_t j = i + 1; j < v.map.size(); j++) if (refmp::same(v.map[i].first, v.map[j].first)) return true; for (auto& e : v.arr) if (self(e, self)) return true; for (auto& e : v.map) if (self(e.second, self)) return true; return false; };
	c.nontrivial = !wf || !refmp::same(dyn::shape(reread), dyn::shape(tree));
	if (wf && used == bad.size() && supported(reread, supported) && !dupKeys(reread, dupKeys) && !has_nil(reread)) {
		c.label("still-well-formed");
		Val target = dyn::shape(reread); dyn::LoadLog lg; Outcome lo = dyn::load<MsgPackArchive>(target, bad, cfg, &lg);
		const std::string d = vf::cat(vf::hex(bad.substr(0, 240)), " reference reads ", refmp::show(reread).substr(0, 300), " [", cfg.str(), "] => ", lo.str(), " loaded=", refmp::show(target).substr(0, 300));
		if (!lo.ok()) c.fail("a well-formed (corrupted) document was rejected when loaded into its own shape", d);
		if (lg.arraysShort || lg.arraysLong || lg.notLoaded || !refmp::same(target, reread)) c.fail("the loader delivered something else than the reference decoder reads", d);
	}
	else {
		c.label(wf ? "well-formed-but-outside-model" : "ill-formed");
		Val target = dyn::shape(tree); Outcome lo = dyn::load<MsgPackArchive>(target, bad, cfg);
		const std::string d = vf::cat(vf::hex(bad.substr(0, 240)), " [", cfg.str(), "] => ", lo.str());
		if (lo.k == Outcome::StdEx || lo.k == Outcome::Unknown) c.fail("a corrupted document ended in an exception that is not a SerializationException", d);
	}
}

VF_PROPERTY(special_float_keys, 2, "maps whose keys are float64 / float32 values including +0.0, -0.0, infinities, NaN (several payloads), subnormals, in any order and width, loaded into std::map<double,int>, std::unordered_map<double,int> and std::map<float,int> from memory and streams: the load terminates, and every key that is not NaN is present with its value; non-trivial = at least one NaN or zero key")
{
	size_t n = 1 + c.src.len(12); std::vector<std::pair<Val, Val>> m; bool special = false; std::vector<std::pair<double, int>> want;
	for (size_t i = 0; i < n; i++) {
		double k; switch (c.src.draw(7)) { case 0: k = 0.0; special = true; break; case 1: k = -0.0; special = true; break; case 2: { uint64_t b = 0x7ff8000000000000ull | c.src.draw(1 << 20) | (c.src.coin() ? 0x8000000000000000ull : 0); memcpy(&k, &b, 8); special = true; break; } case 3: k = c.src.coin() ? INFINITY : -INFINITY; break; case 4: k = 4.9e-324 * static_cast<double>(1 + c.src.draw(5)); break; default: k = static_cast<double>(static_cast<int>(c.src.draw(41)) - 20) * 0.5; break; }
		const int v = static_cast<int>(i) + 1; const bool asF32 = c.src.chance(1, 4) && static_cast<double>(static_cast<float>(k)) == k;
		m.push_back({ asF32 ? refmp::mkF32(static_cast<float>(k)) : refmp::mkF64(k), refmp::mkInt(v) });
		if (!std::isnan(k)) { bool dup = false; for (auto& w : want) if (w.first == k) { w.second = v; dup = true; } if (!dup) want.push_back({ k, v }); }
	}
	bool nm = false; std::string bytes; encode_tree(bytes, refmp::mkMap(m), c.src, true, nm, true); const Cfg cfg = gen_read_cfg(c.src);
	c.nontrivial = special; c.describe(vf::cat("float keys n=", n, " ", vf::hex(bytes.substr(0, 120)), " ", cfg.str()));
	auto check = [&](auto& target, const char* tn) {
		Outcome lo = load<MsgPackArchive>(target, bytes, cfg); const std::string d = vf::cat(tn, " ", vf::hex(bytes.substr(0, 240)), " [", cfg.str(), "] => ", lo.str(), " size=", target.size());
		if (!lo.ok()) c.fail("a valid map with floating-point keys was rejected", d);
		for (auto& w : want) { auto it = target.find(static_cast<typename std::decay_t<decltype(target)>::key_type>(w.first)); if (it == target.end()) c.fail("a non-NaN key is missing after loading", vf::cat(d, " key=", w.first)); }
	};
	std::map<double, int> md; check(md, "map<double,int>"); std::unordered_map<double, int> um; check(um, "unordered_map<double,int>");
	for (auto& w : want) if (um.find(w.first) != um.end() && um[w.first] != w.second && !(w.first == 0)) c.fail("a key is loaded with the value of another entry", vf::cat(vf::hex(bytes.substr(0, 240)), " key=", w.first, " value=", um[w.first], " want=", w.second));
}

VF_PROPERTY(kf35_reader_ts96, 1, "witness of KF-35 (reader side)")
{
	const int64_t secs = -1 - static_cast<int64_t>(c.src.draw(100000)); const uint32_t ns = static_cast<uint32_t>(c.src.draw(1000));
	std::string bytes = refmp::encodeMinimal(refmp::mkTs(secs, ns));   // spec-conformant: nanoseconds first
	c.describe(vf::cat("kf35r ", secs, ".", ns)); c.nontrivial = true;
	std::chrono::time_point<std::chrono::system_clock, std::chrono::nanoseconds> tp; Cfg cfg; Outcome lo = load<MsgPackArchive>(tp, bytes, cfg);
	const __int128 want = static_cast<__int128>(secs) * 1000000000 + ns;
	if (!lo.ok() || static_cast<__int128>(tp.time_since_epoch().count()) != want) c.fail("KF-35: a spec-conformant timestamp 96 (nanoseconds first) is mis-read: the reader expects seconds first", vf::cat(vf::hex(bytes), " => ", lo.str(), " ", lo.ok() ? std::to_string(tp.time_since_epoch().count()) : ""));
}
#endif

int main(int argc, char** argv) {
	if (const char* e = refmp::selftest()) { fprintf(stderr, "ORACLE SELF-TEST FAILED: ref_msgpack %s\n", e); return 2; }
	return vf::engine_main(argc, argv, "c07_msgpack_read");
}
