// ref_csv.h — independent strict RFC 4180 parser (ABNF of section 2, separator configurable) and a writer with
// free choices (quoting of fields that do not need it, CRLF or LF, optional final line break).
#pragma once
#include <string>
#include <vector>
#include <stdexcept>

namespace refcsv {
using Row = std::vector<std::string>;
struct Malformed : std::runtime_error { using std::runtime_error::runtime_error; };

// file = record *(CRLF record) [CRLF];  allowLF additionally accepts a bare LF as record separator (common practice, used for the converse direction only)
inline std::vector<Row> parse(const std::string& d, char sep, bool allowLF = false) {
	std::vector<Row> rows; Row cur; std::string f; size_t i = 0; const size_t n = d.size();
	auto endField = [&] { cur.push_back(f); f.clear(); };
	auto endRow = [&] { endField(); rows.push_back(cur); cur.clear(); };
	if (n == 0) return rows;
	for (;;) {
		if (i < n && d[i] == '"') {   // escaped = DQUOTE *(TEXTDATA / COMMA / CR / LF / 2DQUOTE) DQUOTE
			++i;
			for (;;) { if (i >= n) throw Malformed("unterminated quoted field"); if (d[i] == '"') { if (i + 1 < n && d[i + 1] == '"') { f.push_back('"'); i += 2; } else { ++i; break; } } else f.push_back(d[i++]); }
			if (i < n && d[i] != sep && d[i] != '\r' && !(allowLF && d[i] == '\n')) throw Malformed("text after closing quote");
		}
		else { while (i < n && d[i] != sep && d[i] != '\r' && d[i] != '\n') { if (d[i] == '"') throw Malformed("quote inside unquoted field"); f.push_back(d[i++]); } }   // non-escaped = *TEXTDATA
		if (i >= n) { endRow(); break; }
		if (d[i] == sep) { endField(); ++i; continue; }
		if (d[i] == '\r') { if (i + 1 < n && d[i + 1] == '\n') { i += 2; endRow(); if (i >= n) break; continue; } throw Malformed("bare CR outside quotes"); }
		if (d[i] == '\n') { if (!allowLF) throw Malformed("bare LF outside quotes"); ++i; endRow(); if (i >= n) break; continue; }
	}
	return rows;
}
inline bool needs_quote(const std::string& s, char sep) { return s.find_first_of(std::string("\"\r\n") + sep) != std::string::npos; }
inline std::string field(const std::string& s, char sep, bool forceQuote) { if (!forceQuote && !needs_quote(s, sep)) return s; std::string r = "\""; for (char c : s) { if (c == '"') r.push_back('"'); r.push_back(c); } r.push_back('"'); return r; }

inline const char* selftest() {
	try {
		auto r = parse("a,b\r\n1,\"x\"\"y\r\nz\"\r\n", ','); if (r.size() != 2 || r[1].size() != 2 || r[1][1] != "x\"y\r\nz") return "quoted field";
		r = parse("a,b\r\n1,", ','); if (r.size() != 2 || r[1].size() != 2 || r[1][1] != "") return "empty last field at EOF";
		r = parse("a\r\n\r\n", ','); if (r.size() != 2 || r[1][0] != "") return "empty record";
		bool t = false; try { parse("a\rb\r\n", ','); } catch (const Malformed&) { t = true; } if (!t) return "bare CR accepted";
		t = false; try { parse("a\"b\r\n", ','); } catch (const Malformed&) { t = true; } if (!t) return "quote in unquoted accepted";
		t = false; try { parse("a\nb", ','); } catch (const Malformed&) { t = true; } if (!t) return "bare LF accepted in strict mode";
		if (field("a;b", ';', false) != "\"a;b\"" || field("ab", ';', false) != "ab" || field("a\"b", ',', false) != "\"a\"\"b\"") return "field";
	} catch (...) { return "unexpected exception"; }
	return nullptr;
}
} // namespace refcsv
