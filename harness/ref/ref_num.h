// ref_num.h — independent reference for decimal number text <-> binary numbers.
// Literal recogniser written from the std::from_chars grammar (the one docs/bitserializer_convert.md names);
// values via __int128 arithmetic for integers and glibc strtof/strtod (correctly rounded, unrelated to
// libstdc++'s from_chars/to_chars implementation) for floating point.
#pragma once
#include <cstdint>
#include <cstring>
#include <cerrno>
#include <cstdlib>
#include <cmath>
#include <cctype>
#include <string>
#include <limits>

namespace refnum {

struct Lit { bool found = false; bool neg = false; bool special = false; size_t begin = 0, end = 0; std::string text; };

inline bool dig(char c) { return c >= '0' && c <= '9'; }
inline size_t skip_blanks(const std::string& s) { size_t i = 0; while (i < s.size() && (s[i] == ' ' || s[i] == '\t')) i++; return i; }

// Leading integer literal: [-]digits   (the minus only when allowMinus)
inline Lit int_literal(const std::string& s, bool allowMinus) {
	Lit L; size_t i = skip_blanks(s); L.begin = i;
	if (i < s.size() && s[i] == '-' && allowMinus) { L.neg = true; i++; }
	size_t d0 = i; while (i < s.size() && dig(s[i])) i++;
	if (i == d0) return L;
	L.found = true; L.end = i; L.text = s.substr(L.begin, i - L.begin); return L;
}
// Leading floating literal (chars_format::general): [-](digits[.digits]|.digits)[(e|E)[+-]digits] | [-]inf[inity] | [-]nan[(n-char-seq)]
inline Lit float_literal(const std::string& s) {
	Lit L; size_t i = skip_blanks(s); L.begin = i;
	if (i < s.size() && s[i] == '-') { L.neg = true; i++; }
	auto lower = [&](size_t k) { return k < s.size() ? static_cast<char>(std::tolower(static_cast<unsigned char>(s[k]))) : '\0'; };
	if (lower(i) == 'i' && lower(i + 1) == 'n' && lower(i + 2) == 'f') {
		size_t e = i + 3; if (lower(e) == 'i' && lower(e + 1) == 'n' && lower(e + 2) == 'i' && lower(e + 3) == 't' && lower(e + 4) == 'y') e += 5;
		L.found = L.special = true; L.end = e; L.text = s.substr(L.begin, e - L.begin); return L;
	}
	if (lower(i) == 'n' && lower(i + 1) == 'a' && lower(i + 2) == 'n') {
		size_t e = i + 3;
		if (e < s.size() && s[e] == '(') { size_t q = e + 1; while (q < s.size() && (std::isalnum(static_cast<unsigned char>(s[q])) || s[q] == '_')) q++; if (q < s.size() && s[q] == ')') e = q + 1; }
		L.found = L.special = true; L.end = e; L.text = s.substr(L.begin, e - L.begin); return L;
	}
	size_t d0 = i; while (i < s.size() && dig(s[i])) i++; size_t nd = i - d0, fr = 0;
	if (i < s.size() && s[i] == '.') { size_t j = i + 1; while (j < s.size() && dig(s[j])) j++; fr = j - (i + 1); if (nd + fr > 0) i = j; }
	if (nd + fr == 0) return L;
	if (i < s.size() && (s[i] == 'e' || s[i] == 'E')) { size_t j = i + 1; if (j < s.size() && (s[j] == '+' || s[j] == '-')) j++; size_t e0 = j; while (j < s.size() && dig(s[j])) j++; if (j > e0) i = j; }
	L.found = true; L.end = i; L.text = s.substr(L.begin, i - L.begin); return L;
}

enum Outcome { Value, Invalid, OutOfRange, InvalidOrOutOfRange, ValueOrOutOfRange };

// Expected outcome of parsing `s` into integer type T.
template <class T> Outcome expect_int(const std::string& s, __int128& want) {
	Lit L = int_literal(s, std::is_signed_v<T>);
	if (!L.found) {
		// a negative literal for an unsigned target has no literal in the from_chars grammar; the statement's mapping is
		// ambiguous here (the value does not fit / there is no literal): both exceptions are accepted
		if (std::is_unsigned_v<T> && int_literal(s, true).found) return InvalidOrOutOfRange;
		return Invalid;
	}
	// a literal that continues as a floating point number (fraction ".5" or exponent "e5" / "e+5") is a floating literal
	auto at = [&](size_t k) { return k < s.size() ? s[k] : '\0'; };
	const bool fractional = (at(L.end) == '.' && dig(at(L.end + 1))) || ((at(L.end) == 'e' || at(L.end) == 'E') && (dig(at(L.end + 1)) || ((at(L.end + 1) == '+' || at(L.end + 1) == '-') && dig(at(L.end + 2)))));
	__int128 v = 0; bool big = false;
	for (char c : L.text) { if (c == '-' || big) continue; v = v * 10 + (c - '0'); if (v > (static_cast<__int128>(1) << 100)) big = true; }
	if (L.neg) v = -v;
	const bool fits = !big && v >= static_cast<__int128>(std::numeric_limits<T>::min()) && v <= static_cast<__int128>(std::numeric_limits<T>::max());
	if (fractional) return fits ? Invalid : InvalidOrOutOfRange;
	if (!fits) return OutOfRange;
	want = v; return Value;
}
// Expected outcome for a floating target (T = float or double).
template <class T> Outcome expect_float(const std::string& s, T& want) {
	Lit L = float_literal(s);
	if (!L.found) return Invalid;
	errno = 0; char* endp = nullptr;
	want = sizeof(T) == 4 ? static_cast<T>(strtof(L.text.c_str(), &endp)) : static_cast<T>(strtod(L.text.c_str(), &endp));
	if (L.special) return Value;
	if (std::isinf(want)) return OutOfRange;
	if (errno == ERANGE && (want == 0 || std::fpclassify(want) == FP_SUBNORMAL)) return ValueOrOutOfRange;   // underflow
	if (std::fpclassify(want) == FP_SUBNORMAL) return ValueOrOutOfRange;
	return Value;
}

inline std::string dec(__int128 v) { if (v == 0) return "0"; bool n = v < 0; unsigned __int128 u = n ? static_cast<unsigned __int128>(-(v + 1)) + 1 : static_cast<unsigned __int128>(v); std::string r; while (u) { r.insert(r.begin(), static_cast<char>('0' + static_cast<int>(u % 10))); u /= 10; } if (n) r.insert(r.begin(), '-'); return r; }

// Number of significant digits in a decimal rendering (mantissa digits from first to last non-zero).
inline int sig_digits(const std::string& s) {
	std::string d; for (char c : s) { if (c == 'e' || c == 'E') break; if (dig(c)) d.push_back(c); }
	size_t z = d.find_first_not_of('0'); if (z == std::string::npos) return 0; d = d.substr(z); while (!d.empty() && d.back() == '0') d.pop_back(); return static_cast<int>(d.size());
}
// true when some decimal with fewer significant digits parses back (glibc) to exactly x
template <class T> bool shorter_exists(T x, const std::string& text) {
	int n = sig_digits(text); if (n <= 1) return false;
	char buf[80]; snprintf(buf, sizeof buf, "%.*e", n - 2, static_cast<double>(x));
	T q = sizeof(T) == 4 ? static_cast<T>(strtof(buf, nullptr)) : static_cast<T>(strtod(buf, nullptr));
	return std::memcmp(&q, &x, sizeof(T)) == 0;
}

// smallest number of significant digits whose correctly rounded decimal parses back (glibc) to exactly x, and the length of
// that decimal in std::to_chars scientific style (d[.ddd]e[+-]XX)
template <class T> int min_digits(T x, size_t* sciLen = nullptr) {
	auto back = [&](const char* t) { T q = sizeof(T) == 4 ? static_cast<T>(strtof(t, nullptr)) : static_cast<T>(strtod(t, nullptr)); return std::memcmp(&q, &x, sizeof(T)) == 0; };
	for (int n = 1; n <= 17; n++) {
		char buf[80]; snprintf(buf, sizeof buf, "%.*e", n - 1, static_cast<double>(x));
		// the correctly rounded n-digit decimal and its two neighbours in the last digit (the rounding interval of x is asymmetric
		// at powers of two, so the nearest n-digit decimal may fall outside while a neighbour is inside)
		const char* e = strchr(buf, 'e'); int ex = atoi(e + 1); bool neg = buf[0] == '-';
		unsigned long long m = 0; for (const char* p = buf; p < e; p++) if (dig(*p)) m = m * 10 + static_cast<unsigned>(*p - '0');
		bool ok = back(buf);
		for (int d = -1; d <= 1 && !ok; d += 2) {
			if (m == 0 && d < 0) continue;
			char cand[96]; snprintf(cand, sizeof cand, "%s%llue%d", neg ? "-" : "", m + static_cast<unsigned long long>(d), ex - (n - 1)); ok = back(cand);
		}
		if (ok) {
			if (sciLen) *sciLen = static_cast<size_t>((neg ? 1 : 0) + n + (n > 1 ? 1 : 0) + 2 + (std::abs(ex) >= 100 ? 3 : 2));
			return n;
		}
	}
	return 18;
}

inline const char* selftest() {
	__int128 w;
	if (expect_int<int8_t>("  -128x", w) != Value || w != -128) return "int8 -128";
	if (expect_int<int8_t>("128", w) != OutOfRange) return "int8 128";
	if (expect_int<uint8_t>("-1", w) != InvalidOrOutOfRange) return "uint8 -1";
	if (expect_int<int>("12.5", w) != Invalid) return "int 12.5";
	if (expect_int<int>("12.", w) != Value || w != 12) return "int 12.";
	if (expect_int<int>("1e5", w) != Invalid || expect_int<int>("1E-5", w) != Invalid || expect_int<int>("1e", w) != Value || expect_int<int>("1e+", w) != Value) return "int exponent";
	if (expect_int<int>("+5", w) != Invalid) return "int +5";
	if (expect_int<uint64_t>("18446744073709551615", w) != Value) return "u64 max";
	if (expect_int<uint64_t>("18446744073709551616", w) != OutOfRange) return "u64 max+1";
	double d; float f;
	if (expect_float<double>(" 1.5e2abc", d) != Value || d != 150.0) return "double 1.5e2";
	if (expect_float<double>(".5", d) != Value || d != 0.5) return "double .5";
	if (expect_float<double>("1e400", d) != OutOfRange) return "double 1e400";
	if (expect_float<double>("0x10", d) != Value || d != 0.0) return "double 0x10";
	if (expect_float<float>("3.4028236e38", f) != OutOfRange) return "float just above max";
	if (expect_float<double>("e5", d) != Invalid) return "double e5";
	if (expect_float<double>("-inf", d) != Value || !(d < 0 && std::isinf(d))) return "-inf";
	if (dec(static_cast<__int128>(INT64_MIN)) != "-9223372036854775808") return "dec";
	if (!shorter_exists(0.5, "0.50000000000000011") || shorter_exists(0.1, "0.1") || shorter_exists(5e-324, "5e-324")) return "shorter_exists";
	return nullptr;
}

} // namespace refnum
