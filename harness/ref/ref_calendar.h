// ref_calendar.h — independent proleptic-Gregorian calendar and ISO-8601 reference in __int128.
// Days <-> civil date by the Rata-Die floor-division formula (deliberately NOT Hinnant's era algorithm that
// BitSerializer uses); printer/parser per docs/bitserializer_convert.md ([±]YYYY-MM-DDThh:mm:ss[.SSS]Z, [±]PnWnDTnHnMnS).
#pragma once
#include <cstdint>
#include <cstdio>
#include <ctime>
#include <string>

namespace refcal {
using i128 = __int128;
inline i128 fdiv(i128 a, i128 b) { i128 q = a / b; if ((a % b != 0) && ((a < 0) != (b < 0))) --q; return q; }
inline i128 fmod_(i128 a, i128 b) { return a - fdiv(a, b) * b; }
inline bool leap(i128 y) { return fmod_(y, 4) == 0 && (fmod_(y, 100) != 0 || fmod_(y, 400) == 0); }
inline int dim(i128 y, int m) { static const int d[] = { 31, 28, 31, 30, 31, 30, 31, 31, 30, 31, 30, 31 }; return m == 2 && leap(y) ? 29 : d[m - 1]; }
// days since 1970-01-01 of y-m-d
inline i128 days_from_civil(i128 y, int m, int d) {
	i128 yy = y - 1; i128 days = 365 * yy + fdiv(yy, 4) - fdiv(yy, 100) + fdiv(yy, 400);
	static const int cum[] = { 0, 31, 59, 90, 120, 151, 181, 212, 243, 273, 304, 334 };
	days += cum[m - 1] + ((m > 2 && leap(y)) ? 1 : 0) + (d - 1);
	return days - 719162;   // days from 0001-01-01 to 1970-01-01
}
inline void civil_from_days(i128 z, i128& y, int& m, int& d) {
	i128 n = z + 719162; i128 c400 = fdiv(n, 146097); i128 r = n - c400 * 146097;
	i128 c100 = r / 36524; if (c100 == 4) c100 = 3; r -= c100 * 36524;
	i128 c4 = r / 1461; r -= c4 * 1461; i128 c1 = r / 365; if (c1 == 4) c1 = 3; r -= c1 * 365;
	y = c400 * 400 + c100 * 100 + c4 * 4 + c1 + 1; int mm = 1; while (r >= dim(y, mm)) { r -= dim(y, mm); ++mm; } m = mm; d = static_cast<int>(r) + 1;
}
inline std::string i128s(i128 v) { bool neg = v < 0; unsigned __int128 u = neg ? static_cast<unsigned __int128>(-(v + 1)) + 1 : static_cast<unsigned __int128>(v); std::string s; do { s.insert(s.begin(), static_cast<char>('0' + static_cast<int>(u % 10))); u /= 10; } while (u); if (neg) s.insert(s.begin(), '-'); return s; }

// Text of the instant  count * num/den  seconds after the epoch; fracDigits = digits printed for sub-second precisions (0 = none).
inline std::string print_instant(i128 count, i128 num, i128 den, int fracDigits) {
	i128 secs, frac = 0; if (den == 1) secs = count * num; else { secs = fdiv(count, den); frac = count - secs * den; }
	i128 days = fdiv(secs, 86400); i128 sod = secs - days * 86400; i128 y; int m, d; civil_from_days(days, y, m, d);
	std::string ys;
	if (y < 0) { std::string t = i128s(-y); while (t.size() < 4) t.insert(t.begin(), '0'); ys = "-" + t; }
	else { ys = i128s(y); while (ys.size() < 4) ys.insert(ys.begin(), '0'); if (y >= 10000) ys = "+" + ys; }
	char buf[64]; snprintf(buf, sizeof buf, "-%02d-%02dT%02d:%02d:%02d", m, d, static_cast<int>(sod / 3600), static_cast<int>(sod % 3600 / 60), static_cast<int>(sod % 60));
	std::string out = ys + buf;
	if (fracDigits > 0) { std::string f = i128s(frac); while (static_cast<int>(f.size()) < fracDigits) f.insert(f.begin(), '0'); out += "." + f; }
	return out + "Z";
}

// Strict reader of the documented duration form produced by the library: [-]P[nD][T[nH][nM][n[.f]S]]  (also accepts W and ',' and '+')
// Returns false when the text is not of that form.  Result in nanoseconds (exact).
inline bool parse_duration_ns(const std::string& s, i128& outNs) {
	size_t i = 0; bool neg = false; if (i < s.size() && (s[i] == '-' || s[i] == '+')) { neg = s[i] == '-'; i++; }
	if (i >= s.size() || s[i] != 'P') return false; i++;
	bool timePart = false, any = false; i128 total = 0; int lastOrder = -1;
	while (i < s.size()) {
		if (s[i] == 'T') { if (timePart) return false; timePart = true; i++; continue; }
		size_t d0 = i; i128 v = 0; while (i < s.size() && s[i] >= '0' && s[i] <= '9') { v = v * 10 + (s[i] - '0'); if (v > (static_cast<i128>(1) << 100)) return false; i++; }
		if (i == d0) return false;
		i128 fracNs = 0; bool hasFrac = false;
		if (i < s.size() && (s[i] == '.' || s[i] == ',')) { i++; size_t f0 = i; i128 scale = 100000000; while (i < s.size() && s[i] >= '0' && s[i] <= '9') { if (i - f0 >= 9) return false; fracNs += (s[i] - '0') * scale; scale /= 10; i++; } if (i == f0) return false; hasFrac = true; }
		if (i >= s.size()) return false; char u = s[i++]; i128 unit; int order;
		if (!timePart) { if (u == 'W') { unit = 604800; order = 0; } else if (u == 'D') { unit = 86400; order = 1; } else return false; }
		else { if (u == 'H') { unit = 3600; order = 2; } else if (u == 'M') { unit = 60; order = 3; } else if (u == 'S') { unit = 1; order = 4; } else return false; }
		if (hasFrac && u != 'S') return false;
		if (order <= lastOrder) return false; lastOrder = order;
		total += v * unit * 1000000000 + fracNs; any = true;
	}
	if (!any) return false;
	outNs = neg ? -total : total; return true;
}

// Self-test against fixed dates and glibc gmtime_r/timegm
inline const char* selftest() {
	if (days_from_civil(1970, 1, 1) != 0 || days_from_civil(2000, 3, 1) != 11017 || days_from_civil(1969, 12, 31) != -1 || days_from_civil(0, 3, 1) != -719468) return "days_from_civil";
	i128 y; int m, d; civil_from_days(-719468, y, m, d); if (y != 0 || m != 3 || d != 1) return "civil_from_days 0000-03-01";
	civil_from_days(11016, y, m, d); if (y != 2000 || m != 2 || d != 29) return "civil_from_days leap";
	for (long long t : { 0LL, -1LL, 951782400LL, -2208988800LL, 253402300799LL, 253402300800LL, -62167219200LL, -62167219201LL, 1700000000LL, 32503680000LL, -30610224000LL, 6307200000000LL, -6307200000000LL }) {
		time_t tt = static_cast<time_t>(t); struct tm g; gmtime_r(&tt, &g);
		i128 days = fdiv(t, 86400); civil_from_days(days, y, m, d);
		if (y != g.tm_year + 1900LL || m != g.tm_mon + 1 || d != g.tm_mday) return "disagrees with gmtime_r";
		if (days_from_civil(y, m, d) != days) return "round trip";
	}
	if (print_instant(-1500, 1, 1000, 3) != "1969-12-31T23:59:58.500Z") return "print negative ms";
	if (print_instant(253402300800LL, 1, 1, 0) != "+10000-01-01T00:00:00Z") return "print +10000";
	if (print_instant(-62167219201LL, 1, 1, 0) != "-0001-12-31T23:59:59Z") return "print -0001";
	i128 ns; if (!parse_duration_ns("-P1DT2H3M4.5S", ns) || ns != -(static_cast<i128>(93784) * 1000000000 + 500000000)) return "parse_duration";
	if (parse_duration_ns("P1Y", ns) || parse_duration_ns("PT", ns) || parse_duration_ns("P1H", ns) || parse_duration_ns("PT1.5M", ns)) return "parse_duration accepted bad";
	return nullptr;
}

} // namespace refcal
