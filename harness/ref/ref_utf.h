// ref_utf.h — independent reference for UTF-8/16/32 written from the Unicode Standard ch. 3
// (D92 / Table 3-7 "Well-Formed UTF-8 Byte Sequences", D91 UTF-16, D90 UTF-32).
// Shares no code or tables with BitSerializer.
#pragma once
#include <cstdint>
#include <string>
#include <vector>

namespace refutf {

using Scalars = std::u32string;

inline bool is_scalar(uint32_t c) { return c <= 0x10FFFF && !(c >= 0xD800 && c <= 0xDFFF); }
inline bool all_scalars(const Scalars& s) { for (char32_t c : s) if (!is_scalar(c)) return false; return true; }

// ---- UTF-8 ----------------------------------------------------------------------------------
// Length of the well-formed sequence starting at p (0 when none), per Table 3-7.
inline int wf8(const unsigned char* p, size_t n, char32_t* cp = nullptr) {
	if (n == 0) return 0;
	const unsigned b0 = p[0];
	auto in = [&](size_t i, unsigned lo, unsigned hi) { return i < n && p[i] >= lo && p[i] <= hi; };
	auto c2 = [&] { return static_cast<char32_t>(((b0 & 0x1Fu) << 6) | (p[1] & 0x3Fu)); };
	auto c3 = [&] { return static_cast<char32_t>(((b0 & 0x0Fu) << 12) | ((p[1] & 0x3Fu) << 6) | (p[2] & 0x3Fu)); };
	auto c4 = [&] { return static_cast<char32_t>(((b0 & 0x07u) << 18) | ((p[1] & 0x3Fu) << 12) | ((p[2] & 0x3Fu) << 6) | (p[3] & 0x3Fu)); };
	if (b0 <= 0x7F) { if (cp) *cp = b0; return 1; }
	if (b0 >= 0xC2 && b0 <= 0xDF) { if (in(1, 0x80, 0xBF)) { if (cp) *cp = c2(); return 2; } return 0; }
	if (b0 == 0xE0) { if (in(1, 0xA0, 0xBF) && in(2, 0x80, 0xBF)) { if (cp) *cp = c3(); return 3; } return 0; }
	if ((b0 >= 0xE1 && b0 <= 0xEC) || b0 == 0xEE || b0 == 0xEF) { if (in(1, 0x80, 0xBF) && in(2, 0x80, 0xBF)) { if (cp) *cp = c3(); return 3; } return 0; }
	if (b0 == 0xED) { if (in(1, 0x80, 0x9F) && in(2, 0x80, 0xBF)) { if (cp) *cp = c3(); return 3; } return 0; }
	if (b0 == 0xF0) { if (in(1, 0x90, 0xBF) && in(2, 0x80, 0xBF) && in(3, 0x80, 0xBF)) { if (cp) *cp = c4(); return 4; } return 0; }
	if (b0 >= 0xF1 && b0 <= 0xF3) { if (in(1, 0x80, 0xBF) && in(2, 0x80, 0xBF) && in(3, 0x80, 0xBF)) { if (cp) *cp = c4(); return 4; } return 0; }
	if (b0 == 0xF4) { if (in(1, 0x80, 0x8F) && in(2, 0x80, 0xBF) && in(3, 0x80, 0xBF)) { if (cp) *cp = c4(); return 4; } return 0; }
	return 0;
}
inline bool valid8(const std::string& s) { size_t i = 0; while (i < s.size()) { int l = wf8(reinterpret_cast<const unsigned char*>(s.data()) + i, s.size() - i); if (!l) return false; i += static_cast<size_t>(l); } return true; }
inline bool dec8(const std::string& s, Scalars& out) { size_t i = 0; while (i < s.size()) { char32_t c; int l = wf8(reinterpret_cast<const unsigned char*>(s.data()) + i, s.size() - i, &c); if (!l) return false; out.push_back(c); i += static_cast<size_t>(l); } return true; }
inline void enc8_one(char32_t c, std::string& o) {
	if (c < 0x80) o.push_back(static_cast<char>(c));
	else if (c < 0x800) { o.push_back(static_cast<char>(0xC0 | (c >> 6))); o.push_back(static_cast<char>(0x80 | (c & 0x3F))); }
	else if (c < 0x10000) { o.push_back(static_cast<char>(0xE0 | (c >> 12))); o.push_back(static_cast<char>(0x80 | ((c >> 6) & 0x3F))); o.push_back(static_cast<char>(0x80 | (c & 0x3F))); }
	else { o.push_back(static_cast<char>(0xF0 | (c >> 18))); o.push_back(static_cast<char>(0x80 | ((c >> 12) & 0x3F))); o.push_back(static_cast<char>(0x80 | ((c >> 6) & 0x3F))); o.push_back(static_cast<char>(0x80 | (c & 0x3F))); }
}
inline std::string enc8(const Scalars& s) { std::string o; for (char32_t c : s) enc8_one(c, o); return o; }
inline int utf8_len(char32_t c) { return c < 0x80 ? 1 : c < 0x800 ? 2 : c < 0x10000 ? 3 : 4; }
// Length the first byte of a (possibly ill-formed) sequence declares, legacy classes up to 6.
inline int declared8(unsigned char b) { if (b < 0xC0) return 1; if (b < 0xE0) return 2; if (b < 0xF0) return 3; if (b < 0xF8) return 4; if (b < 0xFC) return 5; if (b < 0xFE) return 6; return 1; }

// ---- UTF-16 (as code units in native order) ---------------------------------------------------
inline std::u16string enc16(const Scalars& s) {
	std::u16string o;
	for (char32_t c : s) { if (c < 0x10000) o.push_back(static_cast<char16_t>(c)); else { uint32_t v = c - 0x10000; o.push_back(static_cast<char16_t>(0xD800 + (v >> 10))); o.push_back(static_cast<char16_t>(0xDC00 + (v & 0x3FF))); } }
	return o;
}
// well-formed unit count at position (0 = ill-formed start)
inline int wf16(const char16_t* p, size_t n, char32_t* cp = nullptr) {
	if (n == 0) return 0; char16_t u = p[0];
	if (u < 0xD800 || u > 0xDFFF) { if (cp) *cp = u; return 1; }
	if (u <= 0xDBFF && n >= 2 && p[1] >= 0xDC00 && p[1] <= 0xDFFF) { if (cp) *cp = 0x10000 + (((static_cast<char32_t>(u) & 0x3FF) << 10) | (p[1] & 0x3FF)); return 2; }
	return 0;
}
inline bool dec16(const std::u16string& s, Scalars& out) { size_t i = 0; while (i < s.size()) { char32_t c; int l = wf16(s.data() + i, s.size() - i, &c); if (!l) return false; out.push_back(c); i += static_cast<size_t>(l); } return true; }
inline bool valid16(const std::u16string& s) { Scalars t; return dec16(s, t); }
inline std::u16string swap16(std::u16string s) { for (auto& u : s) u = static_cast<char16_t>((u >> 8) | (u << 8)); return s; }
inline std::u32string swap32(std::u32string s) { for (auto& u : s) u = ((u >> 24) & 0xFF) | ((u >> 8) & 0xFF00) | ((u << 8) & 0xFF0000) | (u << 24); return s; }

// ---- byte-level encodings (for streams) -------------------------------------------------------
enum Enc { U8 = 0, U16LE, U16BE, U32LE, U32BE };
inline const char* enc_name(int e) { static const char* n[] = { "UTF-8", "UTF-16LE", "UTF-16BE", "UTF-32LE", "UTF-32BE" }; return n[e]; }
inline std::string enc_bytes(const Scalars& s, int e) {
	std::string o;
	switch (e) {
	case U8: return enc8(s);
	case U16LE: for (char16_t u : enc16(s)) { o.push_back(static_cast<char>(u & 0xFF)); o.push_back(static_cast<char>(u >> 8)); } return o;
	case U16BE: for (char16_t u : enc16(s)) { o.push_back(static_cast<char>(u >> 8)); o.push_back(static_cast<char>(u & 0xFF)); } return o;
	case U32LE: for (char32_t u : s) { o.push_back(static_cast<char>(u & 0xFF)); o.push_back(static_cast<char>((u >> 8) & 0xFF)); o.push_back(static_cast<char>((u >> 16) & 0xFF)); o.push_back(static_cast<char>(u >> 24)); } return o;
	default: for (char32_t u : s) { o.push_back(static_cast<char>(u >> 24)); o.push_back(static_cast<char>((u >> 16) & 0xFF)); o.push_back(static_cast<char>((u >> 8) & 0xFF)); o.push_back(static_cast<char>(u & 0xFF)); } return o;
	}
}
inline std::string bom_bytes(int e) {
	switch (e) { case U8: return "\xEF\xBB\xBF"; case U16LE: return "\xFF\xFE"; case U16BE: return "\xFE\xFF"; case U32LE: return std::string("\xFF\xFE\x00\x00", 4); default: return std::string("\x00\x00\xFE\xFF", 4); }
}
inline int unit_size(int e) { return e == U8 ? 1 : (e == U16LE || e == U16BE) ? 2 : 4; }

inline std::string show(const Scalars& s) { std::string r; char b[16]; for (char32_t c : s) { snprintf(b, sizeof b, "U+%04X ", static_cast<unsigned>(c)); r += b; } return r; }

// Self-test with fixed vectors from the standard (returns nullptr when fine).
inline const char* selftest() {
	const Scalars s = { 0x41, 0x3A9, 0x8A9E, 0x10384, 0x10FFFF, 0x0, 0xFFFF, 0xD7FF, 0xE000 };
	const std::string u8 = std::string("\x41\xCE\xA9\xE8\xAA\x9E\xF0\x90\x8E\x84\xF4\x8F\xBF\xBF", 14) + std::string("\0", 1) + "\xEF\xBF\xBF\xED\x9F\xBF\xEE\x80\x80";
	if (enc8(s) != u8) return "enc8 vector";
	Scalars d; if (!dec8(u8, d) || d != s) return "dec8 vector";
	const std::u16string u16 = { 0x41, 0x3A9, 0x8A9E, 0xD800, 0xDF84, 0xDBFF, 0xDFFF, 0x0, 0xFFFF, 0xD7FF, 0xE000 };
	if (enc16(s) != u16) return "enc16 vector";
	Scalars d2; if (!dec16(u16, d2) || d2 != s) return "dec16 vector";
	for (const char* bad : { "\xC0\x80", "\xC1\xBF", "\xE0\x9F\xBF", "\xED\xA0\x80", "\xF0\x8F\xBF\xBF", "\xF4\x90\x80\x80", "\xF5\x80\x80\x80", "\x80", "\xE2\x82", "\xFF" }) if (valid8(bad)) return "valid8 accepted ill-formed";
	if (valid16(std::u16string{ 0xD800 }) || valid16(std::u16string{ 0xDC00, 0xD800 }) || valid16(std::u16string{ 0xD800, 0xE000 })) return "valid16 accepted ill-formed";
	if (enc_bytes({ 0x10384 }, U16BE) != std::string("\xD8\x00\xDF\x84", 4)) return "enc_bytes 16be";
	if (enc_bytes({ 0x10384 }, U32LE) != std::string("\x84\x03\x01\x00", 4)) return "enc_bytes 32le";
	return nullptr;
}

} // namespace refutf
