// ref_msgpack.h — independent reference MessagePack codec written from the specification
// (github.com/msgpack/msgpack/blob/master/spec.md).  Strict decoder (0xC1 reserved, truncation,
// Timestamp ext -1 must be 4/8/12 bytes with nanoseconds <= 999999999) annotated with the format
// used; encoder with free choice of any legal width / family.  Shares no code with BitSerializer.
#pragma once
#include <cstdint>
#include <cstring>
#include <string>
#include <vector>
#include <stdexcept>
#include <utility>
#include <memory>

namespace refmp {

enum class T { Nil, Bool, Int, UInt, F32, F64, Str, Bin, Arr, Map, Ext, Ts };
// format tag = first byte class
struct Val {
  T t = T::Nil;
  bool b = false; int64_t i = 0; uint64_t u = 0; float f = 0; double d = 0;
  std::string s;              // Str / Bin / Ext payload
  int8_t extType = 0;
  int64_t tsSec = 0; uint32_t tsNs = 0;
  std::vector<Val> arr;
  std::vector<std::pair<Val, Val>> map;
  uint8_t fmt = 0;            // first byte used by the encoding
  size_t hdrLen = 0;          // header size (format byte + length bytes)
};

struct IllFormed : std::runtime_error { size_t pos; bool truncated; IllFormed(const char* m, size_t p, bool tr=false): std::runtime_error(m), pos(p), truncated(tr) {} };

class Decoder {
public:
  // ts96SecondsFirst: read the 96-bit timestamp the way BitSerializer writes it (recorded finding KF-35); never used for verdicts of conformance
  explicit Decoder(const std::string& d, bool ts96SecondsFirst = false): d_(d), ts96SecondsFirst_(ts96SecondsFirst) {}
  size_t pos() const { return p_; }
  Val value(int depth = 0) {
    if (depth > 100000) throw IllFormed("too deep", p_);
    Val v; uint8_t c = u8(); v.fmt = c; size_t start = p_ - 1;
    if (c <= 0x7f) { v.t = T::UInt; v.u = c; }
    else if (c >= 0xe0) { v.t = T::Int; v.i = (int8_t)c; }
    else if (c >= 0x80 && c <= 0x8f) { mapBody(v, c & 0x0f, depth); }
    else if (c >= 0x90 && c <= 0x9f) { arrBody(v, c & 0x0f, depth); }
    else if (c >= 0xa0 && c <= 0xbf) { v.t = T::Str; v.s = bytes(c & 0x1f); }
    else switch (c) {
      case 0xc0: v.t = T::Nil; break;
      case 0xc1: throw IllFormed("0xc1 never used", start);
      case 0xc2: v.t = T::Bool; v.b = false; break;
      case 0xc3: v.t = T::Bool; v.b = true; break;
      case 0xc4: v.t = T::Bin; v.s = bytes(be(1)); break;
      case 0xc5: v.t = T::Bin; v.s = bytes(be(2)); break;
      case 0xc6: v.t = T::Bin; v.s = bytes(be(4)); break;
      case 0xc7: ext(v, be(1), start); break;
      case 0xc8: ext(v, be(2), start); break;
      case 0xc9: ext(v, be(4), start); break;
      case 0xca: { uint32_t x = (uint32_t)be(4); v.t = T::F32; memcpy(&v.f, &x, 4); break; }
      case 0xcb: { uint64_t x = be(8); v.t = T::F64; memcpy(&v.d, &x, 8); break; }
      case 0xcc: v.t = T::UInt; v.u = be(1); break;
      case 0xcd: v.t = T::UInt; v.u = be(2); break;
      case 0xce: v.t = T::UInt; v.u = be(4); break;
      case 0xcf: v.t = T::UInt; v.u = be(8); break;
      case 0xd0: v.t = T::Int; v.i = (int8_t)be(1); break;
      case 0xd1: v.t = T::Int; v.i = (int16_t)be(2); break;
      case 0xd2: v.t = T::Int; v.i = (int32_t)be(4); break;
      case 0xd3: v.t = T::Int; v.i = (int64_t)be(8); break;
      case 0xd4: ext(v, 1, start); break;
      case 0xd5: ext(v, 2, start); break;
      case 0xd6: ext(v, 4, start); break;
      case 0xd7: ext(v, 8, start); break;
      case 0xd8: ext(v, 16, start); break;
      case 0xd9: v.t = T::Str; v.s = bytes(be(1)); break;
      case 0xda: v.t = T::Str; v.s = bytes(be(2)); break;
      case 0xdb: v.t = T::Str; v.s = bytes(be(4)); break;
      case 0xdc: arrBody(v, be(2), depth); break;
      case 0xdd: arrBody(v, be(4), depth); break;
      case 0xde: mapBody(v, be(2), depth); break;
      case 0xdf: mapBody(v, be(4), depth); break;
    }
    return v;
  }
  // one complete object consuming all input
  static Val document(const std::string& d, bool ts96SecondsFirst = false) { Decoder dec(d, ts96SecondsFirst); Val v = dec.value(); if (dec.p_ != d.size()) throw IllFormed("trailing bytes", dec.p_); return v; }
private:
  uint8_t u8() { if (p_ >= d_.size()) throw IllFormed("truncated", p_, true); return (uint8_t)d_[p_++]; }
  uint64_t be(int n) { uint64_t r = 0; for (int k = 0; k < n; k++) r = (r << 8) | u8(); return r; }
  std::string bytes(uint64_t n) { if (n > d_.size() - p_) { throw IllFormed("truncated payload", p_, true); } std::string r = d_.substr(p_, n); p_ += n; return r; }
  void arrBody(Val& v, uint64_t n, int depth) { v.t = T::Arr; if (n > d_.size() - p_) throw IllFormed("truncated array", p_, true); v.arr.reserve(n); for (uint64_t k = 0; k < n; k++) v.arr.push_back(value(depth + 1)); }
  void mapBody(Val& v, uint64_t n, int depth) { v.t = T::Map; if (n > (d_.size() - p_)) throw IllFormed("truncated map", p_, true); for (uint64_t k = 0; k < n; k++) { Val key = value(depth + 1); Val val = value(depth + 1); v.map.emplace_back(std::move(key), std::move(val)); } }
  void ext(Val& v, uint64_t n, size_t start) {
    int8_t ty = (int8_t)u8(); std::string pl = bytes(n);
    if (ty == -1) {
      v.t = T::Ts;
      auto rd = [&](size_t off, int len) { uint64_t r = 0; for (int k = 0; k < len; k++) r = (r << 8) | (uint8_t)pl[off + k]; return r; };
      if (n == 4) { v.tsSec = (int64_t)rd(0, 4); v.tsNs = 0; }
      else if (n == 8) { uint64_t x = rd(0, 8); v.tsNs = (uint32_t)(x >> 34); v.tsSec = (int64_t)(x & 0x3ffffffffULL); }
      else if (n == 12) { if (ts96SecondsFirst_) { v.tsSec = (int64_t)rd(0, 8); v.tsNs = (uint32_t)rd(8, 4); } else { v.tsNs = (uint32_t)rd(0, 4); v.tsSec = (int64_t)rd(4, 8); } }
      else throw IllFormed("timestamp with invalid length", start);
      if (v.tsNs > 999999999u) throw IllFormed("timestamp nanoseconds out of range", start);
    } else { v.t = T::Ext; v.extType = ty; v.s = pl; }
  }
  const std::string& d_; size_t p_ = 0; bool ts96SecondsFirst_ = false;
};

// ---- encoder with explicit format choice --------------------------------------------------
inline void put(std::string& o, uint64_t x, int n) { for (int k = n - 1; k >= 0; k--) o.push_back((char)((x >> (8 * k)) & 0xff)); }

// integer: choice 0 = minimal; otherwise index into list of legal formats for this value

struct IntFmt { enum F { PosFix, NegFix, U8, U16, U32, U64, I8, I16, I32, I64 }; };
inline std::vector<int> legalFormatsSigned(int64_t v) {
  std::vector<int> r;
  if (v >= 0 && v <= 127) r.push_back(IntFmt::PosFix);
  if (v < 0 && v >= -32) r.push_back(IntFmt::NegFix);
  if (v >= 0) { if (v <= 0xff) r.push_back(IntFmt::U8); if (v <= 0xffff) r.push_back(IntFmt::U16); if (v <= 0xffffffffLL) r.push_back(IntFmt::U32); r.push_back(IntFmt::U64); }
  if (v >= -128 && v <= 127) r.push_back(IntFmt::I8);
  if (v >= -32768 && v <= 32767) r.push_back(IntFmt::I16);
  if (v >= INT32_MIN && v <= INT32_MAX) r.push_back(IntFmt::I32);
  r.push_back(IntFmt::I64);
  return r;
}
inline std::vector<int> legalFormatsUnsigned(uint64_t v) {
  if (v <= (uint64_t)INT64_MAX) return legalFormatsSigned((int64_t)v);
  return { IntFmt::U64 };
}
inline size_t intFormatSize(int f) { switch (f) { case IntFmt::PosFix: case IntFmt::NegFix: return 1; case IntFmt::U8: case IntFmt::I8: return 2; case IntFmt::U16: case IntFmt::I16: return 3; case IntFmt::U32: case IntFmt::I32: return 5; default: return 9; } }
inline void encodeInt(std::string& o, uint64_t bits /* two's complement */, int f) {
  switch (f) {
    case IntFmt::PosFix: case IntFmt::NegFix: o.push_back((char)(bits & 0xff)); break;
    case IntFmt::U8: o.push_back((char)0xcc); put(o, bits, 1); break;
    case IntFmt::U16: o.push_back((char)0xcd); put(o, bits, 2); break;
    case IntFmt::U32: o.push_back((char)0xce); put(o, bits, 4); break;
    case IntFmt::U64: o.push_back((char)0xcf); put(o, bits, 8); break;
    case IntFmt::I8: o.push_back((char)0xd0); put(o, bits, 1); break;
    case IntFmt::I16: o.push_back((char)0xd1); put(o, bits, 2); break;
    case IntFmt::I32: o.push_back((char)0xd2); put(o, bits, 4); break;
    case IntFmt::I64: o.push_back((char)0xd3); put(o, bits, 8); break;
  }
}
inline size_t minimalIntSize(bool isNeg, uint64_t bits) {
  size_t best = 9;
  auto fs = isNeg ? legalFormatsSigned((int64_t)bits) : legalFormatsUnsigned(bits);
  for (int f : fs) best = std::min(best, intFormatSize(f));
  return best;
}
// header length choices: 0 = fix (if legal), 1 = 8-bit, 2 = 16-bit, 4 = 32-bit
inline void encodeStrHdr(std::string& o, size_t n, int w) { if (w == 0) o.push_back((char)(0xa0 | n)); else if (w == 1) { o.push_back((char)0xd9); put(o, n, 1); } else if (w == 2) { o.push_back((char)0xda); put(o, n, 2); } else { o.push_back((char)0xdb); put(o, n, 4); } }
inline void encodeBinHdr(std::string& o, size_t n, int w) { if (w == 1) { o.push_back((char)0xc4); put(o, n, 1); } else if (w == 2) { o.push_back((char)0xc5); put(o, n, 2); } else { o.push_back((char)0xc6); put(o, n, 4); } }
inline void encodeArrHdr(std::string& o, size_t n, int w) { if (w == 0) o.push_back((char)(0x90 | n)); else if (w == 2) { o.push_back((char)0xdc); put(o, n, 2); } else { o.push_back((char)0xdd); put(o, n, 4); } }
inline void encodeMapHdr(std::string& o, size_t n, int w) { if (w == 0) o.push_back((char)(0x80 | n)); else if (w == 2) { o.push_back((char)0xde); put(o, n, 2); } else { o.push_back((char)0xdf); put(o, n, 4); } }
inline void encodeExtHdr(std::string& o, size_t n, int8_t ty, int w) {
  if (w == 0) { o.push_back((char)(n == 1 ? 0xd4 : n == 2 ? 0xd5 : n == 4 ? 0xd6 : n == 8 ? 0xd7 : 0xd8)); }
  else if (w == 1) { o.push_back((char)0xc7); put(o, n, 1); } else if (w == 2) { o.push_back((char)0xc8); put(o, n, 2); } else { o.push_back((char)0xc9); put(o, n, 4); }
  o.push_back((char)ty);
}
// timestamp payload in a chosen layout: 4, 8 or 12 (must be able to hold it)
inline std::string tsPayload(int64_t sec, uint32_t ns, int layout) {
  std::string p;
  if (layout == 4) put(p, (uint64_t)sec, 4);
  else if (layout == 8) put(p, ((uint64_t)ns << 34) | (uint64_t)sec, 8);
  else { put(p, ns, 4); put(p, (uint64_t)sec, 8); }
  return p;
}
inline std::vector<int> legalTsLayouts(int64_t sec, uint32_t ns) { std::vector<int> r; if (ns == 0 && sec >= 0 && sec <= 0xffffffffLL) r.push_back(4); if (sec >= 0 && sec < (1LL << 34)) r.push_back(8); r.push_back(12); return r; }


// ---- generic tree encoder with per-node format choice -----------------------------------------
// choose(n) must return a value in [0, n); 0 always selects the most compact legal format.
template <class Choose> void encode(std::string& o, const Val& v, Choose&& choose) {
  auto lenW = [&](size_t n, bool hasFix, size_t fixMax, bool has8) {
    std::vector<int> ws; if (hasFix && n <= fixMax) ws.push_back(0); if (has8 && n <= 0xff) ws.push_back(1); if (n <= 0xffff) ws.push_back(2); ws.push_back(4);
    return ws[choose(ws.size())]; };
  switch (v.t) {
  case T::Nil: o.push_back((char)0xc0); break;
  case T::Bool: o.push_back((char)(v.b ? 0xc3 : 0xc2)); break;
  case T::Int: { if (v.i >= 0) { auto fs = legalFormatsSigned(v.i); encodeInt(o, (uint64_t)v.i, fs[choose(fs.size())]); } else { auto fs = legalFormatsSigned(v.i); encodeInt(o, (uint64_t)v.i, fs[choose(fs.size())]); } break; }
  case T::UInt: { auto fs = legalFormatsUnsigned(v.u); encodeInt(o, v.u, fs[choose(fs.size())]); break; }
  case T::F32: { uint32_t x; memcpy(&x, &v.f, 4); o.push_back((char)0xca); put(o, x, 4); break; }
  case T::F64: { uint64_t x; memcpy(&x, &v.d, 8); o.push_back((char)0xcb); put(o, x, 8); break; }
  case T::Str: encodeStrHdr(o, v.s.size(), lenW(v.s.size(), true, 31, true)); o += v.s; break;
  case T::Bin: encodeBinHdr(o, v.s.size(), lenW(v.s.size(), false, 0, true)); o += v.s; break;
  case T::Arr: encodeArrHdr(o, v.arr.size(), lenW(v.arr.size(), true, 15, false)); for (auto& e : v.arr) encode(o, e, choose); break;
  case T::Map: encodeMapHdr(o, v.map.size(), lenW(v.map.size(), true, 15, false)); for (auto& kv : v.map) { encode(o, kv.first, choose); encode(o, kv.second, choose); } break;
  case T::Ts: { auto ls = legalTsLayouts(v.tsSec, v.tsNs); int l = ls[choose(ls.size())]; std::string p = tsPayload(v.tsSec, v.tsNs, l);
                std::vector<int> ws; if (l == 4 || l == 8) ws.push_back(0); ws.push_back(1); ws.push_back(2); ws.push_back(4); encodeExtHdr(o, p.size(), -1, ws[choose(ws.size())]); o += p; break; }
  case T::Ext: { std::vector<int> ws; size_t n = v.s.size(); if (n == 1 || n == 2 || n == 4 || n == 8 || n == 16) ws.push_back(0); if (n <= 0xff) ws.push_back(1); if (n <= 0xffff) ws.push_back(2); ws.push_back(4); encodeExtHdr(o, n, v.extType, ws[choose(ws.size())]); o += v.s; break; }
  }
}
inline std::string encodeMinimal(const Val& v) { std::string o; encode(o, v, [](size_t) { return size_t(0); }); return o; }

inline Val mkInt(int64_t i) { Val v; if (i >= 0) { v.t = T::UInt; v.u = (uint64_t)i; } else { v.t = T::Int; v.i = i; } return v; }
inline Val mkUInt(uint64_t u) { Val v; v.t = T::UInt; v.u = u; return v; }
inline Val mkStr(std::string s) { Val v; v.t = T::Str; v.s = std::move(s); return v; }
inline Val mkBin(std::string s) { Val v; v.t = T::Bin; v.s = std::move(s); return v; }
inline Val mkBool(bool b) { Val v; v.t = T::Bool; v.b = b; return v; }
inline Val mkF64(double d) { Val v; v.t = T::F64; v.d = d; return v; }
inline Val mkF32(float f) { Val v; v.t = T::F32; v.f = f; return v; }
inline Val mkNil() { return Val{}; }
inline Val mkTs(int64_t s, uint32_t ns) { Val v; v.t = T::Ts; v.tsSec = s; v.tsNs = ns; return v; }
inline Val mkArr(std::vector<Val> a = {}) { Val v; v.t = T::Arr; v.arr = std::move(a); return v; }
inline Val mkMap(std::vector<std::pair<Val, Val>> m = {}) { Val v; v.t = T::Map; v.map = std::move(m); return v; }

// integer value of a node as signed 128 (Int or UInt)
inline bool isInteger(const Val& v) { return v.t == T::Int || v.t == T::UInt; }
inline __int128 intValue(const Val& v) { return v.t == T::Int ? (__int128)v.i : (__int128)v.u; }

// structural equality (data model): integers by value, floats bitwise, everything else recursively
inline bool same(const Val& a, const Val& b) {
  if (isInteger(a) && isInteger(b)) return intValue(a) == intValue(b);
  if (a.t != b.t) return false;
  switch (a.t) {
  case T::Nil: return true; case T::Bool: return a.b == b.b;
  case T::F32: return memcmp(&a.f, &b.f, 4) == 0; case T::F64: return memcmp(&a.d, &b.d, 8) == 0;
  case T::Str: case T::Bin: return a.s == b.s; case T::Ext: return a.extType == b.extType && a.s == b.s;
  case T::Ts: return a.tsSec == b.tsSec && a.tsNs == b.tsNs;
  case T::Arr: if (a.arr.size() != b.arr.size()) return false; for (size_t i = 0; i < a.arr.size(); i++) if (!same(a.arr[i], b.arr[i])) return false; return true;
  case T::Map: if (a.map.size() != b.map.size()) return false; for (size_t i = 0; i < a.map.size(); i++) if (!same(a.map[i].first, b.map[i].first) || !same(a.map[i].second, b.map[i].second)) return false; return true;
  default: return false; }
}
inline std::string show(const Val& v) {
  auto hx = [](const std::string& s) { static const char* d = "0123456789abcdef"; std::string r; for (unsigned char c : s) { r.push_back(d[c >> 4]); r.push_back(d[c & 15]); } return r; };
  switch (v.t) {
  case T::Nil: return "nil"; case T::Bool: return v.b ? "true" : "false"; case T::Int: return std::to_string(v.i); case T::UInt: return std::to_string(v.u) + "u";
  case T::F32: { char b[48]; snprintf(b, sizeof b, "%.9gf", (double)v.f); return b; } case T::F64: { char b[48]; snprintf(b, sizeof b, "%.17g", v.d); return b; }
  case T::Str: return "s\"" + hx(v.s.substr(0, 24)) + (v.s.size() > 24 ? ".." : "") + "\"(" + std::to_string(v.s.size()) + ")"; case T::Bin: return "b\"" + hx(v.s.substr(0, 24)) + "\"(" + std::to_string(v.s.size()) + ")";
  case T::Ext: return "ext" + std::to_string(v.extType) + ":" + hx(v.s.substr(0, 24)); case T::Ts: return "ts(" + std::to_string(v.tsSec) + "," + std::to_string(v.tsNs) + ")";
  case T::Arr: { std::string r = "["; for (size_t i = 0; i < v.arr.size() && i < 12; i++) { if (i) r += ","; r += show(v.arr[i]); } if (v.arr.size() > 12) r += ",.."; return r + "]"; }
  case T::Map: { std::string r = "{"; for (size_t i = 0; i < v.map.size() && i < 12; i++) { if (i) r += ","; r += show(v.map[i].first) + ":" + show(v.map[i].second); } if (v.map.size() > 12) r += ",.."; return r + "}"; }
  } return "?";
}

// Self-test: examples from the specification and from msgpack-python 1.1.1 (recorded), returns nullptr when fine.
inline const char* selftest() {
  auto dec = [](const char* bytes, size_t n) { return Decoder::document(std::string(bytes, n)); };
  try {
    if (dec("\x82\xa7""compact\xc3\xa6schema\x00", 18).map.size() != 2) return "spec example";            // {"compact":true,"schema":0}
    if (dec("\xd1\xff\x38", 3).i != -200) return "int16";
    if (dec("\xcf\xff\xff\xff\xff\xff\xff\xff\xff", 9).u != UINT64_MAX) return "uint64";
    if (dec("\xd3\x80\x00\x00\x00\x00\x00\x00\x00", 9).i != INT64_MIN) return "int64 min";
    if (dec("\xcb\x3f\xf8\x00\x00\x00\x00\x00\x00", 9).d != 1.5) return "float64";
    if (dec("\xca\x3f\xc0\x00\x00", 5).f != 1.5f) return "float32";
    { Val v = dec("\xd6\xff\x00\x00\x00\x01", 6); if (v.t != T::Ts || v.tsSec != 1 || v.tsNs != 0) return "ts32"; }
    { Val v = dec("\xd7\xff\x00\x00\x00\x04\x00\x00\x00\x01", 10); if (v.t != T::Ts || v.tsSec != 1 || v.tsNs != 1) return "ts64"; }     // msgpack.Timestamp(1,1)
    { Val v = dec("\xc7\x0c\xff\x00\x00\x00\x01\xff\xff\xff\xff\xff\xff\xff\xff", 15); if (v.t != T::Ts || v.tsSec != -1 || v.tsNs != 1) return "ts96 (nanoseconds first)"; }  // msgpack.Timestamp(-1,1)
    bool threw = false; try { dec("\xc1", 1); } catch (const IllFormed&) { threw = true; } if (!threw) return "0xc1 accepted";
    threw = false; try { dec("\x92\x01", 2); } catch (const IllFormed& e) { threw = e.truncated; } if (!threw) return "truncation not detected";
    threw = false; try { dec("\x01\x02", 2); } catch (const IllFormed&) { threw = true; } if (!threw) return "trailing bytes accepted";
    threw = false; try { dec("\xd7\xff\xff\xff\xff\xfc\x00\x00\x00\x00", 10); } catch (const IllFormed&) { threw = true; } if (!threw) return "ns > 999999999 accepted";
    // encoder round trip with non-minimal choices
    Val t = mkMap({ { mkStr("k"), mkArr({ mkInt(-1), mkUInt(300), mkF64(0.1), mkNil(), mkBin("xy"), mkTs(-5, 7) }) } });
    size_t k = 0; std::string o; encode(o, t, [&](size_t n) { return (++k) % n; });
    if (!same(Decoder::document(o), t)) return "encode/decode round trip";
    if (encodeMinimal(mkInt(200)) != std::string("\xcc\xc8", 2)) return "minimal 200";
    if (encodeMinimal(mkInt(-33)) != std::string("\xd0\xdf", 2)) return "minimal -33";
  } catch (const std::exception& e) { return "unexpected exception in self-test"; }
  return nullptr;
}

} // namespace refmp
