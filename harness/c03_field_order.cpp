// C03 — named fields load correctly in any request order, with absent and unread fields.
// Model-based: a generated object document is a map key -> value; a generated request script (any order, repeats, absent keys,
// nested objects / arrays opened and left partly read, VisitKeys, early stop) is executed against the real object scope through the
// public Serialize(scope, key, value) functions; every request is compared with the map; the envelope's sentinel behind the object
// proves that whatever was left unread has been skipped correctly.
#include "common/dyn.h"
#include "ref/ref_utf.h"
#include "bitserializer/types/std/atomic.h"
#include "bitserializer/types/std/optional.h"
#include "bitserializer/types/std/memory.h"
#include "bitserializer/types/std/map.h"
#include "bitserializer/types/std/tuple.h"
#include <set>

using namespace arch;
using refmp::Val; using RT = refmp::T;

namespace {

enum OpKind { Get, GetAbsent, GetViaOptional, GetViaUniquePtr, GetViaSharedPtr, GetViaAtomic, OpenArrayPartly, OpenObjectScript, Visit, Stop };
struct Op { OpKind k = Get; size_t keyIdx = 0; std::string absentKey; size_t readCount = 0; std::vector<Op> sub; };
struct Failure { std::string kind, detail; };

struct Doc { std::vector<std::pair<std::string, Val>> fields; };   // ordered as in the document

const Val* find(const std::vector<std::pair<std::string, Val>>& f, const std::string& k) { for (auto& kv : f) if (kv.first == k) return &kv.second; return nullptr; }
std::vector<std::pair<std::string, Val>> fields_of(const Val& obj) { std::vector<std::pair<std::string, Val>> r; for (auto& kv : obj.map) r.push_back({ kv.first.s, kv.second }); return r; }

// executes a script against an object scope; records the first deviation
struct Runner {
	const std::vector<std::pair<std::string, Val>>* fields = nullptr; const std::vector<Op>* script = nullptr; std::optional<Failure>* fail = nullptr; int depth = 0; bool csv = false;
	void report(const std::string& kind, const std::string& detail) const { if (!fail->has_value()) *fail = Failure{ kind, detail }; }

	// keys reach the archive as std::string or as const char* (two overloads in the adapters), chosen by the key itself so that replay is exact
	template <class Sc, class V> static bool Fetch(Sc& sc, const std::string& key, V& v) { if constexpr (!Sc::is_binary) { if (key.size() % 3 == 0 && key.find('\0') == std::string::npos) return Serialize(sc, key.c_str(), v); } return Serialize(sc, key, v); }
	template <class Sc> void get_typed(Sc& sc, const std::string& key, const Val& want) const {
		switch (want.t) {
		case RT::Nil: { if (key.size() % 5 == 1 && !csv) { std::vector<uint8_t> v{ 7, 7 }; bool ok = Fetch(sc, key, v); if (ok || v != std::vector<uint8_t>{ 7, 7 }) report("a null value is reported as loaded or modifies its target", vf::cat("key '", key, "' byte-container target, ok=", ok)); } else if (key.size() % 2) { int64_t v = 777001; bool ok = Fetch(sc, key, v); if (ok || v != 777001) report("a null value is reported as loaded or modifies its target", vf::cat("key '", key, "' int64 target, ok=", ok, " v=", v)); } else { std::string v = "<unset>"; bool ok = Fetch(sc, key, v); if (ok || v != "<unset>") report("a null value is reported as loaded or modifies its target", vf::cat("key '", key, "' string target, ok=", ok)); } break; }
		case RT::Int: case RT::UInt: { int64_t v = 777001; bool ok = Fetch(sc, key, v); const int64_t w = want.t == RT::Int ? want.i : static_cast<int64_t>(want.u); if (!ok) report("a present field is reported as not loaded", vf::cat("key '", key, "'")); else if (v != w) report("a request returned the value of another field / a wrong value", vf::cat("key '", key, "' got ", v, " want ", w)); break; }
		case RT::Str: { std::string v = "<unset>"; bool ok = Fetch(sc, key, v); if (!ok) report("a present field is reported as not loaded", vf::cat("key '", key, "'")); else if (v != want.s) report("a request returned the value of another field / a wrong value", vf::cat("key '", key, "' got '", v.substr(0, 40), "' want '", want.s.substr(0, 40), "'")); break; }
		case RT::Bool: { bool v = !want.b; bool ok = Fetch(sc, key, v); if (!ok) report("a present field is reported as not loaded", vf::cat("key '", key, "'")); else if (v != want.b) report("a request returned the value of another field / a wrong value", vf::cat("key '", key, "' bool")); break; }
		case RT::F64: { double v = -1.25; bool ok = Fetch(sc, key, v); if (!ok) report("a present field is reported as not loaded", vf::cat("key '", key, "'")); else if (v != want.d) report("a request returned the value of another field / a wrong value", vf::cat("key '", key, "' got ", v, " want ", want.d)); break; }
		case RT::Arr: { std::vector<int64_t> v{ 5, 5, 5, 5, 5, 5, 5, 5, 5 }; bool ok = Fetch(sc, key, v); std::vector<int64_t> w; for (auto& e : want.arr) w.push_back(e.t == RT::Int ? e.i : static_cast<int64_t>(e.u));
			if (!ok) report("a present field is reported as not loaded", vf::cat("key '", key, "' (array)")); else if (v != w) report("a request returned the value of another field / a wrong value", vf::cat("key '", key, "' array of ", v.size(), " want ", w.size())); break; }
		case RT::Map: { Runner r = *this; auto sub = fields_of(want); r.fields = &sub; std::vector<Op> all; for (size_t i = 0; i < sub.size(); i++) { Op o; o.k = Get; o.keyIdx = i; all.push_back(o); } r.script = &all; r.depth = depth + 1;
			if constexpr (can_serialize_object_with_key_v<Sc, std::string>) { auto child = sc.OpenObjectScope(key, sub.size()); if (!child) report("a present field is reported as not loaded", vf::cat("key '", key, "' (object)")); else r.run(*child); } break; }
		default: break;
		}
	}

	template <class Sc> void run(Sc& sc) const {
		for (const Op& op : *script) {
			if (fail->has_value()) return;
			if (op.k == Stop) return;
			if (op.k == Visit) {
				if constexpr (!std::is_same_v<Sc, void>) { std::vector<std::string> seen; sc.VisitKeys([&](auto&& k) { if constexpr (std::is_convertible_v<decltype(k), std::string_view>) seen.emplace_back(std::string_view(k)); else if constexpr (std::is_convertible_v<decltype(k), const char*>) seen.emplace_back(k); else seen.push_back("?"); });
					std::vector<std::string> want; for (auto& kv : *fields) want.push_back(kv.first); auto a = seen, b = want; std::sort(a.begin(), a.end()); std::sort(b.begin(), b.end());
					if (a != b) report("VisitKeys does not enumerate exactly the keys of the object", vf::cat("saw ", seen.size(), " keys, document has ", want.size())); }
				continue;
			}
			if (op.k == GetAbsent) {
				int64_t v = 424242; bool ok = Serialize(sc, op.absentKey, v);
				if (ok) report("a request for an absent key reports 'loaded'", vf::cat("key '", op.absentKey, "'")); else if (v != 424242) report("a request for an absent key changed the target", vf::cat("key '", op.absentKey, "' -> ", v));
				std::string s = "keep"; ok = Serialize(sc, op.absentKey, s); if (ok || s != "keep") report("a request for an absent key (string) reports 'loaded' or changed the target", vf::cat("key '", op.absentKey, "'"));
				std::optional<int> oi = 5; ok = Serialize(sc, op.absentKey, oi); if (ok || oi.has_value()) report("optional for an absent key is not reset / reports loaded", vf::cat("key '", op.absentKey, "'"));
				std::atomic<int> at{ 31 }; ok = Serialize(sc, op.absentKey, at); if (ok || at.load() != 31) report("std::atomic for an absent key reports loaded or changes its value", vf::cat("key '", op.absentKey, "' -> ", at.load()));
				std::unique_ptr<int> up = std::make_unique<int>(3); ok = Serialize(sc, op.absentKey, up); if (ok || up) report("unique_ptr for an absent key is not reset / reports loaded", vf::cat("key '", op.absentKey, "'"));
				continue;
			}
			const auto& kv = (*fields)[op.keyIdx % fields->size()]; const std::string& key = kv.first; const Val& want = kv.second;
			const bool isInt = want.t == RT::Int || want.t == RT::UInt; const int64_t wi = want.t == RT::Int ? want.i : static_cast<int64_t>(want.u);
			switch (op.k) {
			case Get: get_typed(sc, key, want); break;
			case GetViaOptional: if (isInt) { std::optional<int64_t> v; bool ok = Fetch(sc, key, v); if (!ok || !v || *v != wi) report("optional member not loaded correctly", vf::cat("key '", key, "'")); } else get_typed(sc, key, want); break;
			case GetViaUniquePtr: if (isInt) { std::unique_ptr<int64_t> v; bool ok = Fetch(sc, key, v); if (!ok || !v || *v != wi) report("unique_ptr member not loaded correctly", vf::cat("key '", key, "'")); } else get_typed(sc, key, want); break;
			case GetViaSharedPtr: if (want.t == RT::Str) { std::shared_ptr<std::string> v; bool ok = Fetch(sc, key, v); if (!ok || !v || *v != want.s) report("shared_ptr member not loaded correctly", vf::cat("key '", key, "'")); } else get_typed(sc, key, want); break;
			case GetViaAtomic: if (isInt) { std::atomic<int64_t> v{ 9 }; bool ok = Fetch(sc, key, v); if (!ok || v.load() != wi) report("std::atomic member not loaded correctly", vf::cat("key '", key, "' -> ", v.load())); } else get_typed(sc, key, want); break;
			case OpenArrayPartly:
				if (want.t == RT::Nil) { if constexpr (can_serialize_array_with_key_v<Sc, std::string>) { auto child = sc.OpenArrayScope(key, 0); if (child) report("a null value opens as an array scope", vf::cat("key '", key, "'")); } else get_typed(sc, key, want); break; }
				if (want.t == RT::Arr) { if constexpr (can_serialize_array_with_key_v<Sc, std::string>) { auto child = sc.OpenArrayScope(key, want.arr.size());
					if (!child) report("a present field is reported as not loaded", vf::cat("key '", key, "' (array scope)"));
					else { const size_t n = std::min(op.readCount, want.arr.size()); for (size_t i = 0; i < n; i++) { int64_t v = -5; bool ok = Serialize(*child, v); const int64_t w = want.arr[i].t == RT::Int ? want.arr[i].i : static_cast<int64_t>(want.arr[i].u); if (!ok || v != w) { report("element of a partly read array is wrong", vf::cat("key '", key, "'[", i, "] got ", v, " want ", w)); break; } }
						if (n == want.arr.size() && !child->IsEnd()) report("array scope does not report its end", vf::cat("key '", key, "'")); if (n < want.arr.size() && child->IsEnd()) report("array scope reports its end too early", vf::cat("key '", key, "'")); } } }
				else get_typed(sc, key, want); break;
			case OpenObjectScript:
				if (want.t == RT::Nil) {   // a null where the program expects a nested object (optional / pointer member): "not loaded", and the requests that follow are served correctly
					if constexpr (can_serialize_object_with_key_v<Sc, std::string>) { auto child = sc.OpenObjectScope(key, 0); if (child) report("a null value opens as an object scope", vf::cat("key '", key, "'")); } else get_typed(sc, key, want); break; }
				if (want.t == RT::Map) { if constexpr (can_serialize_object_with_key_v<Sc, std::string>) { auto child = sc.OpenObjectScope(key, want.map.size()); if (!child) report("a present field is reported as not loaded", vf::cat("key '", key, "' (object scope)")); else { Runner r = *this; auto sub = fields_of(want); r.fields = &sub; r.script = &op.sub; r.depth = depth + 1; r.run(*child); } } }
				else get_typed(sc, key, want); break;
			default: break;
			}
		}
	}
};

struct ScriptedObject {   // the program that loads the object with a script
	Runner runner;
	template <class Ar> void Serialize(Ar& ar) { if constexpr (Ar::IsLoading()) runner.run(ar); }
};
struct Envelope {   // [padding, object, sentinel]
	std::string pad; ScriptedObject obj; std::string sentinel; bool padLoaded = false, sentinelLoaded = false;
};
}
namespace BitSerializer {
template <class Ar> void SerializeArray(Ar& ar, ::Envelope& e) { e.padLoaded = Serialize(ar, e.pad); Serialize(ar, e.obj); e.sentinelLoaded = Serialize(ar, e.sentinel); }
}
namespace {
struct XmlEnvelope { std::string pad; ScriptedObject obj; std::string sentinel; bool sentinelLoaded = false; template <class Ar> void Serialize(Ar& ar) { ar << KeyValue("pad", pad) << KeyValue("obj", obj); sentinelLoaded = BitSerializer::Serialize(ar, std::string("zsentinel"), sentinel); } };

std::string gen_key(vf::Src& s, size_t idx, int archId) {
	std::string k; if (archId == XML || s.coin()) { static const char* n[] = { "id", "name", "Key", "_v", "a.b", "x-y", "Ключ" }; k = n[s.draw(7)]; } else { size_t n = 1 + s.draw(6); for (size_t i = 0; i < n; i++) k.push_back(static_cast<char>(0x21 + s.draw(0x5e))); if (s.chance(1, 5)) k += std::string(20 + s.draw(40), 'k'); }
	if (idx == 0 && (archId == MSGPACK || archId == JSON) && s.chance(1, 10)) return std::string();   // the empty string is a valid member name
	return k + std::to_string(idx);
}
Val gen_value(vf::Src& s, int depth, int archId) {
	if ((archId == MSGPACK || archId == JSON) && s.chance(1, 10)) return refmp::mkNil();   // null: present in the document, "not loaded" for any non-nullable target (README)
	switch (s.draw(depth > 0 ? 7 : 5)) {
	case 0: case 1: return refmp::mkInt(s.integer<int32_t>());
	case 2: { size_t n = s.chance(1, 8) ? 100 + s.draw(200) : s.len(12); std::string t; for (size_t i = 0; i < n; i++) t.push_back(static_cast<char>(0x21 + s.draw(0x5e))); if (archId == XML && t.empty()) t = "x"; return refmp::mkStr(t); }
	case 3: if (archId == XML) return refmp::mkInt(static_cast<int64_t>(s.draw(100))); return refmp::mkBool(s.coin());
	case 4: return refmp::mkF64(static_cast<double>(s.integer<int16_t>()) / 8.0);
	case 5: { size_t n = (archId == XML ? 1 : 0) + s.len(6); std::vector<Val> a; for (size_t i = 0; i < n; i++) a.push_back(refmp::mkInt(static_cast<int64_t>(s.draw(1000)) - 500)); return refmp::mkArr(a); }
	default: { size_t n = 1 + s.draw(4); std::vector<std::pair<Val, Val>> m; for (size_t i = 0; i < n; i++) m.push_back({ refmp::mkStr(gen_key(s, i, archId)), gen_value(s, depth - 1, archId) }); return refmp::mkMap(m); }
	}
}
std::vector<Op> gen_script(vf::Src& s, const Val& obj, int depth, bool& outOfOrder, bool& hasAbsent, bool& partly) {
	std::vector<Op> ops; const size_t n = obj.map.size(); size_t len = s.len(14); size_t last = 0; bool first = true;
	for (size_t i = 0; i < len; i++) {
		Op o; const uint64_t k = s.draw(12);
		if (k == 0) { o.k = GetAbsent; o.absentKey = "absent" + std::to_string(s.draw(5)); hasAbsent = true; }
		else if (k == 1) o.k = Visit;
		else if (k == 2 && i + 1 == len) o.k = Stop;
		else {
			o.keyIdx = s.draw(n); if (!first && o.keyIdx <= last) outOfOrder = true; first = false; last = o.keyIdx;
			static const OpKind ks[] = { Get, Get, Get, GetViaOptional, GetViaUniquePtr, GetViaSharedPtr, GetViaAtomic, OpenArrayPartly, OpenObjectScript };
			o.k = ks[s.draw(9)]; const Val& v = obj.map[o.keyIdx].second;
			if (o.k == OpenArrayPartly) { o.readCount = s.draw(8); if (v.t == RT::Arr && o.readCount < v.arr.size()) partly = true; }
			if (o.k == OpenObjectScript && v.t == RT::Map && depth > 0) { o.sub = gen_script(s, v, depth - 1, outOfOrder, hasAbsent, partly); partly = true; }
		}
		ops.push_back(o);
	}
	return ops;
}
std::string show_script(const std::vector<Op>& ops, const Val& obj) {
	std::string r; for (auto& o : ops) { static const char* n[] = { "get", "absent", "opt", "uptr", "sptr", "atomic", "arr", "obj", "visit", "stop" }; r += n[o.k]; if (o.k == GetAbsent) r += "(" + o.absentKey + ")"; else if (o.k != Visit && o.k != Stop) { r += "(" + obj.map[o.keyIdx % obj.map.size()].first.s.substr(0, 12); if (o.k == OpenArrayPartly) r += "," + std::to_string(o.readCount); if (!o.sub.empty()) r += "{" + show_script(o.sub, obj.map[o.keyIdx % obj.map.size()].second) + "}"; r += ")"; } r += " "; }
	return r;
}

template <class A> void run_case(vf::Ctx& c, int archId) {
	const size_t nkeys = 1 + c.src.draw(10); std::vector<std::pair<Val, Val>> m; for (size_t i = 0; i < nkeys; i++) m.push_back({ refmp::mkStr(gen_key(c.src, i, archId)), gen_value(c.src, 2, archId) });
	const Val obj = refmp::mkMap(m);
	bool outOfOrder = false, hasAbsent = false, partly = false; const std::vector<Op> script = gen_script(c.src, obj, 2, outOfOrder, hasAbsent, partly);
	// alignment of the object relative to the 256-byte buffer of the stream reader
	const size_t pad = c.src.coin() ? 200 + c.src.draw(80) : c.src.draw(600);
	Cfg cfg; cfg.stream = c.src.chance(2, 3); cfg.streamKind = cfg.stream ? gen_stream_kind(c.src, archId == MSGPACK) : 0; cfg.chunk = c.src.coin() ? 1 + c.src.draw(8) : 1 + c.src.draw(300);
	const std::string padStr = "p" + std::string(pad, 'p'), sentinel = "S" + std::to_string(c.src.draw(100000));
	const Val env = archId == XML ? refmp::mkMap({ { refmp::mkStr("pad"), refmp::mkStr(padStr) }, { refmp::mkStr("obj"), obj }, { refmp::mkStr("zsentinel"), refmp::mkStr(sentinel) } }) : refmp::mkArr({ refmp::mkStr(padStr), obj, refmp::mkStr(sentinel) });
	Cfg mem; std::string bytes; Outcome so = dyn::save<A>(env, bytes, mem); if (!so.ok()) c.fail("saving the document failed", so.str());
	c.nontrivial = (outOfOrder || hasAbsent || partly); if (outOfOrder) c.label("out-of-order-or-repeated"); if (hasAbsent) c.label("absent-key"); if (partly) c.label("partly-read-child");
	c.describe(vf::cat(arch_name(archId), " keys=", nkeys, " pad=", pad, " ", cfg.str(), " script: ", show_script(script, obj).substr(0, 300)));
	const auto fields = fields_of(obj); std::optional<Failure> fail; Outcome lo; bool sentinelOk = false; std::string gotSentinel;
	if constexpr (std::is_same_v<A, XmlArchive>) { XmlEnvelope e; e.obj.runner.fields = &fields; e.obj.runner.script = &script; e.obj.runner.fail = &fail; lo = load<A>(e, bytes, cfg); sentinelOk = e.sentinelLoaded; gotSentinel = e.sentinel; }
	else { Envelope e; e.obj.runner.fields = &fields; e.obj.runner.script = &script; e.obj.runner.fail = &fail; lo = load<A>(e, bytes, cfg); sentinelOk = e.sentinelLoaded; gotSentinel = e.sentinel; if (lo.ok() && (!e.padLoaded || e.pad != padStr)) c.fail("data before the object was not loaded correctly", vf::cat("pad ", e.pad.size())); }
	const std::string d = vf::cat(arch_name(archId), " [", cfg.str(), "] pad=", pad, " object=", refmp::show(obj).substr(0, 300), " script: ", show_script(script, obj).substr(0, 400), " => ", lo.str());
	if (fail) c.fail(fail->kind, fail->detail + " | " + d);
	if (!lo.ok()) c.fail("loading a valid document with a request script failed", d);
	if (!sentinelOk || gotSentinel != sentinel) c.fail("data following the object is not read correctly after the script (unread rest not skipped)", vf::cat("sentinel got '", gotSentinel, "' want '", sentinel, "' | ", d));
}

} // namespace

VF_PROPERTY(script_msgpack, 5, "object of 1..10 distinct keys (ints, strings up to 300 chars, bools, doubles, arrays of ints, nested objects) inside an envelope [padding 0..600, object, sentinel]; request script of 0..14 operations: get (plain / optional / unique_ptr / shared_ptr / atomic targets), absent key (int, string, optional, atomic, unique_ptr targets), repeated and out-of-order keys, array opened and read for j <= n elements, nested object opened with its own sub-script, VisitKeys, early stop; memory / stringstream / short-read stream; non-trivial = script has an out-of-order or repeated request, an absent key or a partly read child") { run_case<MsgPackArchive>(c, MSGPACK); }
VF_PROPERTY(script_json, 3, "same through JSON") { run_case<JsonArchive>(c, JSON); }
VF_PROPERTY(script_xml, 3, "same through XML (keys are XML Names, non-empty strings)") { run_case<XmlArchive>(c, XML); }

namespace {
struct RowProg { const std::map<std::string, std::string>* row; std::vector<std::string> reqs; std::optional<Failure>* fail; template <class Ar> void Serialize(Ar& ar) { for (auto& k : reqs) { std::string v = "<unset>"; bool ok = BitSerializer::Serialize(ar, k, v); auto it = row->find(k); if (it == row->end()) { if (ok || v != "<unset>") if (!fail->has_value()) *fail = Failure{ "a request for an absent column reports loaded or changes the target", k }; } else if (!ok || v != it->second) { if (!fail->has_value()) *fail = Failure{ "a by-name request returned a wrong cell", vf::cat("column ", k, " got ", vf::hex(v.substr(0, 40)), " want ", vf::hex(it->second.substr(0, 40))) }; } } } };
}
VF_PROPERTY(script_csv_rows, 3, "CSV: rows of a table requested by name in any order with absent columns and repeated requests (stream reader un-escapes quoted cells in place), next row as the sentinel; non-trivial = a quoted cell is requested twice or out of order")
{
	Cfg cfg; cfg.stream = c.src.chance(2, 3); cfg.streamKind = cfg.stream ? gen_stream_kind(c.src, false) : 0; cfg.chunk = 1 + c.src.draw(300);
	const size_t cols = 1 + c.src.draw(6), rows = 1 + c.src.draw(4); std::vector<std::map<std::string, std::string>> table(rows); bool quoted = false;
	for (auto& r : table) for (size_t k = 0; k < cols; k++) { std::string v; size_t n = c.src.len(10); for (size_t i = 0; i < n; i++) { switch (c.src.draw(6)) { case 0: v.push_back('"'); break; case 1: v.push_back(','); break; case 2: v += "\r\n"; break; default: v.push_back(static_cast<char>(0x21 + c.src.draw(0x5e))); break; } } if (c.src.chance(1, 8)) v += std::string(250, 'L'); if (v.find_first_of("\",\r\n") != std::string::npos) quoted = true; r["c" + std::to_string(k)] = v; }
	std::string bytes; Cfg mem; if (!save<CsvArchive>(table, bytes, mem).ok()) c.fail("saving failed", "");
	// per row a request script over column names
	std::optional<Failure> fail; std::vector<RowProg> progs(rows); bool repeat = false; std::string sdesc;
	for (size_t r = 0; r < rows; r++) { progs[r].row = &table[r]; progs[r].fail = &fail; size_t n = c.src.len(10); std::set<std::string> seen; for (size_t i = 0; i < n; i++) { std::string k = c.src.chance(1, 8) ? "nocol" : "c" + std::to_string(c.src.draw(cols)); if (!seen.insert(k).second) repeat = true; progs[r].reqs.push_back(k); sdesc += k + " "; } sdesc += "| "; }
	c.nontrivial = quoted && repeat; c.describe(vf::cat("csv cols=", cols, " rows=", rows, " ", cfg.str(), " reqs: ", sdesc.substr(0, 200)));
	Outcome lo = load<CsvArchive>(progs, bytes, cfg);
	const std::string d = vf::cat("[", cfg.str(), "] doc=", vf::hex(bytes.substr(0, 200)), " reqs: ", sdesc.substr(0, 300), " => ", lo.str());
	if (fail) c.fail(fail->kind, fail->detail + " | " + d);
	if (!lo.ok()) c.fail("loading a valid table with request scripts failed", d);
	if (progs.size() != rows) c.fail("number of rows differs", d);
}

namespace {
struct TypedKeyProg {
	const std::vector<std::pair<Val, Val>>* entries; const std::vector<size_t>* order; std::optional<Failure>* fail;
	template <class Ar> void Serialize(Ar& ar) {
		if constexpr (Ar::IsLoading() && Ar::is_binary) {
			for (size_t idx : *order) {
				int64_t v = 990099; bool ok = false; const bool absent = idx >= entries->size();
				const Val key = absent ? (idx % 2 ? refmp::mkInt(-9000000 - static_cast<int64_t>(idx)) : refmp::mkF64(9123456.5 + static_cast<double>(idx))) : (*entries)[idx].first;
				if (absent && idx == entries->size() + 1) {   // absent key that shares its bit pattern (at 8 / 16 / 32 / 64 bit) with a stored unsigned key: negative intN_t(-a) against 2^N - a
					for (const auto& e : *entries) { if (e.first.t != RT::UInt || e.first.u < 0x80) continue; const uint64_t U = e.first.u; int64_t k = 0; int w = 0;
						if (U > 0xFFFFFFFFull) { k = static_cast<int64_t>(U); w = 64; } else if (U > 0xFFFF) { k = static_cast<int32_t>(static_cast<uint32_t>(U)); w = 32; } else if (U > 0xFF) { k = static_cast<int16_t>(static_cast<uint16_t>(U)); w = 16; } else { k = static_cast<int8_t>(static_cast<uint8_t>(U)); w = 8; }
						if (k >= 0) continue; bool present = false; for (const auto& e2 : *entries) if (e2.first.t == RT::Int && e2.first.i == k) present = true; if (present) continue;
						int64_t v2 = 990099; bool ok2 = false; int8_t k8 = static_cast<int8_t>(k); int16_t k16 = static_cast<int16_t>(k); int32_t k32 = static_cast<int32_t>(k);
						if (w == 8) ok2 = BitSerializer::Serialize(ar, k8, v2); else if (w == 16) ok2 = BitSerializer::Serialize(ar, k16, v2); else if (w == 32) ok2 = BitSerializer::Serialize(ar, k32, v2); else ok2 = BitSerializer::Serialize(ar, k, v2);
						if ((ok2 || v2 != 990099) && !fail->has_value()) *fail = Failure{ "a request for an absent typed key reports loaded or changes the target", vf::cat("int", w, "_t(", k, ") requested, the object holds the unsigned key ", U, "; got ", v2, " ok=", ok2) };
						break; }
					continue;
				}
				switch (key.t) { case RT::Int: ok = BitSerializer::Serialize(ar, key.i, v); break; case RT::UInt: ok = BitSerializer::Serialize(ar, key.u, v); break; case RT::F64: ok = BitSerializer::Serialize(ar, key.d, v); break; case RT::F32: ok = BitSerializer::Serialize(ar, key.f, v); break;
				case RT::Ts: { BitSerializer::Detail::CBinTimestamp ts(key.tsSec, static_cast<int32_t>(key.tsNs)); ok = BitSerializer::Serialize(ar, ts, v); break; } default: { std::string k = key.s; ok = BitSerializer::Serialize(ar, k, v); break; } }
				if (absent) { if ((ok || v != 990099) && !fail->has_value()) *fail = Failure{ "a request for an absent typed key reports loaded or changes the target", refmp::show(key) }; }
				else { const int64_t w = (*entries)[idx].second.i; if ((!ok || v != w) && !fail->has_value()) *fail = Failure{ "a request by a typed key returned a wrong value", vf::cat("key ", refmp::show(key), " got ", v, " want ", w, " ok=", ok) }; }
			}
		}
	}
};
}
VF_PROPERTY(script_msgpack_typed_keys, 2, "MsgPack object whose keys are negative / positive integers, uint64, float64, float32, timestamps and strings (any legal key format), requested in any order with repeats and absent typed keys; envelope sentinel behind; non-trivial = out-of-order or repeated request")
{
	const size_t n = 1 + c.src.draw(9); std::vector<std::pair<Val, Val>> entries;
	for (size_t i = 0; i < n; i++) { Val k; switch (c.src.draw(6)) { case 0: k = refmp::mkInt(-1 - static_cast<int64_t>(i) * 1000 - static_cast<int64_t>(c.src.draw(900))); break; case 1: if (c.src.chance(1, 3)) { static const uint64_t tops[] = { 0x100ull, 0x10000ull, 0x100000000ull, 0ull }; k = refmp::mkUInt(tops[c.src.draw(4)] - (1 + i * 3 + c.src.draw(3))); break; }   // 2^N - a: the bit pattern of the negative intN_t(-a), which is another key
			k = refmp::mkUInt(1000 + i * 1000 + c.src.draw(900)); break; case 2: k = refmp::mkF64(0.25 + static_cast<double>(i)); break; case 3: k = refmp::mkF32(0.5f + static_cast<float>(i)); break; case 4: k = refmp::mkTs(static_cast<int64_t>(i) * 100 + 5, static_cast<uint32_t>(c.src.draw(1000))); break; default: k = refmp::mkStr("k" + std::to_string(i)); break; } entries.push_back({ k, refmp::mkInt(-500 + static_cast<int64_t>(c.src.draw(1000)) - 70000) }); }
	std::vector<size_t> order; size_t len = c.src.len(14); bool ooo = false; for (size_t i = 0; i < len; i++) { size_t idx = c.src.draw(n + 2); if (!order.empty() && idx <= order.back()) ooo = true; order.push_back(idx); }
	const size_t pad = c.src.coin() ? 220 + c.src.draw(60) : c.src.draw(400); const std::string padStr(pad, 'p');
	std::string bytes; { bool dummy = false; (void)dummy; Val env = refmp::mkArr({ refmp::mkStr(padStr), refmp::mkMap(entries), refmp::mkStr("sentinel") }); bytes = refmp::encodeMinimal(env); }   // minimal formats: the 96-bit timestamp layout is subject to the recorded finding KF-35
	Cfg cfg; cfg.stream = c.src.chance(2, 3); cfg.streamKind = cfg.stream ? gen_stream_kind(c.src, true) : 0; cfg.chunk = 1 + c.src.draw(300);
	c.nontrivial = ooo; c.describe(vf::cat("typed keys n=", n, " pad=", pad, " order=", order.size(), " ", cfg.str(), " ", vf::hex(bytes.substr(bytes.size() > 80 ? bytes.size() - 80 : 0))));
	std::optional<Failure> fail; std::tuple<std::string, TypedKeyProg, std::string> t; std::get<1>(t).entries = &entries; std::get<1>(t).order = &order; std::get<1>(t).fail = &fail;
	Outcome lo = load<MsgPackArchive>(t, bytes, cfg);
	std::string od; for (auto i : order) od += std::to_string(i) + " ";
	const std::string d = vf::cat("[", cfg.str(), "] map=", refmp::show(refmp::mkMap(entries)).substr(0, 300), " order: ", od, " => ", lo.str());
	if (fail) c.fail(fail->kind, fail->detail + " | " + d);
	if (!lo.ok()) c.fail("loading a valid document with a request script failed", d);
	if (std::get<2>(t) != "sentinel" || std::get<0>(t) != padStr) c.fail("data around the object is not read correctly after the script", d);
}

VF_MAIN("c03_field_order")
