// C10 — memory and stream loading are equivalent wherever buffer boundaries fall; stream saving == memory saving.
// Oracle: differential — the same bytes through the in-memory entry point and through stream entry points (stringstream,
// short-read streambuf delivering 1..k bytes per call, non-seekable streambuf) must give the same value or the same error category.
#include "common/dyn.h"
#include "common/kf61.h"
#include "ref/ref_utf.h"
#include "bitserializer/types/std/map.h"
#include "bitserializer/types/std/tuple.h"
#include "bitserializer/types/std/vector.h"

using namespace arch;
using refmp::Val; using RT = refmp::T;
using Table = std::vector<std::map<std::string, std::string>>;

namespace {

// Error categories for the differential: a loaded value, a rejection of the document by the library (SerializationException of any
// code - the two hand-written readers may notice a different defect of a broken document first), a validation failure, or
// something that is not a library exception at all.
std::string category(const Outcome& o) { switch (o.k) { case Outcome::Ok: return "ok"; case Outcome::SerEx: return "rejected"; case Outcome::Validation: return "validation"; case Outcome::StdEx: return "std-exception"; default: return "unknown"; } }
bool same_val(const Val& a, const Val& b) { return refmp::same(a, b); }

// ---- generators of trees in the common data model of an archive -------------------------------------------------------------------
std::string gen_str(vf::Src& s, bool xmlSafe) {
	size_t n = s.chance(1, 10) ? 200 + s.draw(150) : s.len(14); refutf::Scalars t;
	for (size_t i = 0; i < n; i++) { char32_t c; switch (s.draw(6)) { case 0: { static const char32_t m[] = { 0xE9, 0x416, 0x20AC, 0x1F600, 0x10FFFF, '"', '\\', '<', '&', '>' }; c = m[s.draw(10)]; break; } default: c = static_cast<char32_t>(0x21 + s.draw(0x5e)); break; } t.push_back(c); }
	if (xmlSafe && t.empty()) t.push_back(U'x');
	return refutf::enc8(t);
}
Val gen_tree(vf::Src& s, int depth, int archId) {
	const bool mp = archId == MSGPACK, xml = archId == XML;
	const uint64_t k = s.draw(depth > 0 ? 10 : 7);
	switch (k) {
	case 0: if (xml) return refmp::mkStr(gen_str(s, true)); return s.chance(1, 3) ? refmp::mkNil() : refmp::mkBool(s.coin());
	case 1: { int64_t v = s.integer<int64_t>(); return v >= 0 ? refmp::mkUInt(static_cast<uint64_t>(v)) : refmp::mkInt(v); }
	case 2: return refmp::mkUInt(s.integer<uint64_t>());
	case 3: return refmp::mkF64(static_cast<double>(s.integer<int32_t>()) / 256.0);
	case 4: case 5: return refmp::mkStr(gen_str(s, xml));
	case 6: if (mp) return s.coin() ? refmp::mkBin(s.bytes(s.len(40))) : refmp::mkTs(static_cast<int64_t>(s.draw(1ull << 33)), static_cast<uint32_t>(s.draw(1000000000))); return refmp::mkStr(gen_str(s, xml));
	case 7: case 8: { size_t n = xml ? 1 + s.len(4) : s.len(5); std::vector<Val> a; Val first = gen_tree(s, depth - 1, archId); for (size_t i = 0; i < n; i++) a.push_back(xml && i ? first : gen_tree(s, depth - 1, archId)); if (xml) { a.clear(); for (size_t i = 0; i < n; i++) a.push_back(gen_tree(s, 0, archId)); } return refmp::mkArr(a); }
	default: { size_t n = xml ? 1 + s.len(4) : s.len(5); std::vector<std::pair<Val, Val>> m; for (size_t i = 0; i < n; i++) m.push_back({ refmp::mkStr("k" + std::to_string(i)), gen_tree(s, depth - 1, archId) }); return refmp::mkMap(m); }
	}
}
Cfg stream_cfg(vf::Src& s) { Cfg c; c.stream = true; c.streamKind = static_cast<int>(s.draw(4)); c.chunk = s.coin() ? 1 + s.draw(8) : 1 + s.draw(300); return c; }

// mutate bytes: substitution / deletion / insertion / truncation
std::string mutate(vf::Src& s, const std::string& in, bool& changed) {
	std::string d = in; changed = false; if (d.empty() || !s.chance(2, 3)) return d;
	if (d.size() > 40 && s.chance(1, 5)) {   // cut 1..8 bytes behind a buffer boundary of the stream readers (256, or 32 in the small-chunk build): a fixed-size field that straddles the boundary is refilled only partly
		const size_t b = s.coin() ? 256 : 32; if (d.size() > b + 1) { const size_t m = 1 + s.draw((d.size() - 2) / b); d.resize(std::min(d.size() - 1, b * m + 1 + s.draw(8))); changed = true; return d; } }
	size_t n = 1 + s.draw(2);
	for (size_t i = 0; i < n && !d.empty(); i++) { size_t p = s.draw(d.size());
		switch (s.draw(6)) {
		case 5: {   // a number token replaced by a literal that only a lenient parser accepts (both entry points must agree on it)
			size_t a = p; while (a < d.size() && !(d[a] >= '0' && d[a] <= '9')) a++; size_t b = a; while (b < d.size() && ((d[b] >= '0' && d[b] <= '9') || d[b] == '.' || d[b] == 'e' || d[b] == 'E' || d[b] == '+' || d[b] == '-')) b++; if (a > 0 && d[a - 1] == '-') a--;
			static const char* lit[] = { "NaN", "Infinity", "-Infinity", "Inf", "-Inf", "nan", "1e999", "-0", "0x10", "+1", "01", "1.", ".5", "1e", "null", "true" };
			if (a < b) d.replace(a, b - a, lit[s.draw(16)]); break; }
		case 0: d[p] = static_cast<char>(s.draw(256)); break; case 1: d.erase(p, 1 + s.draw(3)); break; case 2: d.insert(p, 1, static_cast<char>(s.draw(256))); break; case 3: d.resize(p); break; default: { static const char* ins[] = { "\"", ",", "\r\n", "\xC1", "\xDD\xFF\xFF\xFF\xFF", "]", "}", "<", "\xEF\xBB\xBF", "\x00" }; d.insert(p, ins[s.draw(9)]); break; } } }
	changed = d != in; return d;
}

template <class A> void diff_dyn(vf::Ctx& c, int archId) {
	// envelope [pad, tree, sentinel]: the padding string shifts everything behind it across the 256-byte chunk boundary
	Val tree = gen_tree(c.src, 3, archId);
	const size_t pad = c.src.coin() ? 230 + c.src.draw(60) : c.src.draw(600);
	Val env = archId == XML ? refmp::mkMap({ { refmp::mkStr("pad"), refmp::mkStr("p" + std::string(pad, 'p')) }, { refmp::mkStr("t"), tree.t == RT::Arr || tree.t == RT::Map ? tree : refmp::mkMap({ { refmp::mkStr("v"), tree } }) }, { refmp::mkStr("z"), refmp::mkStr("sentinel") } })
		: refmp::mkArr({ refmp::mkStr(std::string(pad, 'p')), tree, refmp::mkStr("sentinel") });
	Cfg mem; std::string bytes; Outcome so = dyn::save<A>(env, bytes, mem);
	if (!so.ok()) c.fail("saving a tree failed", so.str());
	gen_policies(c.src, mem.opt);   // the same policies for both entry points (Skip makes the readers skip mismatching values of mutated documents)
	Cfg sc = stream_cfg(c.src); sc.opt.overflowNumberPolicy = mem.opt.overflowNumberPolicy; sc.opt.mismatchedTypesPolicy = mem.opt.mismatchedTypesPolicy;
	// non-seekable streams can only serve in-order requests (looking up a key that is not the next one needs seekg): they get the
	// unmodified document, whose schema walk is in order; mutated documents go to seekable streams
	bool changed = false; std::string doc = sc.streamKind == 2 ? bytes : mutate(c.src, bytes, changed);
	// recorded finding KF-52: the in-memory JSON loader does not validate UTF-8 inside strings, the stream loader does; text
	// documents are kept inside the common domain of both entry points (well-formed UTF-8)
	// recorded finding KF-61 (third-party RapidJSON 1.1.0): number literals beyond the double range / zero with an exponent crash its parser
	if (archId == JSON && changed && kf61::literal(doc)) { c.label("excluded:KF-61-json-literal-beyond-1e300-or-zero-with-exponent"); doc = bytes; changed = false; }
	if (archId != MSGPACK && changed && !refutf::valid8(doc)) { c.label("excluded:KF-52-ill-formed-utf8-in-text-document"); doc = bytes; changed = false; }
	c.nontrivial = doc.size() > 256; c.label(changed ? "mutated" : "valid"); c.label(vf::cat("stream-kind=", sc.streamKind));
	c.describe(vf::cat(arch_name(archId), " pad=", pad, " size=", doc.size(), changed ? " mutated " : " valid ", sc.str(), " h=", vf::hash_bytes(doc.data(), doc.size())));
	if (getenv("VF_DUMP_DOC")) fprintf(stderr, "DOC[%s]\n", archId == MSGPACK ? vf::hex(doc).c_str() : doc.c_str());
	Val t1 = dyn::shape(env), t2 = dyn::shape(env); dyn::LoadLog l1, l2;
	Outcome o1 = dyn::load<A>(t1, doc, mem, &l1), o2 = dyn::load<A>(t2, doc, sc, &l2);
	const std::string d = vf::cat(arch_name(archId), " tree=", refmp::show(tree).substr(0, 160), " size=", doc.size(), " pad=", pad, changed ? " mutated" : " valid", " [", sc.str(), "] memory => ", o1.str(), " | stream => ", o2.str(), " doc=", archId == MSGPACK ? (getenv("VF_FULL") ? vf::hex(doc) : vf::hex(doc.substr(0, 60)) + ".." + vf::hex(doc.substr(doc.size() > 80 ? doc.size() - 80 : 0))) : doc.substr(doc.size() > 300 ? doc.size() - 300 : 0));
	if (!changed && (!o1.ok() || !o2.ok())) c.fail("a document saved by the library is rejected", d);
	if (category(o1) != category(o2)) c.fail("memory and stream loading end in different outcome categories", d);
	if (o1.ok() && (!same_val(t1, t2) || l1.arraysShort != l2.arraysShort || l1.arraysLong != l2.arraysLong || l1.notLoaded != l2.notLoaded)) c.fail("memory and stream loading deliver different values", d + " mem=" + refmp::show(t1).substr(0, 200) + " stream=" + refmp::show(t2).substr(0, 200));
	if (!changed && o1.ok() && !same_val(t1, env)) c.fail("loaded tree differs from the saved one", d);
	// the same document loaded into a target of another shape (a freshly generated tree): mismatches are thrown or skipped alike
	if (sc.streamKind != 2) {
		Val other = gen_tree(c.src, 2, archId); Val envOther = archId == XML ? refmp::mkMap({ { refmp::mkStr("pad"), refmp::mkStr("") }, { refmp::mkStr("t"), other.t == RT::Arr || other.t == RT::Map ? other : refmp::mkMap({ { refmp::mkStr("v"), other } }) }, { refmp::mkStr("z"), refmp::mkStr("") } }) : refmp::mkArr({ refmp::mkStr(""), other, refmp::mkStr("") });
		Val u1 = dyn::shape(envOther), u2 = dyn::shape(envOther); dyn::LoadLog m1, m2; Outcome p1 = dyn::load<A>(u1, doc, mem, &m1), p2 = dyn::load<A>(u2, doc, sc, &m2);
		const std::string d2 = vf::cat(arch_name(archId), " doc-tree=", refmp::show(tree).substr(0, 120), " target-shape=", refmp::show(other).substr(0, 120), " [", sc.str(), "] memory => ", p1.str(), " | stream => ", p2.str());
		if (category(p1) != category(p2)) c.fail("memory and stream loading into a mismatching target end in different outcome categories", d2);
		if (p1.ok() && (!same_val(u1, u2) || m1.notLoaded != m2.notLoaded || m1.arraysShort != m2.arraysShort || m1.arraysLong != m2.arraysLong)) c.fail("memory and stream loading into a mismatching target deliver different values", d2 + " mem=" + refmp::show(u1).substr(0, 160) + " stream=" + refmp::show(u2).substr(0, 160));
	}
}

std::string gen_cell(vf::Src& s, char sep) {
	size_t n = s.chance(1, 8) ? 200 + s.draw(200) : s.len(10); std::string r;
	for (size_t i = 0; i < n; i++) { switch (s.draw(9)) { case 0: r.push_back(sep); break; case 1: r.push_back('"'); break; case 2: r += "\r\n"; break; case 3: r += "\xD0\x96"; break; case 4: r += "\xF0\x9F\x98\x80"; break; default: r.push_back(static_cast<char>(0x21 + s.draw(0x5e))); break; } }
	return r;
}

} // namespace

VF_PROPERTY(msgpack_diff, 5, "arbitrary tree inside an envelope [padding string 0..600, tree, sentinel] saved to MsgPack, optionally mutated (substitute / delete / insert / truncate), loaded through the memory reader and a stream reader (stringstream / short-read 1..k bytes / non-seekable): same outcome category, same value, same per-array element counts; non-trivial = document longer than one 256-byte chunk") { diff_dyn<MsgPackArchive>(c, MSGPACK); }
VF_PROPERTY(json_diff, 3, "same for JSON (UTF-8 without BOM, the common domain of both entry points)") { diff_dyn<JsonArchive>(c, JSON); }
VF_PROPERTY(xml_diff, 3, "same for XML") { diff_dyn<XmlArchive>(c, XML); }

namespace { struct RevRow { std::string a = "<absent>", a2 = "<absent>", b = "<absent>", c = "<absent>", none = "<absent>";
	template <class Ar> void Serialize(Ar& ar) { ar << KeyValue("c2", c) << KeyValue("c1", b) << KeyValue("c0", a) << KeyValue("nope", none) << KeyValue("c0", a2); }
	bool operator==(const RevRow& o) const { return a == o.a && a2 == o.a2 && b == o.b && c == o.c && none == o.none; } }; }
VF_PROPERTY(csv_diff, 5, "CSV table (1..6 columns, cells with separators, quotes, CRLF, multi-byte characters, long cells that straddle the 256-byte decoding chunk), optionally mutated, loaded by name into maps from memory and from streams: same outcome category and same rows; non-trivial = document longer than one chunk or mutated")
{
	Cfg mem; static const char seps[] = { ',', ';', '\t', ' ', '|' }; mem.opt.valuesSeparator = seps[c.src.draw(5)]; const char sep = mem.opt.valuesSeparator;
	const size_t cols = 1 + c.src.draw(6), rows = 1 + c.src.len(8); Table table(rows);
	for (auto& r : table) for (size_t k = 0; k < cols; k++) r["c" + std::to_string(k)] = gen_cell(c.src, sep);
	std::string bytes; Outcome so = save<CsvArchive>(table, bytes, mem); if (!so.ok()) c.fail("saving a table failed", so.str());
	bool changed = false; const std::string doc = mutate(c.src, bytes, changed);
	Cfg sc = stream_cfg(c.src); sc.opt.valuesSeparator = sep;
	c.nontrivial = doc.size() > 256 || changed; c.label(changed ? "mutated" : "valid");
	c.describe(vf::cat("csv cols=", cols, " rows=", rows, " size=", doc.size(), changed ? " mutated " : " valid ", sc.str(), " h=", vf::hash_bytes(doc.data(), doc.size())));
	Table t1, t2; Outcome o1 = load<CsvArchive>(t1, doc, mem), o2 = load<CsvArchive>(t2, doc, sc);
	const std::string d = vf::cat("size=", doc.size(), changed ? " mutated" : " valid", " [", sc.str(), "] memory => ", o1.str(), " rows=", t1.size(), " | stream => ", o2.str(), " rows=", t2.size(), " doc=", vf::hex(doc.substr(0, 200)));
	// a mutation may introduce bytes that look like a BOM / other encoding to the stream entry point only (encoding detection is a stream feature)
	bool asciiStart = !doc.empty() && static_cast<unsigned char>(doc[0]) >= 0x21 && static_cast<unsigned char>(doc[0]) < 0x7f; bool hasNul = doc.find('\0') != std::string::npos; bool validUtf8 = refutf::valid8(doc);
	if (changed && (!asciiStart || hasNul || !validUtf8)) { c.label("mutation-outside-common-domain"); return; }
	if (!changed && (!o1.ok() || !o2.ok())) c.fail("a table saved by the library is rejected", d);
	if (category(o1) != category(o2)) c.fail("memory and stream loading end in different outcome categories", d);
	if (o1.ok() && t1 != t2) c.fail("memory and stream loading deliver different rows", d);
	if (!changed && o1.ok() && t1 != table) c.fail("loaded table differs from the saved one", d);
	// request orders: the same document read by a typed row that asks for the columns in reverse order, for the first column twice and for an absent one
	std::vector<RevRow> r1, r2; Outcome p1 = load<CsvArchive>(r1, doc, mem), p2 = load<CsvArchive>(r2, doc, sc);
	const std::string d2 = vf::cat("typed row (reverse order, c0 twice, absent column) size=", doc.size(), changed ? " mutated" : " valid", " [", sc.str(), "] memory => ", p1.str(), " rows=", r1.size(), " | stream => ", p2.str(), " rows=", r2.size(), " doc=", vf::hex(doc.substr(0, 200)));
	if (category(p1) != category(p2)) c.fail("memory and stream loading end in different outcome categories", d2);
	if (p1.ok() && !(r1 == r2)) c.fail("memory and stream loading deliver different rows", d2);
	if (!changed && p1.ok()) { if (r1.size() != table.size()) c.fail("loaded table differs from the saved one", d2); for (size_t i = 0; i < r1.size(); i++) { auto cell = [&](const char* k) { auto it = table[i].find(k); return it == table[i].end() ? std::string("<absent>") : it->second; };
		if (r1[i].a != cell("c0") || r1[i].a2 != cell("c0") || r1[i].b != cell("c1") || r1[i].c != cell("c2") || r1[i].none != "<absent>") c.fail("loaded table differs from the saved one", vf::cat("row ", i, " | ", d2)); } }
}

VF_PROPERTY(save_stream_equals_memory, 3, "tree / table saved to memory and to a stream in UTF-8 without BOM (compact and pretty): byte-identical output for MsgPack, JSON, XML and CSV; non-trivial = output longer than 256 bytes or pretty-printed")
{
	const int archId = static_cast<int>(c.src.draw(4)); Cfg mem; Cfg sc; sc.stream = true; sc.opt.streamOptions.writeBom = false;
	if ((archId == JSON || archId == XML) && c.src.coin()) { mem.opt.formatOptions.enableFormat = true; mem.opt.formatOptions.paddingChar = c.src.coin() ? ' ' : '\t'; mem.opt.formatOptions.paddingCharNum = static_cast<uint16_t>(1 + c.src.draw(6)); sc.opt.formatOptions = mem.opt.formatOptions; }
	std::string b1, b2; Outcome o1, o2;
	if (c.src.chance(1, 3)) { sc.streamKind = 3; c.label("file"); }   // a file is a stream too (SaveObjectToFile over existing longer content)
	if (archId == CSV) { static const char seps[] = { ',', ';', '\t', ' ', '|' }; mem.opt.valuesSeparator = sc.opt.valuesSeparator = seps[c.src.draw(5)]; Table t(1 + c.src.len(6)); for (auto& r : t) for (size_t k = 0; k < 3; k++) r["c" + std::to_string(k)] = gen_cell(c.src, mem.opt.valuesSeparator); o1 = save<CsvArchive>(t, b1, mem); o2 = save<CsvArchive>(t, b2, sc); }
	else { Val tree = gen_tree(c.src, 3, archId); if (tree.t != RT::Arr && tree.t != RT::Map) tree = refmp::mkMap({ { refmp::mkStr("v"), tree } });
		if (archId == MSGPACK) { o1 = dyn::save<MsgPackArchive>(tree, b1, mem); o2 = dyn::save<MsgPackArchive>(tree, b2, sc); } else if (archId == JSON) { o1 = dyn::save<JsonArchive>(tree, b1, mem); o2 = dyn::save<JsonArchive>(tree, b2, sc); } else { o1 = dyn::save<XmlArchive>(tree, b1, mem); o2 = dyn::save<XmlArchive>(tree, b2, sc); } }
	c.nontrivial = b1.size() > 256 || mem.opt.formatOptions.enableFormat; c.describe(vf::cat("save ", arch_name(archId), " size=", b1.size(), " fmt=", mem.opt.formatOptions.enableFormat, " h=", vf::hash_bytes(b1.data(), b1.size())));
	if (o1.ok() != o2.ok()) c.fail("saving succeeds through one entry point only", vf::cat(arch_name(archId), " memory => ", o1.str(), " stream => ", o2.str()));
	if (o1.ok() && b1 != b2) c.fail("stream output (UTF-8, no BOM) differs from memory output", vf::cat(arch_name(archId), " memory=", archId == MSGPACK ? vf::hex(b1.substr(0, 120)) : b1.substr(0, 240), " stream=", archId == MSGPACK ? vf::hex(b2.substr(0, 120)) : b2.substr(0, 240)));
}

VF_PROPERTY(kf52_json_invalid_utf8, 1, "witness of KF-52")
{
	static const char* bad[] = { "\x80", "\xC0\x80", "\xED\xA0\x80", "\xFF", "\xE2\x82" }; const std::string doc = std::string("[\"a") + bad[c.src.draw(5)] + "b\"]";
	c.describe("kf52 " + vf::hex(doc)); c.nontrivial = true;
	std::vector<std::string> m, s2; Cfg mem, sc; sc.stream = true; Outcome o1 = load<JsonArchive>(m, doc, mem), o2 = load<JsonArchive>(s2, doc, sc);
	if (category(o1) != category(o2)) c.fail("KF-52: JSON with ill-formed UTF-8 in a string is accepted from memory but rejected from a stream", vf::cat(vf::hex(doc), " memory => ", o1.str(), " stream => ", o2.str()));
}

VF_MAIN("c10_mem_vs_stream")
