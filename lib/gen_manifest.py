#!/usr/bin/env python3
"""Regenerates /verif/MANIFEST.json from lib/props.py + lib/manifest_text.py (single source of truth)."""
import json, os, sys
sys.path.insert(0, os.path.dirname(os.path.abspath(__file__)))
import props, manifest_text as T
V = os.path.dirname(os.path.dirname(os.path.abspath(__file__)))
allp = [json.loads(l)['id'] for l in open(os.path.join(V, 'properties.jsonl'))]
checks = []
for pid in allp:
    if pid not in props.PROPERTIES or pid not in T.TEXT: continue
    P = props.PROPERTIES[pid]; t = T.TEXT[pid]
    c = dict(property_id=pid, quick_cmd='./check %s --tier quick' % pid, evidence_file='/verif/evidence/%s.json' % pid,
             replay_cmd_template='./check %s --replay {path}' % pid, engine=t['engine'],
             level_claimed=dict(category=P['level'], text=t['level_text'], design_ref=t['design_ref']),
             level_note=t['level_note'], technique=t['technique'])
    if any('thorough' in u['tiers'] for u in P['units']): c['thorough_cmd'] = './check %s --tier thorough' % pid
    checks.append(c)
na = [dict(property_id=p, reason=T.NOT_APPLICABLE.get(p, 'check not built yet in this phase; see DESIGN.md section 5 for the planned design')) for p in allp if p not in [c['property_id'] for c in checks]]
m = dict(version=1, setup_cmd='./check --setup',
         hooks=dict(guard='BITSERIALIZER_VERIF', enable='every harness translation unit and the library sources are compiled with -DBITSERIALIZER_VERIF=1 by lib/driver.py', baseline_off_cmd='cmake --build /repo/_build && ctest --test-dir /repo/_build -j8 --timeout 900', source_commits=T.HOOK_COMMITS, add_only=True),
         engines=T.ENGINES, checks=checks, notes=T.NOTES, not_applicable=na)
json.dump(m, open(os.path.join(V, 'MANIFEST.json'), 'w'), indent=1)
print('MANIFEST.json: %d checks, %d not_applicable' % (len(checks), len(na)))
