"""libFuzzer units (C02): seed generation, campaign, artifact triage, minimisation, confirmation, statistics."""
import os, re, json, glob, hashlib, shutil, subprocess, resource, time

ART_KINDS = ('crash-', 'leak-', 'timeout-', 'oom-')


def _run(cmd, timeout, env, cpu=None):
    def lim():
        if cpu: resource.setrlimit(resource.RLIMIT_CPU, (cpu, cpu + 5))
    t0 = time.time()
    try:
        r = subprocess.run(cmd, capture_output=True, text=True, errors='replace', timeout=timeout, env=env, preexec_fn=lim)
        return r.returncode, r.stdout, r.stderr, time.time() - t0
    except subprocess.TimeoutExpired as ex:
        se = ex.stderr.decode(errors='replace') if isinstance(ex.stderr, bytes) else (ex.stderr or '')
        return 'timeout', '', se, time.time() - t0


def classify(stderr, artifact_name):
    """Failure kind from the output of a crashing run (stable across runs: no addresses, no sizes)."""
    m = re.search(r'^VF-ORACLE: (.*)$', stderr, re.M)
    if m: return 'oracle: ' + m.group(1).strip()
    m = re.search(r'SUMMARY: (AddressSanitizer|UndefinedBehaviorSanitizer|LeakSanitizer): ([a-zA-Z0-9_-]+)', stderr)
    if m:
        fn = re.search(r'#\d+ 0x[0-9a-f]+ in ([^\s(]+)[^\n]*/(?:repo|usr/include/(?:rapidjson|pugi))', stderr)
        return '%s: %s%s' % (m.group(1), m.group(2), (' in ' + fn.group(1)) if fn else '')
    m = re.search(r'runtime error: ([^\n]{0,90})', stderr)
    if m: return 'UndefinedBehaviorSanitizer: ' + re.sub(r'0x[0-9a-f]+|\d{3,}', 'N', m.group(1))
    if 'ERROR: libFuzzer: timeout' in stderr or os.path.basename(artifact_name).startswith('timeout-'): return 'hang: no result within the per-input time limit'
    if 'out-of-memory' in stderr or os.path.basename(artifact_name).startswith('oom-'): return 'memory: allocation out of proportion to the input size'
    if 'deadly signal' in stderr: return 'crash: deadly signal'
    return 'crash: unclassified'


def san_env(base, extra=None):
    e = dict(os.environ); e.update(base)
    # libFuzzer needs abort-on-error semantics of its own; leaks are reported by its own LSan pass
    e['ASAN_OPTIONS'] = 'exitcode=86:detect_leaks=1:allocator_may_return_null=0:detect_stack_use_after_return=0:handle_abort=1'
    e['UBSAN_OPTIONS'] = 'exitcode=86:print_stacktrace=1:halt_on_error=1'
    if extra: e.update(extra)
    return e


def replay_input(binp, path, base_env, times=3, timeout=25, extra_env=None):
    """Runs the target on one saved input `times` times. Returns (number of failing runs, kind of the last failing run)."""
    n = 0; kind = None
    for _ in range(times):
        rc, so, se, _ = _run([binp, '-timeout=%d' % timeout, '-rss_limit_mb=3000', '-malloc_limit_mb=512', path], timeout * 3 + 30, san_env(base_env, extra_env), cpu=timeout * 2)
        if rc != 0:
            n += 1; kind = classify(se, path)
    return n, kind


def run_unit(unit, binp, tier, seed, workdir, base_env):
    """Runs one libFuzzer campaign. Returns dict(evaluations, nontrivial, distinct, labels, samples, failures=[...], inconclusive=[...])."""
    cfg = dict(unit['tiers'][tier]); name = unit['name']
    # knobs for long background campaigns (not used by the MANIFEST commands): VERIF_FUZZ_SECONDS, VERIF_FUZZ_RUNS
    if os.environ.get('VERIF_FUZZ_SECONDS'): cfg['seconds'] = int(os.environ['VERIF_FUZZ_SECONDS'])
    if os.environ.get('VERIF_FUZZ_RUNS'): cfg['runs'] = int(os.environ['VERIF_FUZZ_RUNS'])
    seeds = os.path.join(workdir, 'seeds-' + name); corpus = os.path.join(workdir, 'corpus-' + name); art = os.path.join(workdir, 'art-' + name) + '/'
    for d in (seeds, corpus, art): os.makedirs(d, exist_ok=True)
    res = dict(evaluations=0, nontrivial=0, distinct=0, labels={}, samples=[], failures=[], inconclusive=[], seeds=0)
    rc, so, se, _ = _run([binp], 120, san_env(base_env, {'VF_WRITE_SEEDS': seeds}))
    if rc != 0:
        res['failures'].append(dict(prop=name, kind='harness: seed writer failed', desc=se[-800:], detail=se[-800:], fatal=True)); return res
    # committed regression inputs are part of the starting corpus
    for f in glob.glob(os.path.join(os.path.dirname(os.path.dirname(os.path.abspath(__file__))), 'corpus', name, '*')):
        shutil.copy(f, seeds)
    res['seeds'] = len(os.listdir(seeds))
    stats = os.path.join(workdir, 'stats-%s.json' % name)
    cmd = [binp, corpus] + ([seeds] if not cfg.get('empty_corpus') else []) + ['-seed=%d' % seed, '-runs=%d' % cfg.get('runs', 100000), '-max_total_time=%d' % cfg.get('seconds', 60), '-max_len=%d' % cfg.get('max_len', 4096),
           '-timeout=%d' % cfg.get('per_input_timeout', 25), '-rss_limit_mb=3000', '-malloc_limit_mb=512', '-artifact_prefix=' + art, '-print_final_stats=1', '-use_value_profile=1', '-reload=0']
    d = os.path.join(os.path.dirname(binp), '..', '..')  # unused
    if unit.get('dict'): cmd.append('-dict=' + unit['dict'])
    rc, so, se, wall = _run(cmd, cfg.get('seconds', 60) * 3 + 300, san_env(base_env, {'VF_FUZZ_STATS': stats}))
    m = re.search(r'stat::number_of_executed_units:\s*(\d+)', se)
    execs = int(m.group(1)) if m else 0
    try:
        with open(stats) as f: st = json.load(f)
        res['evaluations'] = st['execs']; res['nontrivial'] = st['nontrivial']; res['distinct'] = st['distinct_nontrivial']; res['labels'] = st['labels']; res['samples'] = st['samples']
    except Exception:
        res['evaluations'] = execs
    if rc == 'timeout':
        res['inconclusive'].append('%s: campaign exceeded its wall-clock allowance (inconclusive, not a violation)' % name); return res
    arts = sorted(glob.glob(art + '*'))
    if rc != 0 and not arts:
        res['failures'].append(dict(prop=name, kind='harness: fuzzer exited with %s and left no artifact' % rc, desc=se[-1200:], detail=se[-1200:], fatal=True)); return res
    for a in arts:
        base = os.path.basename(a)
        if base.startswith('slow-unit-'): continue
        if not base.startswith(ART_KINDS): continue
        nfail, kind = replay_input(binp, a, base_env, times=3, timeout=cfg.get('per_input_timeout', 25))
        if nfail < 3:
            res['inconclusive'].append('%s: artifact %s did not reproduce 3/3 (%d/3): not reported' % (name, base, nfail)); continue
        # minimise (best effort, bounded)
        small = a + '.min'
        _run([binp, '-minimize_crash=1', '-runs=20000', '-max_total_time=40', '-timeout=%d' % cfg.get('per_input_timeout', 25), '-malloc_limit_mb=512', '-rss_limit_mb=3000', '-exact_artifact_path=' + small, a], 200, san_env(base_env))
        best = a
        if os.path.exists(small) and os.path.getsize(small) <= os.path.getsize(a):
            n2, k2 = replay_input(binp, small, base_env, times=2, timeout=cfg.get('per_input_timeout', 25))
            if n2 == 2 and k2 == kind: best = small
        with open(best, 'rb') as f: data = f.read()
        res['failures'].append(dict(prop=name, kind=kind, desc='input (%d bytes) %s' % (len(data), data[:64].hex()), detail=se[-1500:], input_hex=data.hex(), confirmed=True))
    return res
