#!/usr/bin/env python3
"""Assembles /verif/DESIGN.md from the hand-written parts (docs/*.md) and tables generated from known_findings.json,
seeded/*/result.json, selftest/RESULTS.tsv and lib/props.py.  Run after changing any of them: python3 lib/gen_design.py"""
import os, sys, json, glob, re
sys.path.insert(0, os.path.dirname(os.path.abspath(__file__)))
import props as PROPS
V = os.path.dirname(os.path.dirname(os.path.abspath(__file__)))
D = os.path.join(V, 'docs')
rd = lambda n: open(os.path.join(D, n), encoding='utf-8').read()

known = json.load(open(os.path.join(V, 'known_findings.json'), encoding='utf-8'))['findings']
seeded = {}
for f in sorted(glob.glob(os.path.join(V, 'seeded', '*', 'result.json'))):
    r = json.load(open(f)); d = os.path.dirname(f)
    meta = {}
    try: meta = json.load(open(os.path.join(d, 'meta.json')))
    except Exception: pass
    r['summary'] = (meta.get('summary') or '')[:260]; r['trigger'] = (meta.get('trigger') or '')[:200]
    r['verdict'] = open(os.path.join(d, 'verdict.txt')).read().split('\n')[0] if os.path.exists(os.path.join(d, 'verdict.txt')) else ''
    seeded[r['mutant']] = r
selftests = []
p = os.path.join(V, 'selftest', 'RESULTS.tsv')
if os.path.exists(p):
    for line in open(p):
        parts = line.rstrip('\n').split('\t')
        if len(parts) >= 4: selftests.append(parts)

def esc(s): return s.replace('|', '\\|').replace('\n', ' ')

def asbuilt(pid):
    P = PROPS.PROPERTIES[pid]
    units = []
    for u in P['units']:
        k = 'libFuzzer' if u.get('kind') == 'libfuzzer' else ('isolated ' if u.get('isolate') else '') + u['flavour']
        units.append('`%s` (%s)' % (u['name'], k))
    fx = [k for k in known if pid in k['property'] and k['status'] == 'fixed']
    kn = [k for k in known if pid in k['property'] and k['status'] == 'known']
    muts = [m for m in seeded.values() if any(c['check'] == pid for c in m['checks'])]
    det = [m['mutant'] for m in muts if any(c['check'] == pid and c['detected'] for c in m['checks'])]
    mis = [m['mutant'] for m in muts if not any(c['check'] == pid and c['detected'] for c in m['checks'])]
    st = [s for s in selftests if s[0] == pid]
    short = lambda x: x.split(' (')[0].replace('revert ', '').replace('patch ', ''); sd = [short(s[1]) for s in st if s[2] == 'detected']; sm = [short(s[1]) for s in st if s[2] != 'detected']
    t = '* **As built** — units: ' + ', '.join(units) + '.'
    note = NOTES.get(pid)
    if note: t += ' ' + note
    if fx: t += ' Fixed under this property: ' + ', '.join('%s (`%s`)' % (k['id'], k['commit']) for k in fx) + '.'
    if kn: t += ' Recorded (witnessed on every run): ' + ', '.join(k['id'] for k in kn) + '.'
    if sd or sm: t += ' Sensitivity (§8.1): reverting / applying ' + ', '.join('`%s`' % x for x in sd) + ' turns the check red' + ('; not caught here: ' + ', '.join('`%s`' % x for x in sm) if sm else '') + '.'
    if det or mis: t += ' Seeded mutants: detected ' + (', '.join(det) or 'none') + ('; not detected: ' + ', '.join(mis) + ' (see §8.2)' if mis else '') + '.'
    return t + '\n'

NOTES = json.load(open(os.path.join(D, 'asbuilt_notes.json'), encoding='utf-8'))

# ---- section 5: old design text with an as-built line after each heading -----------------------
sec5 = rd('sec5_design.md')
out5 = []
for line in sec5.split('\n'):
    out5.append(line)
    m = re.match(r'^### (C\d\d) ', line)
    if m and m.group(1) in PROPS.PROPERTIES:
        out5.append(''); out5.append(asbuilt(m.group(1)))
sec5 = '\n'.join(out5)

# ---- section 6 table --------------------------------------------------------------------------
rows = ['| id | properties | what fails | disposition |', '|---|---|---|---|']
def kfkey(k):
    m = re.match(r'KF-(\d+)(.*)', k['id']); return (int(m.group(1)), m.group(2))
for k in sorted(known, key=kfkey):
    disp = ('fixed: `%s`' % k['commit']) if k['status'] == 'fixed' else 'recorded (known finding)'
    rows.append('| %s | %s | %s | %s |' % (k['id'], ' '.join(k['property']), esc(k['what'])[:420], disp))
table6 = '\n'.join(rows)

# ---- section 8 tables --------------------------------------------------------------------------
r8 = ['| check | change applied to a scratch copy | outcome | failure kinds reported |', '|---|---|---|---|']
for s in selftests:
    r8.append('| %s | %s | %s | %s |' % (s[0], esc(s[1]), s[2], esc(s[3])[:200]))
t81 = '\n'.join(r8)
r82 = ['| mutant | what was changed (sub-agent summary) | trigger | demo orig/mutated | checks run | verdict |', '|---|---|---|---|---|---|']
for name, m in sorted(seeded.items()):
    cs = '; '.join('%s: %s' % (c['check'], ('**detected** (%s)' % esc(c['kinds'].rstrip(';'))[:110]) if c['detected'] else 'not detected') for c in m['checks'])
    r82.append('| %s | %s | %s | %s / %s | %s | %s |' % (name, esc(m['summary']), esc(m['trigger']), m['demo_exit_original'], m['demo_exit_mutated'], cs, esc(m['verdict'])[:200]))
t82 = '\n'.join(r82)

doc = rd('front.md') + rd('mid.md') + sec5 + '\n\n' + rd('sec6_findings.md').replace('@@TABLE6@@', table6) + '\n\n' + rd('sec7_soundness.md') + '\n\n' + rd('sec8_sensitivity.md').replace('@@TABLE81@@', t81).replace('@@TABLE82@@', t82) + '\n\n' + rd('sec9_limits.md')
open(os.path.join(V, 'DESIGN.md'), 'w', encoding='utf-8').write(doc)
print('DESIGN.md: %d lines, %d findings, %d seeded mutants, %d self-tests' % (doc.count('\n'), len(known), len(seeded), len(selftests)))
