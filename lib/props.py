"""Property table: which harness units decide which property, per tier."""

def U(name, src, flavour='asan', quick=None, thorough=None, **kw):
    t = {}
    if quick is not None: t['quick'] = quick
    if thorough is not None: t['thorough'] = thorough
    d = dict(name=name, src=src if isinstance(src, list) else [src], flavour=flavour, tiers=t)
    d.update(kw); return d

TRUSTED = ['g++ 12 / clang 14 and their ASan/UBSan runtimes', 'the choice-sequence engine in harness/engine.h (generation, shrinking, replay)']

def _c04(part, name, cases_q, cases_t):
    return U('c04_' + name, 'c04_numbers.cpp', flavour='asan', cflags=['-DC04_PART=%d' % part], libs=['-lpugixml'],
             quick=dict(cases=cases_q, shards=3, min_eval=1000), thorough=dict(cases=cases_t, shards=3, min_eval=10000))

_C01_NAMES = {0: 'mp', 1: 'js', 2: 'xml'}
def _c01_units(prefix, prop, cq, ct):
    us = []
    for a in (0, 1, 2):
        for g in (0, 1, 2):
            us.append(U('%s_%s%d' % (prefix, _C01_NAMES[a], g), 'c01_roundtrip.cpp', flavour='asan', cflags=['-DC01_ARCH=%d' % a, '-DC01_GROUP=%d' % g], libs=['-lpugixml'], args=['--prop', prop],
                        quick=dict(cases=cq, shards=1, min_eval=500), thorough=dict(cases=ct, shards=2, min_eval=5000)))
    us.append(U('%s_csv' % prefix, 'c01_roundtrip.cpp', flavour='asan', cflags=['-DC01_ARCH=3', '-DC01_GROUP=0'], libs=['-lpugixml'], args=['--prop', 'roundtrip_csv'],
                quick=dict(cases=cq, shards=1, min_eval=500), thorough=dict(cases=ct, shards=2, min_eval=5000)))
    return us

import os as _os
_HARNESS = _os.path.join(_os.path.dirname(_os.path.dirname(_os.path.abspath(__file__))), 'harness')
def _fz(name, src, cflags, rule, qruns=150000, truns=60000000, dictfile=None):
    return U(name, 'fuzz/' + src, flavour='fuzz', kind='libfuzzer', cflags=cflags, libs=['-lpugixml'], rule=rule, dict=(_os.path.join(_HARNESS, 'fuzz', dictfile) if dictfile else None),
             quick=dict(runs=qruns, seconds=60, max_len=4096, min_eval=20000), thorough=dict(runs=truns, seconds=2400, max_len=4096, min_eval=1000000))

_FZ_LOAD_RULE = 'coverage-guided bytes: byte 0 selects one of 30 target types (class with 18 members and validators, containers, maps with string / int / float / timestamp / enum keys, tuples, arrays, byte containers, optionals, chrono, dynamic trees of 4 shapes, scalars), byte 1 policies x medium (memory, istringstream, short-read and non-seekable streambuf, chunk size); seeds = valid documents of every selector; non-trivial = the load returned normally or failed above the syntax level (mismatch, overflow, range, validation, UTF)'
PROPERTIES = {
 'C02': dict(
    level='exploration', exhaustive_claim=False,
    rule='libFuzzer campaigns (ASan + UBSan, -malloc_limit_mb=512, -timeout=25 s per input, -max_len 4096) over 4 loader targets + converters + UTF codecs + encoded stream reader, plus a generated depth / size ladder in isolated children',
    assumptions=TRUSTED + ['libFuzzer (clang 14) and its coverage feedback', 'memory oracle: a single allocation above 512 MiB or an RSS above 3 GiB for an input of at most 4 KiB is out of proportion', 'hang oracle: no result within 25 s (confirmed 3 times) for an input of at most 4 KiB'],
    units=[_fz('fz_load_msgpack', 'fz_load.cpp', ['-DFZ_ARCH=0'], 'MessagePack: ' + _FZ_LOAD_RULE, dictfile='msgpack.dict'),
           _fz('fz_load_json', 'fz_load.cpp', ['-DFZ_ARCH=1'], 'JSON: ' + _FZ_LOAD_RULE, qruns=100000, dictfile='text.dict'),
           _fz('fz_load_xml', 'fz_load.cpp', ['-DFZ_ARCH=2'], 'XML: ' + _FZ_LOAD_RULE, qruns=100000, dictfile='text.dict'),
           _fz('fz_load_csv', 'fz_load.cpp', ['-DFZ_ARCH=3'], 'CSV: bytes as a table for vector<typed row>, vector<map>, list; separators , and ;; all media', qruns=150000, dictfile='text.dict'),
           _fz('fz_convert', 'fz_convert.cpp', [], 'strings in char / char16_t / char32_t / wchar_t for Convert::To of 34 target types (all integer widths, float, double, long double, bool, enum, 7 time_point and 7 duration precisions, CRawTime, tm, strings); in-target oracle: an accepted value prints to text that parses to the same value; non-trivial = converted, or the text holds a digit', qruns=600000, dictfile='convert.dict'),
           _fz('fz_utf', 'fz_utf.cpp', [], 'code-unit sequences (8 / 16 / 32 bit) for Transcode, UtfN::Decode (LE and BE), UtfN::Encode into 3 target widths x 2 policies x 3 error marks; in-target oracle: iterator inside the input, existing output preserved, Skip output well-formed per ref_utf; non-trivial = ill-formed or longer than 3 units', qruns=600000),
           U('c02_ladder', 'c02_ladder.cpp', flavour='asan', libs=['-lpugixml'], isolate=True, cpu=20, quick=dict(cases=220, shards=14, min_eval=2000, timeout=900), thorough=dict(cases=1500, shards=16, min_eval=20000, timeout=7200)),
           _fz('fz_encoded_stream', 'fz_encoded_stream.cpp', [], 'bytes as an encoded stream for DetectEncoding (string and stream) and CEncodedStreamReader<char|char16_t|char32_t, 32|256> over istringstream / short-read streambuf; in-target oracle: end reached within size+64 ReadChunk calls, Skip output well-formed; non-trivial = several chunks, a BOM or a decoding error', qruns=400000)]),
 'C03': dict(
    level='exploration', exhaustive_claim=False,
    rule='model-based: generated object documents (1..10 keys; ints, strings, bools, doubles, int arrays, nested objects; MsgPack also integer / float / timestamp keys) in an envelope [padding 0..600, object, sentinel]; generated request scripts (any order, repeats, absent keys with int / string / optional / atomic / unique_ptr targets, nested object with sub-script, array read for j <= n elements, VisitKeys, early stop) executed through the public Serialize(scope, key, value) API; 4 archives x memory / stringstream / short-read stream; MsgPack keys 2^N - a next to absent requests intN_t(-a) (same bit pattern, N = 8..64); null values requested as nested object / array scope; oracle = the document as a map + the sentinel behind the object',
    assumptions=TRUSTED + ['keys are unique, NUL-free; XML keys are Names and XML strings non-empty (KF-13)', 'nil / empty CSV cells are "not loaded" by design'],
    units=[U('c03_scripts', 'c03_field_order.cpp', flavour='asan', libs=['-lpugixml'], quick=dict(cases=50000, shards=8, min_eval=50000), thorough=dict(cases=2400000, shards=16, min_eval=1000000)),
           U('c03_scripts_chunk32', 'c03_field_order.cpp', flavour='asan32', libs=['-lpugixml'], args=['--skip-prefix', 'kf'], quick=dict(cases=10000, shards=4, min_eval=20000), thorough=dict(cases=300000, shards=8, min_eval=500000))]),
 'C05': dict(
    level='exploration', exhaustive_claim=False,
    rule='arbitrary trees (depth <= 3: arrays of scalars / of objects, objects holding arrays, byte containers) with 1..6 values at any depth replaced by certainly mismatching values (other scalar kind, string, array, object, out-of-range number; for text archives: unparsable text), loaded with both Skip policies into a sentinel-filled target of the clean shape + envelope sentinel; sequences of narrow numeric types (float / int8 / uint16 / int32 / uint32) whose offences are numbers the element type cannot hold; sets of objects with offended members; typed objects with Required() on every field; 4 archives, memory and streams; oracle = model_skip (clean document)',
    assumptions=TRUSTED + ['nil is "not loaded" under either policy (not used as an offence)', 'bool -> integer and (JSON) integer -> float are legal conversions, not offences', 'an int array for a byte container is legal (falls back to a regular array)'],
    units=[U('c05_skip', 'c05_skip.cpp', flavour='asan', libs=['-lpugixml'], quick=dict(cases=40000, shards=8, min_eval=50000), thorough=dict(cases=600000, shards=16, min_eval=1000000)),
           U('c05_skip_chunk32', 'c05_skip.cpp', flavour='asan32', libs=['-lpugixml'], args=['--skip-prefix', 'kf'], quick=dict(cases=10000, shards=4, min_eval=20000), thorough=dict(cases=300000, shards=8, min_eval=500000))]),
 'C17': dict(
    level='exploration', exhaustive_claim=False,
    rule='object with 10 fields (int32, double, string, vector, e-mail, phone, uint8, nested object, array of objects, map of objects), each with 0..3 runtime-chosen validators out of Required / Range / MinSize / MaxSize / Email / PhoneNumber / custom functors + lambda, default or custom messages; every field present (at, just inside, just outside each bound), absent, null or mismatched-and-skipped; maxValidationErrors in {0,1,2,3,4,8}; validated objects also inside std::tuple / optional / array / deque members; 4 archives, memory and streams; oracle = reference model of the documented validator rules predicting failing paths and messages in load order',
    assumptions=TRUSTED + ['array / row positions inside paths are wildcards (the property exempts them)', 'default PhoneNumber messages are only required to start with "Invalid phone number"; e-mail labels starting with a digit and phones with repeated "+" are not generated (documentation is silent)', 'mismatches are generated under the Skip policies (C05 covers the policies themselves)'],
    units=[U('c17_validation', 'c17_validation.cpp', flavour='asan', libs=['-lpugixml'], quick=dict(cases=50000, shards=8, min_eval=50000), thorough=dict(cases=1800000, shards=16, min_eval=1000000))]),
 'C08': dict(
    level='exploration', exhaustive_claim=False,
    rule='JSON: dynamic trees (null, bool, int64/uint64, finite double/float full range, strings over the full Unicode range, empty/nested containers, any root) and typed fixed-width integers x compact/pretty(padding char x count) x memory/stream x 5 encodings x BOM; forward oracle nlohmann::ordered_json + ref_utf byte decoding; converse: own free-choice emitter (white space, escapes, member order, numeric spelling, encoding, BOM), self-checked against nlohmann. XML: object/array trees of XML Names and XML Chars + typed records with attributes; forward oracle libxml2 infoset; converse: own emitter (entities, character references, CDATA, quote style, child order, white space, declaration, encoding, BOM), self-checked against libxml2',
    assumptions=TRUSTED + ['nlohmann::json 3.x and libxml2 are the independent standard parsers', 'BOM-less UTF-16/32 streams start with two ASCII characters and hold no U+0000 (soundness rule 1)', 'integers are re-spelled as integers only (soundness rule 3)', 'XML: no CR, no empty / blank-only text, no empty containers (recorded findings KF-12, KF-13), keys are XML Names (KF-44)'],
    units=[U('c08_json', 'c08_json.cpp', flavour='asan', libs=['-lpugixml'], quick=dict(cases=40000, shards=8, min_eval=50000), thorough=dict(cases=1200000, shards=16, min_eval=1000000)),
           U('c08_xml', 'c08_xml.cpp', flavour='asan', cflags=['-I/usr/include/libxml2'], libs=['-lpugixml', '-lxml2'], quick=dict(cases=40000, shards=8, min_eval=50000), thorough=dict(cases=1200000, shards=16, min_eval=1000000)),
           U('c01_kf', 'c01_kf.cpp', flavour='asan', libs=['-lpugixml'], args=['--prop', 'kf12*,kf13*,kf44*'], quick=dict(cases=60, shards=1, min_eval=10), thorough=dict(cases=600, shards=1, min_eval=10))]),
 'C19': dict(
    level='exploration', exhaustive_claim=False,
    rule='schedules of 2..4 threads x 2..10 operations out of 23 kinds (save / load through 4 archives from memory and string streams in 5 encodings, validation-failing and policy-skipping loads, std::pair, Convert::To of enums, numbers, ISO dates, UTF) on thread-local objects plus shared read-only source objects, input buffers, default options and enum tables; half of the schedules let every thread hammer the same kind of operation; oracles: ThreadSanitizer happens-before race detection over harness + library sources + header-only adapters, and equality of every result with a sequential run of the same schedule',
    assumptions=TRUSTED + ['ThreadSanitizer flags a racy pair whenever both accesses occur in a run, independent of the order the scheduler chose; pairs that never occur in any generated schedule are not seen', 'the system libpugixml.so is not instrumented: races inside pugixml itself are only visible through differing results'],
    units=[U('c19_threads', 'c19_threads.cpp', flavour='tsan', libs=['-lpugixml', '-lpthread'], quick=dict(cases=1200, shards=8, min_eval=4000, timeout=900), thorough=dict(cases=40000, shards=16, min_eval=100000, timeout=7200))]),
 'C20': dict(
    level='fault_enumeration', exhaustive_claim=False,
    rule='fault positions of generated scenarios (objects with 10 members / CSV rows of generated sizes; 4 archives; memory and 3 kinds of streams): every truncation length, every index k of "the k-th operator new throws" (once / from then on), every byte at which an input streambuf throws, every byte at which an output streambuf fails or throws (with and without the exception mask), CSV row-width mismatch at every row, ill-formed text under ThrowError; each case in a forked child: terminate, abort, sanitizer report, CPU budget or a leak at exit are failures',
    assumptions=TRUSTED + ['a call that returns normally although an allocation failed is accepted only when its result equals the fault-free result (the failure was absorbed, e.g. by a nothrow fallback)', 'text formats may accept a strict prefix that is itself a document; MessagePack must reject every strict prefix'],
    units=[U('c20_faults', 'c20_faults.cpp', flavour='asan', libs=['-lpugixml'], isolate=True, quick=dict(cases=700, shards=12, min_eval=4000, timeout=900), thorough=dict(cases=12000, shards=16, min_eval=100000, timeout=7200))]),
 'C09': dict(
    level='exploration', exhaustive_claim=False,
    rule='generated tables (1..8 columns, 1..12 rows; cells: arbitrary Unicode incl. separators, quotes, CR, LF, CRLF, blanks, U+0000, long cells, numbers, booleans, ISO dates, empty) x 5 separators x memory/stream x 5 encodings x BOM; forward: strict RFC 4180 reference parser recovers header + cells; converse: reference writer with free quoting / LF or CRLF / optional final break / permuted columns loads to the same rows (maps and typed by-name struct); ragged records rejected',
    assumptions=TRUSTED + ['ref_csv.h (RFC 4180 ABNF), ref_utf.h; both self-tested', 'BOM-less streams: headers start with an ASCII character and cells hold no U+0000', 'recorded finding KF-14 (empty table) excluded: tables have >= 1 row'],
    units=[U('c09_csv', 'c09_csv.cpp', flavour='asan', libs=['-lpugixml'], quick=dict(cases=50000, shards=8, min_eval=50000), thorough=dict(cases=3000000, shards=16, min_eval=1000000)),
           U('c01_kf', 'c01_kf.cpp', flavour='asan', libs=['-lpugixml'], args=['--prop', 'kf14*'], quick=dict(cases=60, shards=1, min_eval=10), thorough=dict(cases=600, shards=1, min_eval=10))]),
 'C10': dict(
    level='exploration', exhaustive_claim=False,
    rule='documents of all four archives (arbitrary trees in an envelope with 0..600 bytes of padding that shifts every token across the 256-byte chunk boundary; CSV tables with long cells), valid and mutated (substitute / delete / insert / truncate), loaded from memory and from stringstream / short-read (1..k bytes per call) / non-seekable streams; saving to a UTF-8 BOM-less stream vs memory; oracle = differential (same value, or rejection by both)',
    assumptions=TRUSTED + ['in-memory input is UTF-8 without BOM (the common domain of both entry points); mutated text documents stay well-formed UTF-8 (KF-52 recorded and witnessed)', 'non-seekable streams get in-order (unmodified) documents only', 'error categories: loaded / rejected by a SerializationException / validation / non-library exception'],
    units=[U('c10_diff', 'c10_mem_vs_stream.cpp', flavour='asan', libs=['-lpugixml'], quick=dict(cases=60000, shards=8, min_eval=50000), thorough=dict(cases=3000000, shards=16, min_eval=1000000)),
           U('c10_diff_chunk32', 'c10_mem_vs_stream.cpp', flavour='asan32', libs=['-lpugixml'], args=['--skip-prefix', 'kf'], quick=dict(cases=15000, shards=4, min_eval=20000), thorough=dict(cases=500000, shards=8, min_eval=500000))]),
 'C13': dict(
    level='exploration', exhaustive_claim=False,
    rule='generated texts whose multi-unit characters sit around the chunk boundary x 5 encodings x BOM on/off x target char types {char, char16_t, char32_t} x chunk sizes {32, 64, 256} x {stringstream, short-read streambuf} x both policies; every truncation point (sampled, biased to the last characters); CEncodedStreamWriter; DetectEncoding on strings and streams; CSV/JSON/XML documents written by the independent encoder loaded through the stream entry points; oracle = ref_utf + bounded call counter',
    assumptions=TRUSTED + ['ref_utf.h', 'BOM-less texts start with an ASCII non-NUL character and hold no U+0000 (detection is undecidable otherwise)', 'UTF-8 -> char is a byte copy by design (not judged for truncation)', 'hang = more ReadChunk calls than input bytes + 64 (a call counter, not a clock)'],
    units=[U('c13_streams', 'c13_encoded_streams.cpp', flavour='asan', libs=['-lpugixml'], quick=dict(cases=150000, shards=8, min_eval=100000), thorough=dict(cases=8000000, shards=16, min_eval=1000000))]),
 'C06': dict(
    level='exploration', exhaustive_claim=True,
    rule='exhaustive 8/16-bit integers of every integer type and all format thresholds; generated values of 90 typed models (floats incl. NaN payloads/Inf/subnormals, strings/bin/arrays/maps at length thresholds, negative and sub-second chrono values, classes with base class (first, in the middle, two bases) and conditional member, maps with every key type); oracle = independent strict MessagePack decoder + independently derived tree + minimal-format rule + memory == stream bytes',
    assumptions=TRUSTED + ['ref_msgpack.h (from the MessagePack specification; vectors cross-checked with msgpack-python 1.1.1), self-tested at start', 'ties between integer families of equal size are allowed', 'recorded finding KF-35 (timestamp 96 field order) is excused only for that field order and witnessed'],
    units=[U('c06_g%d' % g, 'c06_msgpack_write.cpp', flavour='asan', cflags=['-DMODEL_GROUP=%d' % g], libs=['-lpugixml'], quick=dict(cases=120000, shards=5, min_eval=50000), thorough=dict(cases=6000000, shards=5, min_eval=500000)) for g in (0, 1, 2)]),
 'C07': dict(
    level='exploration', exhaustive_claim=False,
    rule='typed model values and arbitrary-shape trees encoded by an independent encoder with adversarial format choices (any legal width / integer family / float width / timestamp layout / key order), every strict prefix (sampled) and single-byte corruptions at node, length and payload offsets; both readers (memory, stream incl. short reads); oracle = independent reference decoder',
    assumptions=TRUSTED + ['ref_msgpack.h encoder/decoder, self-tested', 'bytes after the first complete object are not examined by the loader (not judged)', 'nil is "not loaded" by design', 'non-finite floats keep their width (C04 rule)', 'recorded finding KF-35 excluded for the 96-bit layout and witnessed'],
    units=[U('c07_g%d' % g, 'c07_msgpack_read.cpp', flavour='asan', cflags=['-DMODEL_GROUP=%d' % g], libs=['-lpugixml'], quick=dict(cases=100000 if g == 0 else 80000, shards=5, min_eval=50000), thorough=dict(cases=5000000, shards=5, min_eval=500000)) for g in (0, 1, 2)]),
 'C01': dict(
    level='exploration', exhaustive_claim=False,
    rule='generated typed model values (90 types: fundamentals, 4 string widths, enum, classes with base class / external serialization, chrono, every std container / optional / smart pointer / tuple / pair, nested) x 4 archives x {root, object member} x {memory, stringstream, short-read stream} x 5 encodings x BOM x pretty-print/padding x CSV separators; oracle = round trip (deep equality, floats bitwise) + load-save-load fixed point',
    assumptions=TRUSTED + ['values restricted to what the format can carry: XML 1.0 characters and Names, CSV = flat rows (no null/empty distinction for strings), JSON floats finite', 'BOM-less streams: no U+0000 in the text (detection is undecidable otherwise)',
                 'recorded findings KF-12, KF-13, KF-14, KF-34, KF-44 are excluded by construction and witnessed on every run'],
    units=_c01_units('c01', 'roundtrip*', 40000, 1500000) + [U('c01_kf', 'c01_kf.cpp', flavour='asan', libs=['-lpugixml'], quick=dict(cases=300, shards=1, min_eval=100), thorough=dict(cases=3000, shards=1, min_eval=100))]),
 'C18': dict(
    level='exploration', exhaustive_claim=False,
    rule='the same typed models: a document saved from value A is loaded into a target already holding an independent random value B of the same type (longer / shorter / empty / other keys / null / engaged), result must equal A; 4 archives, root and member positions, memory and streams; CSV rows into a populated vector; arrays with null elements into populated vector<bool> / vector<int> / list / deque against the fresh load; media include files (SaveObjectToFile over longer stale content, LoadObjectFromFile)',
    assumptions=TRUSTED + ['documents are complete for the element schema (an absent member legitimately keeps its old value, C03)', 'recorded findings KF-12, KF-13, KF-44 and KF-66 (null element keeps the old element of a generic sequence) excluded by construction and witnessed'],
    units=_c01_units('c18', 'reload*', 30000, 1200000) + [U('c18_maps', 'c18_map_modes.cpp', flavour='asan', libs=['-lpugixml'], quick=dict(cases=6000, shards=2, min_eval=1000), thorough=dict(cases=600000, shards=4, min_eval=10000)),
           U('c01_kf', 'c01_kf.cpp', flavour='asan', libs=['-lpugixml'], args=['--prop', 'kf12*,kf13*,kf44*'], quick=dict(cases=200, shards=1, min_eval=50), thorough=dict(cases=2000, shards=1, min_eval=50))]),

 'C04': dict(
    level='exploration', exhaustive_claim=True,
    rule='exhaustive 8/16-bit sources x 11 targets for direct conversion; generated boundary (every type limit +-2, 2^k+-2, float neighbours of limits, subnormals, NaN/Inf) and random values of every source type carried through every archive position (root, array element, object member, XML attribute, CSV cell, map key; MsgPack additionally in every legal format chosen by an independent encoder) into every target type under the four policy combinations, memory and streams; oracle = exact numeric model',
    assumptions=TRUSTED + ['numeric_model.h (exact __int128 / long double arithmetic), self-tested at start', 'a value of another kind (bool/integer/float) than the target may be reported by the mismatched-types policy in typed archives; text archives erase kinds, so an unrepresentable text value may be reported by either policy',
                 'the numeric value carried by a text archive for a float source is the decimal the library printed', 'NaN/Inf: same class and sign, or reported'],
    units=[U('c04_direct', 'c04_numbers.cpp', flavour='asan', cflags=['-DC04_PART=1'], needs_lib=False,
             quick=dict(cases=40000, shards=4, min_eval=100000), thorough=dict(cases=6000000, shards=8, min_eval=1000000)),
           _c04(2, 'msgpack', 24000, 3200000), _c04(3, 'json', 12000, 1600000), _c04(4, 'xml', 12000, 1600000), _c04(5, 'csv', 8000, 1000000)]),

 'C15': dict(
    level='exploration', exhaustive_claim=False,
    rule='grammar-based generation of date-time and duration texts from fields (every field at/below/above range, magnitudes to and beyond 2^64, sign spellings, fractions incl. exact ties), mutated/garbage strings, exhaustive fraction values up to 6 digits; 14 time_point / 14 duration targets, time_t, tm; oracle = denoted value computed in __int128 from the generating fields',
    assumptions=TRUSTED + ['ref_calendar.h', 'leniencies of the parser outside the four documented rejection classes (digit counts, text after Z, part order in durations) are accepted iff the returned value is the natural denotation', 'text that is both ungrammatical and out of range may raise either exception', 'recorded finding KF-27 excluded and witnessed'],
    units=[U('c15_sweep', 'c15_iso_parse.cpp', flavour='opt', needs_lib=False, args=['--only-sweeps'],
             quick=dict(shards=16, min_eval=5000000), thorough=dict(shards=16, min_eval=50000000, timeout=5400)),
           U('c15_pbt', 'c15_iso_parse.cpp', flavour='asan', needs_lib=False, args=['--no-sweeps'],
             quick=dict(cases=25000, shards=16, min_eval=100000), thorough=dict(cases=1600000, shards=16, min_eval=1000000)),
           U('c14_kf', 'c14_chrono_text.cpp', flavour='opt', libs=['-lpugixml'], args=['--no-sweeps', '--prop', 'kf27*'],
             quick=dict(cases=800, shards=1, min_eval=100), thorough=dict(cases=8000, shards=1, min_eval=100))]),

 'C14': dict(
    level='exploration', exhaustive_claim=True,
    rule='exhaustive: every day of years -10000..+20000 for 7 precisions (+ 32-bit representations), every second of 12 selected days; generated min/max neighbourhoods, calendar boundaries and random 64-bit counts for time points and durations, CRawTime/CTimeRef, MsgPack timestamp passage; oracle = ref_calendar (Rata-Die in __int128, self-tested against glibc gmtime_r)',
    assumptions=TRUSTED + ['ref_calendar.h; glibc gmtime_r for its self-test', 'recorded findings KF-27 (first day of a 64-bit range cannot be parsed back) and KF-33 (the same for the last 400-year era of the day-precision range) are excluded by construction and witnessed separately'],
    units=[U('c14_sweep', 'c14_chrono_text.cpp', flavour='opt', libs=['-lpugixml'], args=['--only-sweeps'],
             quick=dict(shards=16, min_eval=30000000), thorough=dict(shards=16, min_eval=30000000)),
           U('c14_pbt', 'c14_chrono_text.cpp', flavour='asan', libs=['-lpugixml'], args=['--no-sweeps', '--skip-prefix', 'kf'],
             quick=dict(cases=40000, shards=8, min_eval=100000), thorough=dict(cases=8000000, shards=16, min_eval=1000000)),
           U('c14_kf', 'c14_chrono_text.cpp', flavour='opt', libs=['-lpugixml'], args=['--no-sweeps', '--prop', 'kf*'],
             quick=dict(cases=1200, shards=1, min_eval=100), thorough=dict(cases=12000, shards=1, min_eval=100))]),

 'C16': dict(
    level='exploration', exhaustive_claim=True,
    rule='exhaustive 8/16-bit integers and 2^24 (quick) / all 2^32 (thorough) float bit patterns; generated boundary/random 32/64-bit integers, doubles and literal-grammar strings; oracle = ref_num (from_chars grammar recogniser, __int128, glibc strtof/strtod)',
    assumptions=TRUSTED + ['glibc strtof/strtod are correctly rounded', 'ref_num.h literal recogniser follows the std::from_chars grammar named by docs/bitserializer_convert.md; self-tested at start',
                 'accepted ambiguity: negative literal into unsigned target may raise either exception; floating underflow may return the correctly rounded subnormal/zero or out_of_range'],
    units=[U('c16_sweep', 'c16_numbers_text.cpp', flavour='opt', needs_lib=False, args=['--only-sweeps'],
             quick=dict(shards=16, min_eval=10000000), thorough=dict(shards=16, min_eval=1000000000, timeout=5400)),
           U('c16_pbt', 'c16_numbers_text.cpp', flavour='asan', needs_lib=False, args=['--no-sweeps'],
             quick=dict(cases=60000, shards=8, min_eval=100000), thorough=dict(cases=2000000, shards=16, min_eval=1000000))]),

 'C12': dict(
    level='exploration', exhaustive_claim=True,
    rule='exhaustive sweeps over all UTF-8 strings of length <= 3, 4-byte strings by class, all UTF-16 single units and surrogate pairs, all UTF-32 units, plus generated ill-formed chunks embedded in valid text; oracle = tiling over independent ref_utf',
    assumptions=TRUSTED + ['ref_utf.h (Unicode ch.3 Table 3-7), self-tested at every start', 'tiling oracle accepts both the library segmentation convention (lead byte + declared tails) and maximal-subpart segmentation'],
    units=[U('c12_sweep', 'c12_utf_illformed.cpp', flavour='opt', needs_lib=False, args=['--only-sweeps'],
             quick=dict(shards=16, min_eval=10000000), thorough=dict(shards=16, min_eval=10000000)),
           U('c12_pbt', 'c12_utf_illformed.cpp', flavour='asan', needs_lib=False, args=['--no-sweeps'],
             quick=dict(cases=4000, shards=8, min_eval=10000), thorough=dict(cases=600000, shards=16, min_eval=100000))]),

 'C11': dict(
    level='exploration', exhaustive_claim=True,
    rule='exhaustive sweep over all 1,112,064 scalar values x all direct encoder operations x both policies, plus generated sequences; oracle = independent ref_utf',
    assumptions=TRUSTED + ['ref_utf.h (written from Unicode ch.3 Table 3-7; self-tested against fixed vectors at every start)'],
    units=[U('c11_utf_valid', 'c11_utf_valid.cpp', needs_lib=False,
             quick=dict(cases=6000, shards=16, min_eval=1000000),
             thorough=dict(cases=400000, shards=16, min_eval=1000000)),
           U('c11_archive_strings', 'c11_archive_strings.cpp', flavour='asan', libs=['-lpugixml'], quick=dict(cases=15000, shards=4, min_eval=20000), thorough=dict(cases=400000, shards=8, min_eval=500000))]),
}
