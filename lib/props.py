"""Property table: which harness units decide which property, per tier."""

def U(name, src, flavour='asan', quick=None, thorough=None, **kw):
    t = {}
    if quick is not None: t['quick'] = quick
    if thorough is not None: t['thorough'] = thorough
    d = dict(name=name, src=src if isinstance(src, list) else [src], flavour=flavour, tiers=t)
    d.update(kw); return d

TRUSTED = ['g++ 12 / clang 14 and their ASan/UBSan runtimes', 'the choice-sequence engine in harness/engine.h (generation, shrinking, replay)']

PROPERTIES = {
 'C11': dict(
    level='exploration', exhaustive_claim=True,
    rule='exhaustive sweep over all 1,112,064 scalar values x all direct encoder operations x both policies, plus generated sequences; oracle = independent ref_utf',
    assumptions=TRUSTED + ['ref_utf.h (written from Unicode ch.3 Table 3-7; self-tested against fixed vectors at every start)'],
    units=[U('c11_utf_valid', 'c11_utf_valid.cpp', needs_lib=False,
             quick=dict(cases=6000, shards=16, min_eval=1000000),
             thorough=dict(cases=400000, shards=16, min_eval=1000000))]),
}
