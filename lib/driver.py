import os, sys, json, hashlib, subprocess, time, fcntl, shutil, re, glob, array, concurrent.futures as cf

VERIF = os.path.dirname(os.path.dirname(os.path.abspath(__file__)))
REPO = os.environ.get('VERIF_REPO', '/repo')          # only the self-test overrides this
BUILD = os.environ.get('VERIF_BUILD_DIR', os.path.join(VERIF, 'build'))   # only the self-test redirects this (scratch trees get a scratch cache)
HARNESS = os.path.join(VERIF, 'harness')
NCPU = os.cpu_count() or 4

import props as PROPS
import fuzz as FUZZ

SAN_ENV = {
    'ASAN_OPTIONS': 'exitcode=86:abort_on_error=0:detect_leaks=1:max_allocation_size_mb=1024:allocator_may_return_null=0:detect_stack_use_after_return=0:handle_abort=0',
    'UBSAN_OPTIONS': 'exitcode=86:print_stacktrace=1:halt_on_error=1',
    'LSAN_OPTIONS': 'exitcode=86',
    'TSAN_OPTIONS': 'exitcode=86:halt_on_error=0:report_signal_unsafe=0',
}

COMMON_INC = lambda: ['-I%s/include' % REPO, '-I%s/src' % REPO, '-I' + HARNESS, '-DBITSERIALIZER_VERIF=1', '-I/usr/include/libxml2']
FLAVOURS = {
    'asan': dict(cxx='g++', flags=['-std=c++17', '-O1', '-g1', '-fno-omit-frame-pointer', '-fsanitize=address,undefined', '-fsanitize=float-cast-overflow', '-fno-sanitize-recover=all'], ld=['-fsanitize=address,undefined']),
    # same as asan, library built with the guarded hook BITSERIALIZER_VERIF_CHUNK_SIZE=32 (stream caches of 32 instead of 256 bytes)
    'asan32': dict(cxx='g++', flags=['-std=c++17', '-O1', '-g1', '-fno-omit-frame-pointer', '-fsanitize=address,undefined', '-fsanitize=float-cast-overflow', '-fno-sanitize-recover=all', '-DBITSERIALIZER_VERIF_CHUNK_SIZE=32'], ld=['-fsanitize=address,undefined']),
    'opt': dict(cxx='g++', flags=['-std=c++17', '-O2'], ld=[]),
    'fuzz': dict(cxx='clang++', flags=['-std=gnu++17', '-O1', '-g', '-fsanitize=fuzzer-no-link,address,undefined', '-fno-sanitize-recover=undefined', '-fsanitize-ignorelist=' + os.path.join(HARNESS, 'ubsan_ignore.txt')], ld=['-fsanitize=fuzzer,address,undefined']),
    'tsan': dict(cxx='clang++', flags=['-std=gnu++17', '-O1', '-g', '-fsanitize=thread'], ld=['-fsanitize=thread']),
}
LIB_SRC_DIRS = ['src/common', 'src/csv', 'src/msgpack']


def log(*a):
    print(*a, file=sys.stderr, flush=True)


def sha_files(paths, extra=b''):
    h = hashlib.sha256(extra)
    for p in sorted(paths):
        h.update(p.encode()); h.update(b'\0')
        try:
            with open(p, 'rb') as f: h.update(f.read())
        except OSError: h.update(b'<missing>')
    return h.hexdigest()


def tree_files():
    out = []
    for top in ('include', 'src'):
        for d, _, fs in os.walk(os.path.join(REPO, top)):
            for f in fs: out.append(os.path.join(d, f))
    return out


def harness_headers():
    return glob.glob(HARNESS + '/*.h') + glob.glob(HARNESS + '/ref/*.h') + glob.glob(HARNESS + '/common/*.h') + glob.glob(HARNESS + '/fuzz/*.h') + [os.path.join(HARNESS, 'ubsan_ignore.txt')]


class Builder:
    def __init__(self):
        self.tree = sha_files(tree_files(), REPO.encode())[:16]
        self.dir = os.path.join(BUILD, self.tree)
        os.makedirs(self.dir, exist_ok=True)
        os.utime(self.dir, None)
        self.hh = sha_files(harness_headers())[:12]

    def _run(self, cmd, outpath):
        tmp = outpath + '.tmp%d' % os.getpid()
        r = subprocess.run([c if c != '@OUT@' else tmp for c in cmd], capture_output=True, text=True)
        if r.returncode != 0:
            return (False, ' '.join(cmd) + '\n' + r.stdout[-4000:] + r.stderr[-6000:])
        os.replace(tmp, outpath)
        return (True, '')

    def build_units(self, units):
        """units: list of unit dicts. Returns {unit name: binary path}. Raises RuntimeError on failure."""
        lockf = open(os.path.join(self.dir, '.lock'), 'w')
        fcntl.flock(lockf, fcntl.LOCK_EX)
        try:
            jobs = []   # (cmd, out)
            flavs = sorted(set(u['flavour'] for u in units if u.get('needs_lib', True)))
            libobjs = {}
            for fl in flavs:
                F = FLAVOURS[fl]; d = os.path.join(self.dir, fl); os.makedirs(d, exist_ok=True); libobjs[fl] = []
                for sd in LIB_SRC_DIRS:
                    for src in sorted(glob.glob(os.path.join(REPO, sd, '*.cpp'))):
                        o = os.path.join(d, 'lib_' + os.path.basename(src)[:-4] + '.o'); libobjs[fl].append(o)
                        if not os.path.exists(o):
                            jobs.append(([F['cxx']] + F['flags'] + COMMON_INC() + ['-c', src, '-o', '@OUT@'], o))
            bins = {}; linkjobs = []; scheduled = set()
            for u in units:
                fl = u['flavour']; F = FLAVOURS[fl]; d = os.path.join(self.dir, fl); os.makedirs(d, exist_ok=True)
                srcs = [os.path.join(HARNESS, s) for s in u['src']]
                key = sha_files(srcs, (self.hh + ' '.join(F['flags'] + u.get('cflags', []) + u.get('libs', []))).encode())[:12]
                binp = os.path.join(d, 'u-%s-%s' % (os.path.basename(srcs[0])[:-4], key)); bins[u['name']] = binp      # keyed by content only: units sharing source+flags share the binary
                if os.path.exists(binp) or binp in scheduled: continue
                scheduled.add(binp)
                objs = []
                for s in srcs:
                    o = binp + '.' + os.path.basename(s)[:-4] + '.o'; objs.append(o)
                    jobs.append(([F['cxx']] + F['flags'] + u.get('cflags', []) + COMMON_INC() + ['-c', s, '-o', '@OUT@'], o))
                linkjobs.append(([F['cxx']] + F['ld'] + objs + (libobjs[fl] if u.get('needs_lib', True) else []) + u.get('libs', []) + ['-o', '@OUT@'], binp, objs))
            if jobs or linkjobs:
                t0 = time.time()
                with cf.ThreadPoolExecutor(max_workers=NCPU) as ex:
                    res = list(ex.map(lambda j: self._run(j[0], j[1]), jobs))
                for ok, msg in res:
                    if not ok: raise RuntimeError('BUILD FAILED\n' + msg)
                with cf.ThreadPoolExecutor(max_workers=NCPU) as ex:
                    res = list(ex.map(lambda j: self._run(j[0], j[1]), linkjobs))
                for ok, msg in res:
                    if not ok: raise RuntimeError('LINK FAILED\n' + msg)
                for _, _, objs in linkjobs:
                    for o in objs:
                        try: os.remove(o)
                        except OSError: pass
                log('[build] %d compile + %d link jobs in %.1fs (tree %s)' % (len(jobs), len(linkjobs), time.time() - t0, self.tree))
            return bins
        finally:
            fcntl.flock(lockf, fcntl.LOCK_UN); lockf.close()

    @staticmethod
    def prune(keep=3):
        try:
            ds = [os.path.join(BUILD, d) for d in os.listdir(BUILD) if os.path.isdir(os.path.join(BUILD, d))]
        except OSError: return
        ds.sort(key=lambda d: os.path.getmtime(d), reverse=True)
        now = time.time()
        for d in ds[keep:]:
            if now - os.path.getmtime(d) < 3 * 3600: continue      # may belong to a check that is still running (concurrent runs share the cache)
            shutil.rmtree(d, ignore_errors=True)


# -------------------------------------------------------------------------------------------------
def load_known():
    p = os.path.join(VERIF, 'known_findings.json')
    if not os.path.exists(p): return []
    with open(p) as f: return json.load(f)['findings']


def active_kf_ids(known, prop):
    return sorted(k['id'] for k in known if k.get('status') == 'known' and prop in k.get('property', []))


def match_known(known, prop, unit, f):
    """A failure matches a recorded finding only if unit/prop/kind (and the optional description regex) all match."""
    for k in known:
        if k.get('status') != 'known' or prop not in k.get('property', []): continue
        for m in k.get('match', []):
            if m.get('unit') not in (None, unit): continue
            if m.get('prop') not in (None, f.get('prop')): continue
            if m.get('kind') is not None and not re.fullmatch(m['kind'], f.get('kind', '')): continue
            if m.get('desc') is not None and not re.search(m['desc'], f.get('desc', '') + ' ' + f.get('detail', '')): continue
            return k
    return None


def run_proc(cmd, timeout, env=None, cwd=None):
    e = dict(os.environ); e.update(SAN_ENV)
    if env: e.update(env)
    t0 = time.time()
    try:
        r = subprocess.run(cmd, capture_output=True, text=True, errors='replace', timeout=timeout, env=e, cwd=cwd)
        return r.returncode, r.stdout, r.stderr, time.time() - t0
    except subprocess.TimeoutExpired as ex:
        so = ex.stdout.decode(errors='replace') if isinstance(ex.stdout, bytes) else (ex.stdout or '')
        se = ex.stderr.decode(errors='replace') if isinstance(ex.stderr, bytes) else (ex.stderr or '')
        return 'timeout', so, se, time.time() - t0


def confirm_replay(binp, replay_path, kind, unit, times=3):
    """Re-run a failing case in fresh isolated processes; it counts only if it fails every time."""
    n = 0
    for _ in range(times):
        rc, so, se, _ = run_proc([binp, '--replay', replay_path, '--isolate', '--cpu', str(unit.get('cpu', 10))] + unit.get('args', []), 300)
        if rc == 1 and 'REPLAY-FAIL' in so: n += 1
        elif rc not in (0, 1): n += 1      # died even in isolated replay (should not happen) -> still a failure
    return n == times


def run_history(binp, args, workdir, tag):
    """Re-runs one shard with exactly the arguments it had; returns the set of (prop, kind) it reports."""
    out = os.path.join(workdir, 'hist-%s.json' % tag); a = list(args)
    for i, x in enumerate(a):
        if x == '--out': a[i + 1] = out
        if x == '--crumb': a[i + 1] = out + '.crumb'
    rc, so, se, _ = run_proc([binp] + a, 1800)
    kinds = set()
    try:
        with open(out) as fo: st = json.load(fo)
        for pname, ps in st['props'].items():
            for ff in ps['failures']: kinds.add((pname, ff.get('kind')))
    except Exception: pass
    return kinds


def confirm_history(binp, f, workdir, times=2):
    for i in range(times):
        if (f.get('prop'), f.get('kind')) not in run_history(binp, f['shard_cmd'], workdir, '%d-%d' % (os.getpid(), i)): return False
    return True


def write_replay(prop, unit, f, tag):
    d = os.path.join(os.environ.get('VERIF_FOUND_DIR', os.path.join(VERIF, 'found')), prop); os.makedirs(d, exist_ok=True)
    body = dict(property=prop, unit=unit['name'], prop=f.get('prop'), kind=f.get('kind'), detail=f.get('detail', '')[:2000], desc=f.get('desc', '')[:2000], expect='pass')
    if 'seq' in f: body['seq'] = f['seq']
    if 'sweep' in f: body['sweep'] = f['sweep']
    if 'file' in f: body['file'] = f['file']
    if 'input_hex' in f: body['input_hex'] = f['input_hex']
    if 'history_args' in f: body['history_args'] = f['history_args']
    hid = hashlib.sha256(json.dumps(body, sort_keys=True).encode()).hexdigest()[:10]
    p = os.path.join(d, '%s-%s.json' % (tag, hid))
    with open(p, 'w') as fo: json.dump(body, fo, indent=1)
    return p


def union_hashes(paths):
    s = set()
    for p in paths:
        try:
            a = array.array('Q');
            with open(p, 'rb') as f: a.frombytes(f.read())
            s.update(a)
        except OSError: pass
    return len(s)


def check_property(pid, tier, seed, replay_only=None):
    t0 = time.time()
    P = PROPS.PROPERTIES[pid]
    known = load_known()
    kf_ids = active_kf_ids(known, pid)
    units = [u for u in P['units'] if tier in u['tiers']]
    all_units = P['units']
    builder = Builder()
    try:
        bins = builder.build_units(all_units if replay_only is None else all_units)
    except RuntimeError as e:
        log(str(e)); log('check %s: harness does not build against this tree' % pid); return 2
    Builder.prune()
    unit_by_name = {u['name']: u for u in all_units}
    violations = []; known_hit = {}; notes = []; seen_kinds = set(); crashed_props = set()
    workdir = os.path.join(builder.dir, 'run-%s-%s-%d' % (pid, tier, os.getpid())); os.makedirs(workdir, exist_ok=True)

    def is_fuzz(u): return u.get('kind') == 'libfuzzer'

    def report_failure(unit, f, confirmed_path=None):
        k = match_known(known, pid, unit['name'], f)
        if k is not None:
            known_hit.setdefault(k['id'], k); return
        tmp = os.path.join(workdir, 'cand-%d.json' % len(os.listdir(workdir)))
        dk = (unit['name'], f.get('prop'), f.get('kind'))
        if dk in seen_kinds: return          # one report per (unit, property function, failure kind)
        seen_kinds.add(dk)
        body = dict(prop=f.get('prop'), kind=f.get('kind'))
        if 'seq' in f: body['seq'] = f['seq']
        if 'sweep' in f: body['sweep'] = f['sweep']; body['desc'] = f.get('desc', '')
        with open(tmp, 'w') as fo: json.dump(body, fo)
        if len(violations) >= 6:
            notes.append('further failure not confirmed (6 violations already reported): %s %s' % (f.get('kind'), f.get('desc', '')[:120])); return
        if f.get('confirmed') or confirm_replay(bins[unit['name']], tmp, f.get('kind'), unit, times=1 if 'sweep' in f else 3):
            p = write_replay(pid, unit, f, 'new')
            violations.append((p, f))
        elif 'shard_cmd' in f and confirm_history(bins[unit['name']], f, workdir, times=2):
            # the case alone passes, but it fails again whenever the cases before it in its shard have run: state leaks between operations
            f = dict(f); f['history_args'] = [a for a in f['shard_cmd']]
            f['desc'] = 'STATE-DEPENDENT (fails only after the preceding cases of its shard; the replay re-runs the shard): ' + f.get('desc', '')
            p = write_replay(pid, unit, f, 'new')
            violations.append((p, f))
        else:
            notes.append('unconfirmed failure (did not reproduce 3/3 in fresh processes): %s %s' % (f.get('kind'), f.get('desc', '')[:200]))

    # ---- replay tier -------------------------------------------------------------------------
    replay_files = sorted(glob.glob(os.path.join(VERIF, 'replay', pid, '*.json'))) if replay_only is None else [replay_only]
    replayed = 0
    for rf in replay_files:
        try:
            with open(rf) as f: body = json.load(f)
        except Exception as e:
            log('bad replay file %s: %s' % (rf, e)); return 2
        u = unit_by_name.get(body.get('unit'))
        if u is None: log('replay file %s names unknown unit %s' % (rf, body.get('unit'))); continue
        if body.get('history_args'):
            kinds = run_history(bins[u['name']], body['history_args'], workdir, 'replay-%d' % replayed)
            replayed += 1; failed = (body.get('prop'), body.get('kind')) in kinds
            exp = body.get('expect', 'pass')
            if replay_only is not None: print('replay %s (shard with history): %s' % (rf, 'FAIL' if failed else 'pass'))
            if failed:
                if exp.startswith('known:'):
                    kid = exp.split(':', 1)[1]
                    k = next((k for k in known if k['id'] == kid and k.get('status') == 'known'), None)
                    if k is not None: known_hit.setdefault(kid, k); continue
                violations.append((rf, dict(kind=body.get('kind', 'replay'), desc=body.get('desc', ''), detail='')))
            continue
        if is_fuzz(u):
            tmpin = os.path.join(workdir, 'replay-input-%d' % replayed)
            with open(tmpin, 'wb') as fo: fo.write(bytes.fromhex(body.get('input_hex', '')))
            exp = body.get('expect', 'pass')
            # witnesses of recorded findings run with the target's exclusion-by-construction switched off
            nfail, kind = FUZZ.replay_input(bins[u['name']], tmpin, SAN_ENV, times=1, extra_env={'VF_NO_EXCL': '1'} if exp.startswith('known:') else None)
            replayed += 1; failed = nfail > 0; so = 'kind=%s' % kind
            if replay_only is not None: print('replay %s: %s %s' % (rf, 'FAIL' if failed else 'pass', kind or ''))
            if failed:
                if exp.startswith('known:'):
                    kid = exp.split(':', 1)[1]
                    k = next((k for k in known if k['id'] == kid and k.get('status') == 'known'), None)
                    if k is not None: known_hit.setdefault(kid, k); continue
                violations.append((rf, dict(kind=kind or body.get('kind', 'replay'), desc=body.get('desc', ''), detail='')))
            continue
        rc, so, se, _ = run_proc([bins[u['name']], '--replay', rf, '--isolate', '--tier', tier, '--cpu', str(u.get('cpu', 10))] + u.get('args', []), 600)
        replayed += 1
        failed = (rc == 1 and 'REPLAY-FAIL' in so) or rc not in (0, 1)
        exp = body.get('expect', 'pass')
        if replay_only is not None:
            print(so.strip()); print('replay %s: %s' % (rf, 'FAIL' if failed else 'pass'))
        if failed:
            if exp.startswith('known:'):
                kid = exp.split(':', 1)[1]
                k = next((k for k in known if k['id'] == kid and k.get('status') == 'known'), None)
                if k is not None: known_hit.setdefault(kid, k); continue
            violations.append((rf, dict(kind=body.get('kind', 'replay'), desc=body.get('desc', ''), detail=so[-500:])))
    if replay_only is not None:
        for p, f in violations: print('VIOLATION property=%s replay=%s' % (pid, p))
        shutil.rmtree(workdir, ignore_errors=True)
        return 1 if violations else 0

    # ---- generated search --------------------------------------------------------------------
    procs = []
    fuzz_units = [u for u in units if is_fuzz(u)]
    for u in units:
        if is_fuzz(u): continue
        cfg = u['tiers'][tier]
        shards = cfg.get('shards', 1)
        for sh in range(shards):
            out = os.path.join(workdir, '%s.%d.json' % (u['name'], sh)); crumb = out + '.crumb'
            cmd = [bins[u['name']], '--seed', str(seed), '--tier', tier, '--cases', str(cfg.get('cases', 1000)), '--shard', '%d/%d' % (sh, shards), '--out', out, '--crumb', crumb, '--cpu', str(u.get('cpu', 10))]
            if kf_ids: cmd += ['--kf', ','.join(kf_ids)]
            if u.get('isolate'): cmd += ['--isolate']
            cmd += u.get('args', []) + cfg.get('args', [])
            procs.append((u, sh, cmd, out, crumb, cfg.get('timeout', 1500 if tier == 'quick' else 5400)))
    results = []
    fuzz_results = []
    with cf.ThreadPoolExecutor(max_workers=NCPU) as ex:
        ffuts = [ex.submit(FUZZ.run_unit, u, bins[u['name']], tier, seed, workdir, SAN_ENV) for u in fuzz_units]
        futs = [ex.submit(run_proc, p[2], p[5]) for p in procs]
        for p, fu in zip(procs, futs): results.append((p, fu.result()))
        for u, fu in zip(fuzz_units, ffuts): fuzz_results.append((u, fu.result()))

    coverage_units = {}; total_eval = 0; total_distinct = 0; samples = []; rules = []; labels = {}; excluded = {}; exhaustive_parts = []; inconclusive = []
    hash_files = {}
    for (u, sh, cmd, out, crumb, _), (rc, so, se, wall) in results:
        st = None
        if os.path.exists(out):
            try:
                with open(out) as f: st = json.load(f)
            except Exception: st = None
        if rc == 'timeout':
            inconclusive.append('%s shard %d: wall-clock budget hit (inconclusive, not a violation)' % (u['name'], sh))
        elif rc == 2:
            log(so[-2000:]); log(se[-3000:]); log('unit %s reported a broken harness/oracle (exit 2)' % u['name']); return 2
        elif rc not in (0, 1):
            # the process died: recover the case from the breadcrumb and confirm it in isolation
            cr = ''
            try:
                with open(crumb, 'rb') as f: cr = f.read().split(b'\0', 1)[0].decode(errors='replace')
            except OSError: pass
            f = None
            try: cj = json.loads(cr) if cr else None
            except Exception: cj = None
            died = 'died:cpu-budget' if rc == 97 else 'died:exit-%s' % rc
            ckey = (u['name'], (cj or {}).get('prop') or (cj or {}).get('sweep'))
            if cj and ckey in crashed_props:
                continue          # another shard already delivered a dying case of this property function
            crashed_props.add(ckey)
            if cj and 'gen_seed' in cj:
                rc2, so2, se2, _ = run_proc([bins[u['name']], '--regen', '%s:%d:%d' % (cj['prop'], cj['gen_seed'], cj['size']), '--isolate', '--crumb', crumb + '.regen', '--cpu', str(u.get('cpu', 10))] + u.get('args', []), 600)
                try:
                    with open(crumb + '.regen', 'rb') as fr: cj2 = json.loads(fr.read().split(b'\0', 1)[0].decode(errors='replace'))
                    m = re.search(r'kind=(\S+)', so2)
                    f = dict(prop=cj['prop'], seq=cj2['seq'], kind=(m.group(1) if m and rc2 == 1 else died), desc='process died; case recovered from breadcrumb', detail=(se[-1500:]))
                except Exception as e2:
                    f = None
            elif cj and 'seq' in cj:
                f = dict(prop=cj['prop'], seq=cj['seq'], kind=died, desc='process died during replayed sequence', detail=se[-1500:])
            elif cj and 'sweep' in cj:
                f = dict(prop=cj['sweep'], sweep=cj['sweep'], kind=died, desc='process died inside sweep', detail=se[-1500:], confirmed=False)
            if f is not None:
                # try to shrink the crashing sequence in isolation
                if 'seq' in f:
                    tmp = os.path.join(workdir, 'crash-%s-%d.json' % (u['name'], sh))
                    with open(tmp, 'w') as fo: json.dump(dict(prop=f['prop'], seq=f['seq']), fo)
                    rc3, so3, se3, _ = run_proc([bins[u['name']], '--replay', tmp, '--isolate', '--shrink', '--cpu', str(u.get('cpu', 10))] + u.get('args', []), 900)
                    m = re.search(r'^SHRUNK (\{.*\})$', so3, re.M)
                    if m:
                        try:
                            sj = json.loads(m.group(1)); f.update(seq=sj['seq'], kind=sj['kind'], desc=sj.get('desc') or f['desc'])
                        except Exception: pass
                report_failure(u, f)
            else:
                log(so[-2000:]); log(se[-3000:]); log('unit %s died (exit %s) and no case could be recovered' % (u['name'], rc)); return 2
        if st is None:
            if rc in (0, 1): log(so[-1000:]); log(se[-2000:]); log('unit %s produced no statistics' % u['name']); return 2
            continue
        hash_files.setdefault(u['name'], []).append(out + '.hashes')
        for pname, ps in st['props'].items():
            cu = coverage_units.setdefault('%s/%s' % (u['name'], pname), dict(evaluations=0, nontrivial=0, discarded=0, failed_cases=0, sweep=bool(ps.get('sweep'))))
            cu['evaluations'] += ps['evaluations']; cu['nontrivial'] += ps['nontrivial']; cu['discarded'] += ps['discarded']; cu['failed_cases'] += ps['failed_cases']
            total_eval += ps['evaluations']
            if ps.get('sweep'):
                total_distinct += ps['distinct_nontrivial']; exhaustive_parts.append(pname)
            for l, n in ps['labels'].items(): labels['%s:%s' % (pname, l)] = labels.get('%s:%s' % (pname, l), 0) + n
            for l, n in ps['excluded'].items(): excluded[l] = excluded.get(l, 0) + n
            for s in ps['samples']:
                if len([x for x in samples if x.startswith(pname + ': ')]) < 3: samples.append('%s: %s' % (pname, s))
            for f in ps['failures']:
                f = dict(f); f['prop'] = pname; f['shard_cmd'] = cmd[1:]
                report_failure(u, f)
    for uname, hf in hash_files.items():
        total_distinct += union_hashes(hf)
    for u, fr in fuzz_results:
        coverage_units['%s/libfuzzer' % u['name']] = dict(evaluations=fr['evaluations'], nontrivial=fr['nontrivial'], discarded=0, failed_cases=len(fr['failures']), sweep=False, seeds=fr['seeds'])
        total_eval += fr['evaluations']; total_distinct += fr['distinct']
        for l, n in fr['labels'].items(): labels['%s:%s' % (u['name'], l)] = n
        for s in fr['samples'][:2]: samples.append('%s: %s' % (u['name'], s))
        inconclusive.extend(fr['inconclusive'])
        if u.get('rule'): rules.append('%s: %s' % (u['name'], u['rule']))
        for f in fr['failures']:
            if f.get('fatal'):
                log(f.get('detail', '')); log('unit %s: %s' % (u['name'], f['kind'])); return 2
            report_failure(u, f)
    # rules
    for u in units:
        if is_fuzz(u): continue
        rc, so, se, _ = run_proc([bins[u['name']], '--list'], 60)
        for line in so.splitlines():
            parts = line.split('\t')
            if len(parts) >= 4: rules.append('%s/%s: %s' % (u['name'], parts[1], parts[3]))

    # minimum amount of work: a quick tier that did nothing must not pass silently
    min_eval = sum(u['tiers'][tier].get('min_eval', 1) for u in units)
    broken = None
    if total_eval < min_eval and not violations:
        broken = 'only %d evaluations (< %d required) - inconclusive run' % (total_eval, min_eval)

    # ---- verdict -----------------------------------------------------------------------------
    ev = dict(property_id=pid, tier=tier, seed=seed, level=P['level'],
              coverage=dict(evaluations=total_eval, distinct_nontrivial=total_distinct, rule=P['rule'] + ' || ' + ' || '.join(sorted(set(rules))),
                            samples=samples[:24] or ['<none>'], units=coverage_units, labels=labels, excluded_by_known_finding=excluded,
                            replayed_files=replayed, inconclusive=inconclusive, notes=notes,
                            exhaustive=bool(exhaustive_parts) and P.get('exhaustive_claim', False), exhaustive_parts=sorted(set(exhaustive_parts)),
                            known_findings_reported=sorted(known_hit.keys())),
              assumptions=P['assumptions'], wall_s=round(time.time() - t0, 2), violations=len(violations))
    evdir = os.environ.get('VERIF_EVIDENCE_DIR', os.path.join(VERIF, 'evidence'))   # only the self-test redirects this
    os.makedirs(evdir, exist_ok=True)
    with open(os.path.join(evdir, pid + '.json'), 'w') as f: json.dump(ev, f, indent=1)
    shutil.rmtree(workdir, ignore_errors=True)

    for kid, k in sorted(known_hit.items()):
        print('KNOWN-FINDING: property=%s %s %s' % (pid, kid, k['what']))
    for p, f in violations:
        print('VIOLATION property=%s replay=%s' % (pid, p))
        print('  kind=%s\n  case=%s\n  detail=%s' % (f.get('kind'), f.get('desc', '')[:400], f.get('detail', '')[:400]))
    for n in notes + inconclusive: print('NOTE: ' + n)
    print('%s %s: evaluations=%d distinct_nontrivial=%d violations=%d known=%d wall=%.1fs' % (pid, tier, total_eval, total_distinct, len(violations), len(known_hit), time.time() - t0))
    if violations: return 1
    if broken: log(broken); return 2
    return 0


def main(argv):
    if not argv or argv[0] in ('-h', '--help'):
        print(__doc__ if __doc__ else 'usage: check <Cxx> --tier quick|thorough [--replay F] | --setup | --list'); return 2
    if argv[0] == '--list':
        for pid, P in sorted(PROPS.PROPERTIES.items()): print(pid, [u['name'] for u in P['units']])
        return 0
    if argv[0] == '--setup':
        # warm build of every unit against the current tree, and run every oracle self-test once
        b = Builder(); us = []
        seen = set()
        for pid, P in sorted(PROPS.PROPERTIES.items()):
            for u in P['units']:
                if u['name'] not in seen: seen.add(u['name']); us.append(u)
        try: bins = b.build_units(us)
        except RuntimeError as e: log(str(e)); return 2
        for u in us:
            if u.get('kind') == 'libfuzzer': continue
            rc, so, se, _ = run_proc([bins[u['name']], '--list'], 120)
            if rc != 0: log('self-test of %s failed: %s %s' % (u['name'], so[-500:], se[-1500:])); return 2
        print('setup ok: %d units built for tree %s' % (len(us), b.tree)); return 0
    pid = argv[0]; tier = os.environ.get('VERIF_TIER', 'quick'); replay = None
    i = 1
    while i < len(argv):
        if argv[i] == '--tier': tier = argv[i + 1]; i += 2
        elif argv[i] == '--replay': replay = os.path.abspath(argv[i + 1]); i += 2
        else: i += 1
    if pid not in PROPS.PROPERTIES: log('unknown property ' + pid); return 2
    try: seed = int(os.environ.get('VERIF_SEED', '1'))
    except ValueError: seed = 1
    if seed == 0: seed = 1
    return check_property(pid, tier, seed, replay)
