HOOK_COMMITS = []
NOTES = 'All checks are generated-input search (property-based testing / fuzzing) against explicit oracles; see DESIGN.md. Driver: ./check <id> --tier quick|thorough. Known and fixed genuine defects: known_findings.json.'
ENGINES = [
 dict(name='pbt', path='harness/engine.h', serves_properties=[], kind_free_text='choice-sequence property engine: seeded generation, integrated shrinking (delta debugging over recorded draws), replay files, optional fork isolation per case; g++ ASan+UBSan'),
 dict(name='sweep', path='harness/engine.h', serves_properties=[], kind_free_text='exhaustive enumeration of finite domains named by a quantifier, same oracle code, sharded over 16 processes'),
]
NOT_APPLICABLE = {}
_NOTE = 'Trusted base: compiler + sanitizer runtimes, the engine in harness/engine.h, and the independent reference oracle named in the technique (self-tested at every start). Verdict is "held on everything explored", not absence.'
TEXT = {
 'C12': dict(engine='sweep+pbt', design_ref='DESIGN.md 5/C12',
   technique='exhaustive sweep + property-based testing with a segmentation-agnostic tiling oracle over an independent UTF reference',
   level_text='Exhaustive over all 16.8 M UTF-8 strings of length <= 3, 810 k 4-byte strings by byte class, every UTF-16 unit and every surrogate pair, every UTF-32 unit up to 0x11FFFF, through every decoder/encoder/Transcode entry point and both policies; plus ~10^5 generated texts with embedded ill-formed chunks under ASan/UBSan with three mark variants. Exploration: small strings are closed completely, long ones sampled.',
   level_note=_NOTE),

 'C11': dict(engine='sweep+pbt', design_ref='DESIGN.md 5/C11',
   technique='exhaustive sweep + property-based testing vs independent UTF reference (ref_utf)',
   level_text='Exhaustive over the finite domain the quantifier names (every Unicode scalar value through every direct encoder operation, both policies, empty and non-empty outputs) plus ~10^5 generated mixed-plane sequences up to 4096 code points per run, all compared with an independent encoder/decoder. Exploration is the right level: the per-scalar domain is closed completely, sequences are sampled.',
   level_note=_NOTE),
}
