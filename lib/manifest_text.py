HOOK_COMMITS = ['5ba4b6489b25bf91c21fe682d007ad7174115283']
NOTES = 'All checks are generated-input search (property-based testing / fuzzing) against explicit oracles; see DESIGN.md. Driver: ./check <id> --tier quick|thorough. Known and fixed genuine defects: known_findings.json.'
ENGINES = [
 dict(name='pbt', path='harness/engine.h', serves_properties=[], kind_free_text='choice-sequence property engine: seeded generation, integrated shrinking (delta debugging over recorded draws), replay files, optional fork isolation per case; g++ ASan+UBSan'),
 dict(name='sweep', path='harness/engine.h', serves_properties=[], kind_free_text='exhaustive enumeration of finite domains named by a quantifier, same oracle code, sharded over 16 processes'),
]
NOT_APPLICABLE = {}
_NOTE = 'Trusted base: compiler + sanitizer runtimes, the engine in harness/engine.h, and the independent reference oracle named in the technique (self-tested at every start). Verdict is "held on everything explored", not absence.'
TEXT = {
 'C02': dict(engine='libfuzzer+pbt', design_ref='DESIGN.md 5/C02',
   technique='coverage-guided fuzzing (libFuzzer, ASan + UBSan) of structure-aware targets with in-target oracles, plus generated depth / size ladders run in isolated child processes',
   level_text='per quick run ~10^5 coverage-guided executions per target (4 loaders x 30 target types x policies x memory / 3 stream kinds, text converters in 4 character widths, UTF codecs, encoded stream reader) starting from valid seed documents of every target type: any crash, sanitizer report, non-std exception, single allocation above 512 MiB, or input that does not finish within 25 s is a violation once it reproduces 3/3 from the saved input (which is minimised and becomes the replay file); the ladder feeds nesting depths up to 10^6 and declared counts up to 2^32-1 that a length-capped fuzzer cannot reach.',
   level_note=_NOTE + ' One recorded finding (KF-61, third-party RapidJSON 1.1.0: JSON number literals beyond the double range) is excluded from the JSON target by construction, counted, and witnessed from two saved inputs on every run.'),

 'C03': dict(engine='pbt (stateful / model-based)', design_ref='DESIGN.md 5/C03',
   technique='model-based property testing: generated request scripts executed against the real object scope and compared with the document as a map',
   level_text='~1.6*10^5 generated (document, request script, archive, stream kind, alignment) cases per quick run: each request must return exactly the stored value, absent keys must report not-loaded and leave int / string / optional / atomic / unique_ptr targets in the documented state, partly read child arrays and objects and early stops must leave the reader positioned so that the sentinel behind the object still loads; the whole script shrinks as one value.',
   level_note=_NOTE),
 'C05': dict(engine='pbt', design_ref='DESIGN.md 5/C05',
   technique='metamorphic property-based testing: document with injected offences vs the clean document under the Skip policies',
   level_text='~1.6*10^5 generated cases per quick run: every non-offended leaf must equal the clean load, every offended position must keep its sentinel, sequence lengths must be unchanged, data behind the tree must still load, and Required validators must fire for exactly the skipped fields; all four archives from memory and streams under ASan/UBSan.',
   level_note=_NOTE),

 'C17': dict(engine='pbt', design_ref='DESIGN.md 5/C17',
   technique='model-based property-based testing: generated validator configurations and documents against a reference model of the documented validation rules',
   level_text='~1.6*10^5 generated (validator configuration, document, maxValidationErrors, archive, stream kind) cases per quick run: the load must throw ValidationException iff the model predicts a failing validator, the exception must list exactly the predicted fields with exactly the predicted messages in declaration order (truncated to the first maxValidationErrors failing fields in load order), and every field must hold the document value if loaded and its previous value otherwise; values sit at, just inside and just outside every Range / MinSize / MaxSize bound and the Email 64/63/255 and PhoneNumber digit-count limits.',
   level_note=_NOTE),

 'C08': dict(engine='pbt', design_ref='DESIGN.md 5/C08',
   technique='differential property-based testing against independent standard parsers (nlohmann::json, libxml2) and, conversely, an independent free-choice emitter whose documents the library must load to the same value',
   level_text='~1.6*10^5 generated (tree, configuration) cases per quick run and direction: every document written must decode per the configured encoding/BOM, be accepted by the independent parser and yield the same names, order, nesting, scalar values and attributes; pretty output must differ from compact only by the configured padding; every re-rendering of the same data by the independent emitter (white space, escapes / character references / CDATA, member order, numeric spelling, declaration, encoding, BOM; each first validated by the independent parser) must load to the same value from memory and from streams.',
   level_note=_NOTE),

 'C19': dict(engine='pbt', design_ref='DESIGN.md 5/C19',
   technique='schedule-generating property-based testing under ThreadSanitizer: generated multi-thread operation schedules, happens-before race detection plus differential comparison with a sequential run',
   level_text='~10^4 generated schedules per quick run (2..4 threads, 2..10 operations each, released together): ThreadSanitizer must report no data race in harness, library sources or header-only adapters, and every operation must return exactly what it returned when the same schedule ran sequentially; a failing schedule shrinks (fewer threads / operations) and replays from its choice sequence.',
   level_note=_NOTE),

 'C20': dict(engine='pbt', design_ref='DESIGN.md 5/C20',
   technique='fault-injection property-based testing: generated scenarios with enumerated fault positions (truncation length, index of the failing operator new, byte at which a streambuf fails), every case in a forked child whose exit status is part of the oracle',
   level_text='~8*10^3 isolated cases per quick run, each enumerating one, a window of, or all fault positions of its scenario (about 10^5 injected faults): the caller must see a std::exception (or, for an absorbed allocation failure, exactly the fault-free result); the child must not call std::terminate, abort, trip ASan/UBSan, exceed its CPU budget or leak at exit; MessagePack must reject every strict prefix.',
   level_note=_NOTE),

 'C09': dict(engine='pbt', design_ref='DESIGN.md 5/C09',
   technique='property-based testing in both directions against an independent strict RFC 4180 parser and free-choice writer',
   level_text='~2*10^5 generated tables per quick run: what the library writes (decoded per configured encoding/BOM) must parse under a strict RFC 4180 reference into exactly the original header and cells; what an independent writer renders with random quoting, LF/CRLF, final break and column order must load (by name, into maps and a typed struct with a different request order) to the same rows from memory and from encoded streams; records with a wrong field count must be rejected with ParsingError.',
   level_note=_NOTE),
 'C10': dict(engine='pbt', design_ref='DESIGN.md 5/C10',
   technique='differential property-based testing: in-memory entry point vs stream entry points over padded and mutated documents',
   level_text='~2.4*10^5 documents per quick run, each loaded through the memory reader and through a stream reader fed by a stringstream, a streambuf that returns 1..k bytes per call, or a non-seekable streambuf; a padding member of 0..600 bytes moves every key, length prefix, multi-byte character and quoted field across the 256-byte chunk boundary; valid documents must load to the saved value through both, mutated ones must be loaded identically or rejected by both; stream saving must equal memory saving byte for byte.',
   level_note=_NOTE),

 'C13': dict(engine='pbt', design_ref='DESIGN.md 5/C13',
   technique='property-based testing with boundary-placed texts against an independent UTF encoder; truncation enumeration; bounded-progress counter for hangs',
   level_text='~5*10^5 generated streams per quick run: texts sized and composed so that 2/3/4-byte and surrogate-pair characters straddle the reader chunk boundary, in 5 encodings with/without BOM, read through CEncodedStreamReader for three target widths and three chunk sizes from ordinary and short-read streambufs; cut at arbitrary bytes under both policies; written through CEncodedStreamWriter; detected by DetectEncoding; foreign-encoded CSV/JSON/XML documents loaded through the archive stream entry points, and CSV/JSON/XML saved to streams in every encoding x BOM x compact/pretty compared byte for byte with BOM + reference encoding.',
   level_note=_NOTE),

 'C06': dict(engine='sweep+pbt', design_ref='DESIGN.md 5/C06',
   technique='exhaustive sweep + property-based testing with an independent strict MessagePack decoder and an independently derived expected tree',
   level_text='Every 8/16-bit integer of every integer type and every format threshold is written and decoded by an independent spec decoder; ~4*10^4 generated typed values per quick run (96 model types) must decode to exactly the independently derived data model (member order, counts, bin for bytes, Timestamp with 0 <= ns < 10^9), use the most compact format at every node, and be byte-identical from memory and stream.',
   level_note=_NOTE),
 'C07': dict(engine='pbt', design_ref='DESIGN.md 5/C07',
   technique='differential property-based testing: independent encoder with adversarial format choice -> library reader vs independent reference decoder; truncation and byte corruption',
   level_text='~5*10^4 documents per quick run are produced by an independent encoder that picks any legal format per node and any key order, and loaded through both readers into typed targets and arbitrary-shape trees (IsEnd-driven arrays): the delivered value must equal what the specification assigns, also when the document holds members the target does not list (every ext size class) or map keys the target key type cannot take under the Skip policies; strict prefixes must be rejected with a SerializationException; after a single-byte corruption the loader must deliver exactly what the reference decoder reads from the corrupted bytes, or reject.',
   level_note=_NOTE),

 'C01': dict(engine='pbt', design_ref='DESIGN.md 5/C01',
   technique='property-based round-trip testing over typed models (save -> load -> deep equality, load-save-load fixed point)',
   level_text='~3*10^4 generated (type, value, archive, position, configuration) round trips per quick run over 96 model types instantiating the library own serializers, under ASan/UBSan: the loaded value must equal the saved one bit for bit, neighbouring members must be intact, re-saving must be a fixed point (byte-identical for MsgPack); a save may only fail with an exception. Exploration: the value space is sampled with boundary-biased generators.',
   level_note=_NOTE + ' Five recorded findings narrow the XML/CSV/JSON domains; each has a witness run on every check.'),
 'C18': dict(engine='pbt', design_ref='DESIGN.md 5/C18',
   technique='metamorphic property-based testing: load(doc, into=populated B) == load(doc, into=fresh) == saved value; MapLoadMode model',
   level_text='~2.5*10^4 generated (type, saved value A, prior target value B, archive, configuration) cases per quick run over all std containers, optionals, smart pointers, strings and nested combinations; plus a model of the documented MapLoadMode semantics (OnlyExistKeys never adds, UpdateKeys never removes) checked on generated key sets.',
   level_note=_NOTE),

 'C04': dict(engine='sweep+pbt', design_ref='DESIGN.md 5/C04',
   technique='exhaustive sweep + property-based testing vs exact numeric reference model, differential over source/target type pairs and archive carriers',
   level_text='All 8/16-bit source values are converted into 11 target types and compared with an exact model; ~2*10^5 generated (source type, boundary/random value, target type, archive, position, policies, memory/stream) cases per quick run save the value with the library (MsgPack also with an independent encoder choosing any legal format), load it into the target type and require: exact value, or the documented report (Overflow / MismatchedTypes exception, or skip with the target untouched and the Required validator firing) - never a truncated, wrapped or sign-changed value; neighbours must stay intact.',
   level_note=_NOTE),

 'C15': dict(engine='pbt+sweep', design_ref='DESIGN.md 5/C15',
   technique='grammar-based property testing: texts rendered from generated fields, denoted value computed independently in __int128',
   level_text='~4*10^5 generated date-time and duration texts per quick run (fields at, below and above every range, years and magnitudes to and beyond 2^64, all target-limit neighbourhoods), each parsed into 14 time_point and 14 duration types plus time_t and tm and judged against the value the text denotes: exact value (fraction rounded, either neighbour on ties), out_of_range, or invalid_argument; every fraction value up to 6 digits exhaustively; mutated garbage for totality; all under ASan/UBSan and in two string widths.',
   level_note=_NOTE),

 'C14': dict(engine='sweep+pbt', design_ref='DESIGN.md 5/C14',
   technique='exhaustive calendar sweep + property-based testing vs independent calendar reference (Rata-Die, __int128)',
   level_text='Every day of a 30,000-year range is printed in seven precisions and two representation widths, compared character by character with an independent calendar and parsed back; every second of the leap/century/epoch boundary days likewise; ~3*10^5 generated extreme and random instants and durations per quick run are printed, compared, parsed back (also from UTF-16/32 text), read by an independent ISO-8601 duration reader and passed through the MsgPack timestamp (time_t also through JSON, XML and CSV), under ASan/UBSan.',
   level_note=_NOTE + ' Two recorded findings (KF-27, KF-33) narrow the time-point domain at the very ends of 64-bit ranges (text that prints correctly but is rejected by the parser); both are witnessed on every run.'),

 'C16': dict(engine='sweep+pbt', design_ref='DESIGN.md 5/C16',
   technique='exhaustive sweep + grammar-based property testing vs independent numeric reference (glibc strto*, __int128)',
   level_text='Every 8/16-bit integer and (thorough) every one of the 2^32 float bit patterns is printed, checked for bit-exact round trip through glibc and the library, for minimal digit count and length; boundary/random 32/64-bit integers and doubles likewise; ~5*10^5 literal-grammar strings per quick run are parsed into 10 integer types, float and double and compared with the reference outcome (value / invalid_argument / out_of_range) in four string widths, incl. non-ASCII and ill-formed code units and views into larger buffers.',
   level_note=_NOTE),

 'C12': dict(engine='sweep+pbt', design_ref='DESIGN.md 5/C12',
   technique='exhaustive sweep + property-based testing with a segmentation-agnostic tiling oracle over an independent UTF reference',
   level_text='Exhaustive over all 16.8 M UTF-8 strings of length <= 3, 810 k 4-byte strings by byte class, every UTF-16 unit and every surrogate pair, every UTF-32 unit up to 0x11FFFF, through every decoder/encoder/Transcode entry point and both policies; plus ~10^5 generated texts with embedded ill-formed chunks under ASan/UBSan with three mark variants. Exploration: small strings are closed completely, long ones sampled.',
   level_note=_NOTE),

 'C11': dict(engine='sweep+pbt', design_ref='DESIGN.md 5/C11',
   technique='exhaustive sweep + property-based testing vs independent UTF reference (ref_utf)',
   level_text='Exhaustive over the finite domain the quantifier names (every Unicode scalar value through every direct encoder operation, both policies, empty and non-empty outputs) plus ~10^5 generated mixed-plane sequences up to 4096 code points per run (also supplied as pointers, list / deque iterators and single-pass input ranges), all compared with an independent encoder/decoder. Exploration is the right level: the per-scalar domain is closed completely, sequences are sampled.',
   level_note=_NOTE),
}
